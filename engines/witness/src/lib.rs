//! E3 — type-level witnesses (compile-pass / compile_fail doctests), run with `cargo +nightly test --doc`.
//! Each `compile_fail,E0xxx` witness is paired with a compiling twin that differs only by the offending line,
//! because a witness whose path is merely wrong also "fails to compile".

/// W1 (R6): `State::new_nvt_unchecked` cannot be named outside feos-core — every external construction of a
/// `State` goes through the validating constructors.
///
/// twin (compiles):
/// ```
/// use feos_core::cubic::{PengRobinson, PengRobinsonParameters};
/// use feos_core::State;
/// use std::sync::Arc;
/// fn f(eos: &Arc<PengRobinson>, t: quantity::Temperature, v: quantity::Volume, n: &quantity::Moles<ndarray::Array1<f64>>) {
///     let _ = State::new_nvt(eos, t, v, n);
/// }
/// ```
/// witness:
/// ```compile_fail,E0624
/// use feos_core::cubic::{PengRobinson, PengRobinsonParameters};
/// use feos_core::State;
/// use std::sync::Arc;
/// fn f(eos: &Arc<PengRobinson>, t: quantity::Temperature, v: quantity::Volume, n: &quantity::Moles<ndarray::Array1<f64>>) {
///     let _ = State::new_nvt_unchecked(eos, t, v, n);
/// }
/// ```
pub struct W1UncheckedConstructorIsPrivate;

/// W2 (R6/R9): the derivative cache of a `State` is not reachable from outside the crate.
///
/// twin (compiles):
/// ```
/// use feos_core::cubic::PengRobinson;
/// use feos_core::State;
/// fn f(s: &State<PengRobinson>) { let _ = &s.temperature; }
/// ```
/// witness:
/// ```compile_fail,E0616
/// use feos_core::cubic::PengRobinson;
/// use feos_core::State;
/// fn f(s: &State<PengRobinson>) { let _ = &s.cache; }
/// ```
pub struct W2CacheIsPrivate;

/// W3 (R6): the reduced values the model is evaluated at cannot be overwritten from outside.
///
/// twin (compiles):
/// ```
/// use feos_core::cubic::PengRobinson;
/// use feos_core::State;
/// fn f(s: &State<PengRobinson>) { let _ = s.volume; }
/// ```
/// witness:
/// ```compile_fail,E0616
/// use feos_core::cubic::PengRobinson;
/// use feos_core::State;
/// fn f(s: &State<PengRobinson>) { let _ = s.reduced_volume; }
/// ```
pub struct W3ReducedFieldsArePrivate;

/// W4 (R6): a `State` cannot be forged with a struct literal outside the crate (private fields).
///
/// ```compile_fail,E0451
/// use feos_core::cubic::PengRobinson;
/// use feos_core::State;
/// fn f(s: State<PengRobinson>) -> State<PengRobinson> {
///     State { temperature: s.temperature, ..s.clone() }.with_private()
/// }
/// trait P { fn with_private(self) -> Self; }
/// impl<E> P for State<E> { fn with_private(self) -> Self { State { reduced_volume: 1.0, ..self } } }
/// ```
pub struct W4NoStructLiteral;

/// W5 (R9): states and phase equilibria can be shared between threads (the cache is behind a Mutex), so the
/// concurrent clause of C11 is about the cache protocol only.
///
/// ```
/// use feos_core::cubic::PengRobinson;
/// use feos_core::{PhaseEquilibrium, State};
/// fn assert_send_sync<T: Send + Sync>() {}
/// assert_send_sync::<State<PengRobinson>>();
/// assert_send_sync::<PhaseEquilibrium<PengRobinson, 2>>();
/// ```
pub struct W5StateIsSendSync;

/// W6: the states of a `PhaseEquilibrium` cannot be replaced from outside (private tuple field), so out-of-crate
/// code obtains equilibria only from the library's solvers / `from_states`.
///
/// twin (compiles):
/// ```
/// use feos_core::cubic::PengRobinson;
/// use feos_core::PhaseEquilibrium;
/// fn f(p: &PhaseEquilibrium<PengRobinson, 2>) { let _ = p.vapor(); }
/// ```
/// witness:
/// ```compile_fail,E0616
/// use feos_core::cubic::PengRobinson;
/// use feos_core::PhaseEquilibrium;
/// fn f(p: &PhaseEquilibrium<PengRobinson, 2>) { let _ = &p.0; }
/// ```
pub struct W6PhaseEquilibriumFieldIsPrivate;
