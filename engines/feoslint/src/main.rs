// feoslint — rustc_private driver that dumps the resolved program (MIR + items)
// of the feos workspace crates as JSON facts. No verdicts are taken here; the
// rules in /verif/rules read these facts.
//
// Used as RUSTC_WORKSPACE_WRAPPER: argv = [feoslint, rustc, <rustc args...>].
// Output: $FEOSLINT_OUT/<crate_name>.json, one write per process.
#![feature(rustc_private)]
#![allow(clippy::all)]

extern crate rustc_abi;
extern crate rustc_driver;
extern crate rustc_hir;
extern crate rustc_interface;
extern crate rustc_middle;
extern crate rustc_session;
extern crate rustc_span;

use rustc_hir::def::DefKind;
use rustc_hir::def_id::{DefId, LocalDefId};
use rustc_middle::mir::{
    self, AggregateKind, BinOp, Body, BorrowKind, CastKind, Const, Operand, Place, PlaceElem,
    Rvalue, StatementKind, TerminatorKind, UnOp, VarDebugInfoContents,
};
use rustc_middle::ty::print::PrintTraitRefExt;
use rustc_middle::ty::{self, GenericArgsRef, Instance, Ty, TyCtxt, TypingEnv};
use rustc_span::Span;
use std::collections::{BTreeSet, HashSet};
use std::fmt::Write as _;

const TARGET_CRATES: &[&str] = &["feos", "feos_core", "feos_dft"];

struct Cb;

impl rustc_driver::Callbacks for Cb {
    fn after_analysis<'tcx>(
        &mut self,
        _compiler: &rustc_interface::interface::Compiler,
        tcx: TyCtxt<'tcx>,
    ) -> rustc_driver::Compilation {
        let krate = tcx.crate_name(rustc_hir::def_id::LOCAL_CRATE).to_string();
        if TARGET_CRATES.contains(&krate.as_str()) {
            if let Ok(out) = std::env::var("FEOSLINT_OUT") {
                // lib targets only: test harness / bin / example builds carry --test or bin crate types
                let is_test = tcx.sess.opts.test;
                if !is_test {
                    let json = dump_crate(tcx, &krate);
                    let path = format!("{}/{}.json", out, krate);
                    std::fs::write(&path, json).expect("write facts");
                }
            }
        }
        rustc_driver::Compilation::Continue
    }
}

fn main() {
    let mut args: Vec<String> = std::env::args().collect();
    // wrapper mode: argv[1] is the path of the real rustc
    if args.len() > 1 && (args[1].ends_with("rustc") || args[1].contains("/rustc")) {
        args.remove(1);
    }
    rustc_driver::run_compiler(&args, &mut Cb);
}

// ---------------------------------------------------------------- JSON helpers

fn esc(s: &str) -> String {
    let mut o = String::with_capacity(s.len() + 2);
    o.push('"');
    for c in s.chars() {
        match c {
            '"' => o.push_str("\\\""),
            '\\' => o.push_str("\\\\"),
            '\n' => o.push_str("\\n"),
            '\r' => o.push_str("\\r"),
            '\t' => o.push_str("\\t"),
            c if (c as u32) < 0x20 => {
                let _ = write!(o, "\\u{:04x}", c as u32);
            }
            c => o.push(c),
        }
    }
    o.push('"');
    o
}

fn arr(items: Vec<String>) -> String {
    let mut o = String::from("[");
    o.push_str(&items.join(","));
    o.push(']');
    o
}

fn obj(items: Vec<(&str, String)>) -> String {
    let mut o = String::from("{");
    let mut first = true;
    for (k, v) in items {
        if !first {
            o.push(',');
        }
        first = false;
        o.push_str(&esc(k));
        o.push(':');
        o.push_str(&v);
    }
    o.push('}');
    o
}

fn opt_s(s: Option<String>) -> String {
    match s {
        Some(s) => esc(&s),
        None => "null".into(),
    }
}

fn b(v: bool) -> String {
    if v { "true".into() } else { "false".into() }
}

// ---------------------------------------------------------------- context

struct Cx<'tcx> {
    tcx: TyCtxt<'tcx>,
    types: std::cell::RefCell<(std::collections::HashMap<String, (usize, ())>, Vec<String>)>,
}

impl<'tcx> Cx<'tcx> {
    fn span(&self, sp: Span) -> String {
        let sm = self.tcx.sess.source_map();
        // use the call-site for macro expansions so file:line points at user code
        let sp2 = sp.source_callsite();
        let lo = sm.lookup_char_pos(sp2.lo());
        let file = format!("{}", lo.file.name.prefer_local_unconditionally());
        format!("{}:{}:{}", file, lo.line, lo.col.0 + 1)
    }

    fn path(&self, d: DefId) -> String {
        if d.is_local() {
            format!("{}::{}", self.tcx.crate_name(d.krate), self.tcx.def_path_str(d))
        } else {
            self.tcx.def_path_str(d)
        }
    }

    fn intern_ty(&self, key: String, json: impl FnOnce() -> String) -> String {
        let mut tab = self.types.borrow_mut();
        if let Some((i, _)) = tab.0.get(&key) {
            return i.to_string();
        }
        let i = tab.1.len();
        let j = json();
        tab.0.insert(key, (i, ()));
        tab.1.push(j);
        i.to_string()
    }

    fn cpath(&self, d: DefId) -> String {
        // canonical, re-export independent path: crate name + DefPath
        format!("{}{}", self.tcx.crate_name(d.krate), self.tcx.def_path(d).to_string_no_crate_verbose())
    }

    fn crate_of(&self, d: DefId) -> String {
        self.tcx.crate_name(d.krate).to_string()
    }
}

fn dual_params<'tcx>(tcx: TyCtxt<'tcx>, def_id: DefId) -> (Vec<(String, Vec<String>)>, HashSet<String>) {
    // generic type params (incl. parents) with their trait bounds; and the set bounded by DualNum
    let root = tcx.typeck_root_def_id(def_id);
    let mut bounds: Vec<(String, Vec<String>)> = Vec::new();
    let mut duals = HashSet::new();
    let preds = tcx.predicates_of(root).instantiate_identity(tcx);
    let mut projs: Vec<(String, Ty<'tcx>)> = Vec::new();
    for (clause, _) in preds.into_iter() {
        let clause = clause.skip_norm_wip();
        if let Some(pp) = clause.as_projection_clause() {
            let pp = pp.skip_binder();
            if let ty::Param(p) = pp.self_ty().kind() {
                if let Some(t) = pp.term.as_type() {
                    projs.push((p.name.to_string(), t));
                }
            }
        }
        if let Some(tp) = clause.as_trait_clause() {
            let tp = tp.skip_binder();
            let self_ty = tp.trait_ref.self_ty();
            if let ty::Param(p) = self_ty.kind() {
                let name = p.name.to_string();
                let tr = tcx.def_path_str(tp.trait_ref.def_id);
                let full = format!("{}", tp.trait_ref.print_only_trait_path());
                if tr == "num_dual::DualNum" {
                    duals.insert(name.clone());
                }
                if let Some(e) = bounds.iter_mut().find(|e| e.0 == name) {
                    e.1.push(full);
                } else {
                    bounds.push((name, vec![full]));
                }
            }
        }
    }
    // a parameter whose associated type is bound to a dual type (S: Data<Elem = D>) is dual-carrying too
    let mut changed = true;
    while changed {
        changed = false;
        for (name, t) in &projs {
            if !duals.contains(name) && ty_mentions_dual(tcx, *t, &duals) {
                duals.insert(name.clone());
                changed = true;
            }
        }
    }
    (bounds, duals)
}

fn ty_mentions_dual<'tcx>(tcx: TyCtxt<'tcx>, t: Ty<'tcx>, duals: &HashSet<String>) -> bool {
    // does a *value* of this type carry dual numbers?  Closure types are not descended into: a closure that
    // merely captures a dual value (or an iterator adaptor holding such a closure) is not itself dual data.
    fn go<'tcx>(tcx: TyCtxt<'tcx>, t: Ty<'tcx>, duals: &HashSet<String>, depth: usize) -> bool {
        if depth > 40 {
            return false;
        }
        match t.kind() {
            ty::Param(p) => duals.contains(p.name.as_str()),
            ty::Adt(adt, args) => {
                if tcx.crate_name(adt.did().krate).as_str() == "num_dual" {
                    return true;
                }
                args.iter().any(|ga| ga.as_type().map_or(false, |t2| go(tcx, t2, duals, depth + 1)))
            }
            ty::Ref(_, inner, _) | ty::RawPtr(inner, _) | ty::Slice(inner) | ty::Array(inner, _) => go(tcx, *inner, duals, depth + 1),
            ty::Tuple(l) => l.iter().any(|t2| go(tcx, t2, duals, depth + 1)),
            ty::Closure(..) | ty::CoroutineClosure(..) | ty::Coroutine(..) | ty::FnDef(..) | ty::FnPtr(..) => false,
            ty::Alias(..) => {
                // projections such as <S as RawData>::Elem: dual if any generic argument is
                for ga in t.walk() {
                    if let Some(t2) = ga.as_type() {
                        if let ty::Param(p) = t2.kind() {
                            if duals.contains(p.name.as_str()) {
                                return true;
                            }
                        }
                    }
                }
                false
            }
            _ => false,
        }
    }
    go(tcx, t, duals, 0)
}

fn ty_has_f64<'tcx>(t: Ty<'tcx>) -> bool {
    for ga in t.walk() {
        if let Some(t) = ga.as_type() {
            if let ty::Float(ty::FloatTy::F64) = t.kind() {
                return true;
            }
        }
    }
    false
}

fn ty_kind_code<'tcx>(cx: &Cx<'tcx>, t: Ty<'tcx>) -> String {
    match t.kind() {
        ty::Bool => "bool".into(),
        ty::Char => "char".into(),
        ty::Int(_) | ty::Uint(_) => "int".into(),
        ty::Float(ty::FloatTy::F64) => "f64".into(),
        ty::Float(_) => "float".into(),
        ty::Adt(a, _) => format!("adt:{}", cx.path(a.did())),
        ty::Ref(_, inner, m) => format!("ref{}:{}", if m.is_mut() { "mut" } else { "" }, ty_kind_code(cx, *inner)),
        ty::RawPtr(..) => "ptr".into(),
        ty::Tuple(l) => {
            if l.is_empty() { "unit".into() } else { "tuple".into() }
        }
        ty::Array(..) => "array".into(),
        ty::Slice(..) => "slice".into(),
        ty::Str => "str".into(),
        ty::Closure(d, _) => format!("closure:{}", cx.path(*d)),
        ty::FnDef(d, _) => format!("fndef:{}", cx.path(*d)),
        ty::FnPtr(..) => "fnptr".into(),
        ty::Param(p) => format!("param:{}", p.name),
        ty::Dynamic(..) => "dyn".into(),
        ty::Never => "never".into(),
        ty::Alias(..) => "alias".into(),
        _ => "other".into(),
    }
}

struct BodyCx<'a, 'tcx> {
    cx: &'a Cx<'tcx>,
    body: &'a Body<'tcx>,
    def_id: DefId,
    duals: HashSet<String>,
    typing_env: TypingEnv<'tcx>,
}

impl<'a, 'tcx> BodyCx<'a, 'tcx> {
    fn tcx(&self) -> TyCtxt<'tcx> {
        self.cx.tcx
    }

    fn ty_json(&self, t: Ty<'tcx>) -> String {
        let s = t.to_string();
        let dual = ty_mentions_dual(self.tcx(), t, &self.duals);
        let key = format!("{}|{}", s, dual);
        self.cx.intern_ty(key, || {
            obj(vec![
                ("s", esc(&s)),
                ("k", esc(&ty_kind_code(self.cx, t))),
                ("dual", b(dual)),
                ("f64", b(ty_has_f64(t))),
            ])
        })
    }

    fn place(&self, p: &Place<'tcx>) -> String {
        let tcx = self.tcx();
        let mut projs = Vec::new();
        let mut pty = mir::PlaceTy::from_ty(self.body.local_decls[p.local].ty);
        for elem in p.projection.iter() {
            let s = match elem {
                PlaceElem::Deref => esc("*"),
                PlaceElem::Field(f, fty) => {
                    let mut name: Option<String> = None;
                    let mut owner: Option<String> = None;
                    match pty.ty.kind() {
                        ty::Adt(adt, _) => {
                            let vidx = pty.variant_index.unwrap_or(rustc_abi::FIRST_VARIANT);
                            if adt.is_enum() || adt.is_struct() || adt.is_union() {
                                let v = adt.variant(vidx);
                                if let Some(fd) = v.fields.get(f) {
                                    name = Some(fd.name.to_string());
                                }
                                owner = Some(if adt.is_enum() {
                                    format!("{}::{}", self.cx.path(adt.did()), v.name)
                                } else {
                                    self.cx.path(adt.did())
                                });
                            }
                        }
                        ty::Closure(d, _) => {
                            owner = Some(format!("closure:{}", self.cx.path(*d)));
                            // upvar name
                            if let Some(ld) = d.as_local() {
                                let caps = tcx.closure_captures(ld);
                                if let Some(c) = caps.get(f.as_usize()) {
                                    name = Some(c.to_string(tcx));
                                }
                            }
                        }
                        ty::Tuple(_) => {
                            owner = Some("tuple".into());
                        }
                        _ => {}
                    }
                    obj(vec![
                        ("f", f.as_usize().to_string()),
                        ("n", opt_s(name)),
                        ("o", opt_s(owner)),
                        ("ty", self.ty_json(fty)),
                    ])
                }
                PlaceElem::Index(l) => obj(vec![("idx", l.as_usize().to_string())]),
                PlaceElem::ConstantIndex { offset, from_end, .. } => {
                    obj(vec![("cidx", offset.to_string()), ("from_end", b(from_end))])
                }
                PlaceElem::Subslice { .. } => esc("subslice"),
                PlaceElem::Downcast(name, vidx) => obj(vec![
                    ("dc", opt_s(name.map(|n| n.to_string()))),
                    ("v", vidx.as_usize().to_string()),
                ]),
                PlaceElem::OpaqueCast(_) => esc("opaque"),
                PlaceElem::UnwrapUnsafeBinder(_) => esc("unwrap_binder"),
            };
            projs.push(s);
            pty = pty.projection_ty(tcx, elem);
        }
        obj(vec![("l", p.local.as_usize().to_string()), ("p", arr(projs)), ("t", self.ty_json(pty.ty))])
    }

    fn fn_ref(&self, def_id: DefId, args: GenericArgsRef<'tcx>) -> Vec<(&'static str, String)> {
        let tcx = self.tcx();
        let mut v = vec![
            ("path", esc(&self.cx.path(def_id))),
            ("cpath", esc(&self.cx.cpath(def_id))),
            ("crate", esc(&self.cx.crate_of(def_id))),
            ("name", esc(&tcx.item_name(def_id).to_string())),
        ];
        let gargs: Vec<String> = args.iter().map(|a| esc(&a.to_string())).collect();
        v.push(("gargs", arr(gargs)));
        // trait method?
        if let Some(tr) = tcx.trait_of_assoc(def_id) {
            v.push(("trait", esc(&self.cx.path(tr))));
            if let Some(self_ty) = args.types().next() {
                v.push(("self_ty", self.ty_json(self_ty)));
            }
        } else if let Some(imp) = tcx.impl_of_assoc(def_id) {
            let st = tcx.type_of(imp).instantiate_identity().skip_norm_wip();
            v.push(("impl_self", esc(&st.to_string())));
            if let Some(tr) = tcx.impl_opt_trait_ref(imp) {
                v.push(("impl_trait", esc(&self.cx.path(tr.skip_binder().def_id))));
            }
        }
        // resolution
        if matches!(tcx.def_kind(def_id), DefKind::Fn | DefKind::AssocFn) {
            if let Ok(Some(inst)) = Instance::try_resolve(tcx, self.typing_env, def_id, args) {
                let rd = inst.def_id();
                if rd != def_id {
                    v.push(("resolved", esc(&self.cx.path(rd))));
                    v.push(("resolved_cpath", esc(&self.cx.cpath(rd))));
                    if let Some(imp) = tcx.impl_of_assoc(rd) {
                        let st = tcx.type_of(imp).instantiate_identity().skip_norm_wip();
                        v.push(("resolved_self", esc(&st.to_string())));
                    }
                }
            }
        }
        v
    }

    fn constant(&self, c: &Const<'tcx>) -> String {
        let tcx = self.tcx();
        let t = c.ty();
        let mut v: Vec<(&str, String)> = vec![("k", esc("const")), ("ty", self.ty_json(t))];
        match t.kind() {
            ty::FnDef(d, args) => {
                v.push(("fn", obj(self.fn_ref(*d, args))));
            }
            _ => {
                match c {
                    Const::Unevaluated(uv, _) => {
                        v.push(("uneval", esc(&self.cx.path(uv.def))));
                        if let Some(pi) = uv.promoted {
                            v.push(("promoted", pi.as_usize().to_string()));
                        }
                        let gargs: Vec<String> = uv.args.iter().map(|a| esc(&a.to_string())).collect();
                        v.push(("uneval_args", arr(gargs)));
                        if let Some(tr) = tcx.trait_of_assoc(uv.def) {
                            v.push(("uneval_trait", esc(&self.cx.path(tr))));
                        }
                    }
                    _ => {}
                }
                if t.is_scalar() || t.is_bool() {
                    if let Some(si) = c.try_eval_scalar_int(tcx, self.typing_env) {
                        let size = si.size();
                        let bits = si.to_bits(size);
                        v.push(("bits", esc(&bits.to_string())));
                        if let ty::Float(ty::FloatTy::F64) = t.kind() {
                            let f = f64::from_bits(bits as u64);
                            v.push(("f", esc(&format!("{:e}", f))));
                        }
                        if let ty::Int(_) = t.kind() {
                            // sign-extend
                            let sz = size.bits();
                            let sv = if sz == 128 { bits as i128 } else {
                                let shift = 128 - sz;
                                ((bits << shift) as i128) >> shift
                            };
                            v.push(("i", esc(&sv.to_string())));
                        }
                    }
                }
                v.push(("text", esc(&format!("{}", c))));
            }
        }
        obj(v)
    }

    fn operand(&self, o: &Operand<'tcx>) -> String {
        match o {
            Operand::Copy(p) => obj(vec![("k", esc("copy")), ("place", self.place(p))]),
            Operand::Move(p) => obj(vec![("k", esc("move")), ("place", self.place(p))]),
            Operand::Constant(c) => self.constant(&c.const_),
            #[allow(unreachable_patterns)]
            _ => obj(vec![("k", esc("other"))]),
        }
    }

    fn rvalue(&self, rv: &Rvalue<'tcx>) -> String {
        let tcx = self.tcx();
        match rv {
            Rvalue::Use(o, ..) => obj(vec![("k", esc("use")), ("op", self.operand(o))]),
            Rvalue::Repeat(o, _) => obj(vec![("k", esc("repeat")), ("op", self.operand(o))]),
            Rvalue::Ref(_, bk, p) => obj(vec![
                ("k", esc("ref")),
                ("mut", b(matches!(bk, BorrowKind::Mut { .. }))),
                ("place", self.place(p)),
            ]),
            Rvalue::RawPtr(_, p) => obj(vec![("k", esc("rawptr")), ("place", self.place(p))]),
            Rvalue::Cast(ck, o, t) => obj(vec![
                ("k", esc("cast")),
                ("ck", esc(&format!("{:?}", ck).split('(').next().unwrap_or("").to_string())),
                ("op", self.operand(o)),
                ("ty", self.ty_json(*t)),
                ("transmute", b(matches!(ck, CastKind::Transmute))),
            ]),
            Rvalue::BinaryOp(op, ab) => {
                let (a, bb) = &**ab;
                obj(vec![
                    ("k", esc("binop")),
                    ("op", esc(&format!("{:?}", op))),
                    ("a", self.operand(a)),
                    ("b", self.operand(bb)),
                    ("cmp", b(matches!(op, BinOp::Lt | BinOp::Le | BinOp::Gt | BinOp::Ge | BinOp::Eq | BinOp::Ne | BinOp::Cmp))),
                ])
            }
            Rvalue::UnaryOp(op, o) => obj(vec![
                ("k", esc("unop")),
                ("op", esc(&match op {
                    UnOp::Not => "Not".to_string(),
                    UnOp::Neg => "Neg".to_string(),
                    other => format!("{:?}", other),
                })),
                ("a", self.operand(o)),
            ]),
            Rvalue::Discriminant(p) => obj(vec![("k", esc("discr")), ("place", self.place(p))]),
            Rvalue::Aggregate(kind, ops) => {
                let kj = match &**kind {
                    AggregateKind::Array(_) => obj(vec![("t", esc("array"))]),
                    AggregateKind::Tuple => obj(vec![("t", esc("tuple"))]),
                    AggregateKind::Adt(did, vidx, _args, _, _) => {
                        let adt = tcx.adt_def(*did);
                        let v = adt.variant(*vidx);
                        let fields: Vec<String> = v.fields.iter().map(|f| esc(&f.name.to_string())).collect();
                        obj(vec![
                            ("t", esc("adt")),
                            ("adt", esc(&self.cx.path(*did))),
                            ("variant", esc(&v.name.to_string())),
                            ("vidx", vidx.as_usize().to_string()),
                            ("fields", arr(fields)),
                        ])
                    }
                    AggregateKind::Closure(did, _) => {
                        let mut caps = Vec::new();
                        let mut modes = Vec::new();
                        if let Some(ld) = did.as_local() {
                            for c in tcx.closure_captures(ld) {
                                caps.push(esc(&c.to_string(tcx)));
                                let m = match c.info.capture_kind {
                                    ty::UpvarCapture::ByValue => "value",
                                    ty::UpvarCapture::ByUse => "use",
                                    ty::UpvarCapture::ByRef(ty::BorrowKind::Mutable) => "mut",
                                    ty::UpvarCapture::ByRef(ty::BorrowKind::UniqueImmutable) => "uniq",
                                    ty::UpvarCapture::ByRef(ty::BorrowKind::Immutable) => "ref",
                                };
                                modes.push(esc(m));
                            }
                        }
                        obj(vec![("t", esc("closure")), ("def", esc(&self.cx.path(*did))), ("caps", arr(caps)), ("capmodes", arr(modes))])
                    }
                    _ => obj(vec![("t", esc("other"))]),
                };
                let opsj: Vec<String> = ops.iter().map(|o| self.operand(o)).collect();
                obj(vec![("k", esc("agg")), ("kind", kj), ("ops", arr(opsj))])
            }
            Rvalue::CopyForDeref(p) => obj(vec![
                ("k", esc("use")),
                ("op", obj(vec![("k", esc("copy")), ("place", self.place(p))])),
            ]),
            other => obj(vec![("k", esc("other")), ("text", esc(&format!("{:?}", other)))]),
        }
    }

    fn dump_promoted(&self) -> String {
        let tcx = self.tcx();
        let mut out = Vec::new();
        if let Some(ld) = self.def_id.as_local() {
            let _ = ld;
            let proms = tcx.promoted_mir(self.def_id);
            for pb in proms.iter() {
                let sub = BodyCx { cx: self.cx, body: pb, def_id: self.def_id, duals: self.duals.clone(), typing_env: self.typing_env };
                out.push(sub.dump_inner(true));
            }
        }
        arr(out)
    }

    fn dump(&self) -> String {
        self.dump_inner(false)
    }

    fn dump_inner(&self, is_promoted: bool) -> String {
        let tcx = self.tcx();
        let body = self.body;
        // var names
        let mut names: Vec<Option<String>> = vec![None; body.local_decls.len()];
        let mut upvar_names: Vec<String> = Vec::new();
        for vdi in &body.var_debug_info {
            if let VarDebugInfoContents::Place(p) = &vdi.value {
                if p.projection.is_empty() {
                    if names[p.local.as_usize()].is_none() {
                        names[p.local.as_usize()] = Some(vdi.name.to_string());
                    }
                } else {
                    upvar_names.push(obj(vec![("name", esc(&vdi.name.to_string())), ("place", self.place(p))]));
                }
            }
        }
        let locals: Vec<String> = body
            .local_decls
            .iter_enumerated()
            .map(|(l, d)| {
                let mut v = vec![("ty", self.ty_json(d.ty))];
                if let Some(n) = &names[l.as_usize()] {
                    v.push(("name", esc(n)));
                }
                obj(v)
            })
            .collect();
        let mut blocks = Vec::new();
        for (_bb, data) in body.basic_blocks.iter_enumerated() {
            let mut stmts = Vec::new();
            for st in &data.statements {
                match &st.kind {
                    StatementKind::Assign(bx) => {
                        let (place, rv) = &**bx;
                        stmts.push(obj(vec![
                            ("place", self.place(place)),
                            ("rv", self.rvalue(rv)),
                            ("span", esc(&self.cx.span(st.source_info.span))),
                            ("exp", b(st.source_info.span.from_expansion())),
                        ]));
                    }
                    StatementKind::SetDiscriminant { place, variant_index } => {
                        stmts.push(obj(vec![
                            ("place", self.place(place)),
                            ("rv", obj(vec![("k", esc("setdiscr")), ("v", variant_index.as_usize().to_string())])),
                            ("span", esc(&self.cx.span(st.source_info.span))),
                            ("exp", b(st.source_info.span.from_expansion())),
                        ]));
                    }
                    _ => {}
                }
            }
            let term = data.terminator();
            let sp = term.source_info.span;
            let mut tv: Vec<(&str, String)> = Vec::new();
            match &term.kind {
                TerminatorKind::Goto { target } => {
                    tv.push(("k", esc("goto")));
                    tv.push(("target", target.as_usize().to_string()));
                }
                TerminatorKind::SwitchInt { discr, targets } => {
                    tv.push(("k", esc("switch")));
                    tv.push(("op", self.operand(discr)));
                    let ts: Vec<String> = targets
                        .iter()
                        .map(|(v, t)| arr(vec![esc(&v.to_string()), t.as_usize().to_string()]))
                        .collect();
                    tv.push(("targets", arr(ts)));
                    tv.push(("otherwise", targets.otherwise().as_usize().to_string()));
                }
                TerminatorKind::Return => tv.push(("k", esc("return"))),
                TerminatorKind::Unreachable => tv.push(("k", esc("unreachable"))),
                TerminatorKind::UnwindResume => tv.push(("k", esc("resume"))),
                TerminatorKind::UnwindTerminate(_) => tv.push(("k", esc("terminate"))),
                TerminatorKind::Drop { place, target, .. } => {
                    tv.push(("k", esc("drop")));
                    tv.push(("place", self.place(place)));
                    tv.push(("target", target.as_usize().to_string()));
                }
                TerminatorKind::Call { func, args, destination, target, fn_span, .. } => {
                    tv.push(("k", esc("call")));
                    let fty = func.ty(&body.local_decls, tcx);
                    match fty.kind() {
                        ty::FnDef(d, ga) => tv.push(("fn", obj(self.fn_ref(*d, ga)))),
                        _ => {
                            tv.push(("fn", obj(vec![("indirect", self.operand(func)), ("fty", self.ty_json(fty))])))
                        }
                    }
                    let a: Vec<String> = args.iter().map(|a| self.operand(&a.node)).collect();
                    tv.push(("args", arr(a)));
                    tv.push(("dest", self.place(destination)));
                    tv.push(("target", match target {
                        Some(t) => t.as_usize().to_string(),
                        None => "null".into(),
                    }));
                    tv.push(("fn_span", esc(&self.cx.span(*fn_span))));
                }
                TerminatorKind::Assert { cond, expected, target, .. } => {
                    tv.push(("k", esc("assert")));
                    tv.push(("cond", self.operand(cond)));
                    tv.push(("expected", b(*expected)));
                    tv.push(("target", target.as_usize().to_string()));
                }
                TerminatorKind::FalseEdge { real_target, .. } => {
                    tv.push(("k", esc("goto")));
                    tv.push(("target", real_target.as_usize().to_string()));
                }
                TerminatorKind::FalseUnwind { real_target, .. } => {
                    tv.push(("k", esc("goto")));
                    tv.push(("target", real_target.as_usize().to_string()));
                }
                other => {
                    tv.push(("k", esc("other")));
                    tv.push(("text", esc(&format!("{:?}", other))));
                }
            }
            tv.push(("span", esc(&self.cx.span(sp))));
            tv.push(("exp", b(sp.from_expansion())));
            blocks.push(obj(vec![
                ("stmts", arr(stmts)),
                ("term", obj(tv)),
                ("cleanup", b(data.is_cleanup)),
            ]));
        }
        let def_id = self.def_id;
        let kind = tcx.def_kind(def_id);
        let mut v: Vec<(&str, String)> = vec![
            ("path", esc(&self.cx.path(def_id))),
            ("cpath", esc(&self.cx.cpath(def_id))),
            ("kind", esc(&format!("{:?}", kind))),
            ("span", esc(&self.cx.span(body.span))),
            ("exp", b(body.span.from_expansion())),
            ("arg_count", body.arg_count.to_string()),
        ];
        if matches!(kind, DefKind::Closure) {
            v.push(("parent", esc(&self.cx.path(tcx.typeck_root_def_id(def_id)))));
            v.push(("upvars", arr(upvar_names)));
        } else {
            v.push(("name", esc(&tcx.item_name(def_id).to_string())));
            if matches!(kind, DefKind::Fn | DefKind::AssocFn) {
                v.push(("vis", esc(&format!("{:?}", tcx.visibility(def_id)))));
                v.push(("is_pub", b(tcx.visibility(def_id).is_public())));
            }
            if let Some(imp) = tcx.impl_of_assoc(def_id) {
                let st = tcx.type_of(imp).instantiate_identity().skip_norm_wip();
                v.push(("impl_self", esc(&st.to_string())));
                v.push(("impl_self_k", esc(&ty_kind_code(self.cx, st))));
                if let Some(tr) = tcx.impl_opt_trait_ref(imp) {
                    let tr = tr.skip_binder();
                    v.push(("impl_trait", esc(&self.cx.path(tr.def_id))));
                    v.push(("impl_trait_full", esc(&format!("{}", tr.print_only_trait_path()))));
                }
            }
            if let Some(tr) = tcx.trait_of_assoc(def_id) {
                v.push(("in_trait", esc(&self.cx.path(tr))));
            }
        }
        let (bounds, _) = dual_params(tcx, def_id);
        let gj: Vec<String> = bounds
            .iter()
            .map(|(n, bs)| obj(vec![("name", esc(n)), ("bounds", arr(bs.iter().map(|x| esc(x)).collect()))]))
            .collect();
        v.push(("generics", arr(gj)));
        let mut dl: Vec<&String> = self.duals.iter().collect();
        dl.sort();
        v.push(("dual_params", arr(dl.iter().map(|x| esc(x)).collect())));
        v.push(("locals", arr(locals)));
        v.push(("blocks", arr(blocks)));
        if !is_promoted {
            v.push(("promoted", self.dump_promoted()));
        }
        obj(v)
    }
}

// ---------------------------------------------------------------- interior mutability census

fn cell_walk<'tcx>(
    cx: &Cx<'tcx>,
    t: Ty<'tcx>,
    chain: &mut Vec<String>,
    visited: &mut HashSet<String>,
    hits: &mut BTreeSet<String>,
    opaque: &mut BTreeSet<String>,
    depth: usize,
) {
    let tcx = cx.tcx;
    if depth > 24 {
        return;
    }
    let key = t.to_string();
    if !visited.insert(key.clone()) {
        return;
    }
    match t.kind() {
        ty::Adt(adt, args) => {
            let p = cx.path(adt.did());
            let krate = cx.crate_of(adt.did());
            let is_std = matches!(krate.as_str(), "std" | "core" | "alloc");
            let last = p.rsplit("::").next().unwrap_or("").to_string();
            let known_cell = adt.is_unsafe_cell()
                || (is_std
                    && (matches!(
                        last.as_str(),
                        "Cell" | "RefCell" | "Mutex" | "RwLock" | "OnceCell" | "OnceLock" | "LazyLock" | "LazyCell"
                            | "Condvar" | "Once" | "SyncUnsafeCell" | "ReentrantLock" | "Sender" | "Receiver" | "SyncSender"
                    ) || last.starts_with("Atomic")));
            if known_cell {
                let mut c = chain.clone();
                c.push(key.clone());
                hits.insert(c.join(" -> "));
                return;
            }
            chain.push(key.clone());
            if is_std {
                // std containers: type-erased internals, follow the generic arguments
                for ga in args.iter() {
                    if let Some(t2) = ga.as_type() {
                        cell_walk(cx, t2, chain, visited, hits, opaque, depth + 1);
                    }
                }
            } else {
                for v in adt.variants() {
                    for f in v.fields.iter() {
                        let ft = f.ty(tcx, args);
                        cell_walk(cx, ft, chain, visited, hits, opaque, depth + 1);
                    }
                }
                for ga in args.iter() {
                    if let Some(t2) = ga.as_type() {
                        cell_walk(cx, t2, chain, visited, hits, opaque, depth + 1);
                    }
                }
            }
            chain.pop();
        }
        ty::Ref(_, inner, _) | ty::RawPtr(inner, _) => cell_walk(cx, *inner, chain, visited, hits, opaque, depth + 1),
        ty::Array(inner, _) | ty::Slice(inner) => cell_walk(cx, *inner, chain, visited, hits, opaque, depth + 1),
        ty::Tuple(l) => {
            for t2 in l.iter() {
                cell_walk(cx, t2, chain, visited, hits, opaque, depth + 1);
            }
        }
        ty::Dynamic(..) => {
            let mut c = chain.clone();
            c.push(key);
            opaque.insert(c.join(" -> "));
        }
        ty::Closure(..) | ty::FnPtr(..) => {
            let mut c = chain.clone();
            c.push(key);
            opaque.insert(c.join(" -> "));
        }
        _ => {}
    }
}

// ---------------------------------------------------------------- items

fn const_value_json<'tcx>(cx: &Cx<'tcx>, def_id: DefId) -> Vec<(&'static str, String)> {
    let tcx = cx.tcx;
    let mut v = Vec::new();
    let t = tcx.type_of(def_id).instantiate_identity().skip_norm_wip();
    v.push(("ty", esc(&t.to_string())));
    // only non-generic consts
    if tcx.generics_of(def_id).requires_monomorphization(tcx) {
        v.push(("generic", b(true)));
        return v;
    }
    let Ok(val) = tcx.const_eval_poly(def_id) else {
        v.push(("eval_error", b(true)));
        return v;
    };
    fn elem_f64<'tcx>(t: Ty<'tcx>) -> Option<(usize, Vec<usize>)> {
        // returns (total elements, dims) for nested arrays of f64
        match t.kind() {
            ty::Float(ty::FloatTy::F64) => Some((1, vec![])),
            _ => None,
        }
    }
    let _ = elem_f64;
    match val {
        mir::ConstValue::Scalar(s) => {
            if let Ok(si) = s.try_to_scalar_int() {
                let bits = si.to_bits(si.size());
                v.push(("bits", esc(&bits.to_string())));
                if let ty::Float(ty::FloatTy::F64) = t.kind() {
                    v.push(("f", esc(&format!("{:e}", f64::from_bits(bits as u64)))));
                }
            }
        }
        mir::ConstValue::ZeroSized => {}
        mir::ConstValue::Indirect { alloc_id, offset } => {
            // nested arrays of f64 / plain f64 arrays / usize arrays
            let mut dims = Vec::new();
            let mut et = t;
            loop {
                match et.kind() {
                    ty::Array(inner, len) => {
                        if let Some(n) = len.try_to_target_usize(tcx) {
                            dims.push(n as usize);
                            et = *inner;
                        } else {
                            break;
                        }
                    }
                    _ => break,
                }
            }
            let esize = match et.kind() {
                ty::Float(ty::FloatTy::F64) => Some(8usize),
                ty::Uint(ty::UintTy::Usize) | ty::Int(ty::IntTy::Isize) | ty::Uint(ty::UintTy::U64) | ty::Int(ty::IntTy::I64) => Some(8usize),
                ty::Int(ty::IntTy::I32) | ty::Uint(ty::UintTy::U32) => Some(4usize),
                _ => None,
            };
            if let (Some(esize), false) = (esize, dims.is_empty()) {
                let total: usize = dims.iter().product();
                let alloc = tcx.global_alloc(alloc_id).unwrap_memory();
                let alloc = alloc.inner();
                let start = offset.bytes() as usize;
                let end = start + total * esize;
                if end <= alloc.len() {
                    let bytes = alloc.inspect_with_uninit_and_ptr_outside_interpreter(start..end);
                    let mut elems = Vec::new();
                    for i in 0..total {
                        let chunk = &bytes[i * esize..(i + 1) * esize];
                        let mut buf = [0u8; 8];
                        buf[..esize].copy_from_slice(chunk);
                        let bits = u64::from_le_bytes(buf);
                        elems.push(esc(&bits.to_string()));
                    }
                    v.push(("dims", arr(dims.iter().map(|d| d.to_string()).collect())));
                    v.push(("elem_ty", esc(&et.to_string())));
                    v.push(("elems_bits", arr(elems)));
                }
            }
        }
        _ => {}
    }
    v
}

fn dump_crate<'tcx>(tcx: TyCtxt<'tcx>, krate: &str) -> String {
    let cx = Cx { tcx, types: Default::default() };
    // ---- bodies
    let mut bodies = Vec::new();
    let mut n_bodies = 0usize;
    for ld in tcx.hir_body_owners() {
        let def_id = ld.to_def_id();
        let kind = tcx.def_kind(def_id);
        if !matches!(kind, DefKind::Fn | DefKind::AssocFn | DefKind::Closure) {
            continue;
        }
        // skip const fns' promoted etc. — optimized_mir is fine for ordinary fns
        if tcx.is_constructor(def_id) {
            continue;
        }
        let body: &Body<'tcx> = tcx.optimized_mir(def_id);
        let (_, duals) = dual_params(tcx, def_id);
        let typing_env = TypingEnv::post_analysis(tcx, def_id);
        let bcx = BodyCx { cx: &cx, body, def_id, duals, typing_env };
        bodies.push(bcx.dump());
        n_bodies += 1;
    }

    // ---- items
    let mut adts = Vec::new();
    let mut impls = Vec::new();
    let mut consts = Vec::new();
    let mut statics = Vec::new();
    let mut traits = Vec::new();
    let items = tcx.hir_crate_items(());
    for ld in items.definitions() {
        let def_id: DefId = ld.to_def_id();
        let kind = tcx.def_kind(def_id);
        match kind {
            DefKind::Struct | DefKind::Enum | DefKind::Union => {
                let adt = tcx.adt_def(def_id);
                let mut variants = Vec::new();
                for v in adt.variants() {
                    let fields: Vec<String> = v
                        .fields
                        .iter()
                        .map(|f| {
                            let ft = tcx.type_of(f.did).instantiate_identity().skip_norm_wip();
                            obj(vec![
                                ("name", esc(&f.name.to_string())),
                                ("ty", esc(&ft.to_string())),
                                ("k", esc(&ty_kind_code(&cx, ft))),
                                ("pub", b(f.vis.is_public())),
                                ("vis", esc(&format!("{:?}", f.vis))),
                            ])
                        })
                        .collect();
                    variants.push(obj(vec![("name", esc(&v.name.to_string())), ("fields", arr(fields))]));
                }
                // deep interior-mutability census
                let self_ty = tcx.type_of(def_id).instantiate_identity().skip_norm_wip();
                let mut hits = BTreeSet::new();
                let mut opaque = BTreeSet::new();
                let mut visited = HashSet::new();
                let mut chain = Vec::new();
                cell_walk(&cx, self_ty, &mut chain, &mut visited, &mut hits, &mut opaque, 0);
                adts.push(obj(vec![
                    ("path", esc(&cx.path(def_id))),
                    ("kind", esc(&format!("{:?}", kind))),
                    ("ty", esc(&self_ty.to_string())),
                    ("span", esc(&cx.span(tcx.def_span(def_id)))),
                    ("pub", b(tcx.visibility(def_id).is_public())),
                    ("variants", arr(variants)),
                    ("cells", arr(hits.iter().map(|h| esc(h)).collect())),
                    ("opaque", arr(opaque.iter().map(|h| esc(h)).collect())),
                ]));
            }
            DefKind::Impl { of_trait } => {
                let st = tcx.type_of(def_id).instantiate_identity().skip_norm_wip();
                let mut v = vec![
                    ("self_ty", esc(&st.to_string())),
                    ("self_k", esc(&ty_kind_code(&cx, st))),
                    ("span", esc(&cx.span(tcx.def_span(def_id)))),
                    ("exp", b(tcx.def_span(def_id).from_expansion())),
                ];
                if of_trait {
                    if let Some(tr) = tcx.impl_opt_trait_ref(def_id) {
                        let tr = tr.skip_binder();
                        v.push(("trait", esc(&cx.path(tr.def_id))));
                        v.push(("trait_full", esc(&format!("{}", tr.print_only_trait_path()))));
                    }
                }
                let methods: Vec<String> = tcx
                    .associated_items(def_id)
                    .in_definition_order()
                    .map(|ai| obj(vec![("name", esc(&ai.name().to_string())), ("path", esc(&cx.path(ai.def_id))), ("kind", esc(&format!("{:?}", tcx.def_kind(ai.def_id))))]))
                    .collect();
                v.push(("items", arr(methods)));
                impls.push(obj(v));
            }
            DefKind::Trait => {
                let methods: Vec<String> = tcx
                    .associated_items(def_id)
                    .in_definition_order()
                    .map(|ai| {
                        obj(vec![
                            ("name", esc(&ai.name().to_string())),
                            ("kind", esc(&format!("{:?}", tcx.def_kind(ai.def_id)))),
                            ("has_default", b(ai.defaultness(tcx).has_value())),
                        ])
                    })
                    .collect();
                traits.push(obj(vec![("path", esc(&cx.path(def_id))), ("items", arr(methods))]));
            }
            DefKind::Const { .. } | DefKind::AssocConst { .. } => {
                // skip trait-declared assoc consts without value
                if tcx.trait_of_assoc(def_id).is_some() {
                    continue;
                }
                let mut v = vec![
                    ("path", esc(&cx.path(def_id))),
                    ("name", esc(&tcx.item_name(def_id).to_string())),
                    ("span", esc(&cx.span(tcx.def_span(def_id)))),
                ];
                v.extend(const_value_json(&cx, def_id));
                consts.push(obj(v));
            }
            DefKind::Static { mutability, nested, .. } => {
                if nested {
                    continue;
                }
                let t = tcx.type_of(def_id).instantiate_identity().skip_norm_wip();
                let te = TypingEnv::fully_monomorphized();
                let attrs_tl = tcx.is_thread_local_static(def_id);
                statics.push(obj(vec![
                    ("path", esc(&cx.path(def_id))),
                    ("ty", esc(&t.to_string())),
                    ("mut", b(mutability.is_mut())),
                    ("freeze", b(t.is_freeze(tcx, te))),
                    ("thread_local", b(attrs_tl)),
                    ("span", esc(&cx.span(tcx.def_span(def_id)))),
                ]));
            }
            _ => {}
        }
    }

    // ---- unsafe census (HIR)
    let unsafe_sites = unsafe_census(&cx);

    let feats: Vec<String> = tcx
        .sess
        .config
        .iter()
        .filter(|(k, _)| k.as_str() == "feature")
        .filter_map(|(_, v)| v.map(|s| esc(s.as_str())))
        .collect();

    let types_json = { let t = cx.types.borrow(); arr(t.1.clone()) };
    obj(vec![
        ("crate", esc(krate)),
        ("features", arr(feats)),
        ("n_bodies", n_bodies.to_string()),
        ("types", types_json),
        ("bodies", arr(bodies)),
        ("adts", arr(adts)),
        ("impls", arr(impls)),
        ("traits", arr(traits)),
        ("consts", arr(consts)),
        ("statics", arr(statics)),
        ("unsafe", arr(unsafe_sites)),
    ])
}

fn unsafe_census<'tcx>(cx: &Cx<'tcx>) -> Vec<String> {
    use rustc_hir::intravisit::{self, Visitor};
    struct V<'a, 'tcx> {
        cx: &'a Cx<'tcx>,
        out: Vec<String>,
    }
    impl<'a, 'tcx> Visitor<'tcx> for V<'a, 'tcx> {
        type NestedFilter = rustc_middle::hir::nested_filter::All;
        fn maybe_tcx(&mut self) -> TyCtxt<'tcx> {
            self.cx.tcx
        }
        fn visit_block(&mut self, blk: &'tcx rustc_hir::Block<'tcx>) {
            if let rustc_hir::BlockCheckMode::UnsafeBlock(src) = blk.rules {
                if matches!(src, rustc_hir::UnsafeSource::UserProvided) && !blk.span.from_expansion() {
                    self.out.push(obj(vec![("kind", esc("block")), ("span", esc(&self.cx.span(blk.span)))]));
                }
            }
            intravisit::walk_block(self, blk);
        }
        fn visit_item(&mut self, item: &'tcx rustc_hir::Item<'tcx>) {
            match &item.kind {
                rustc_hir::ItemKind::Impl(imp) => {
                    if let Some(tr) = imp.of_trait {
                        if matches!(tr.safety, rustc_hir::Safety::Unsafe) && !item.span.from_expansion() {
                            self.out.push(obj(vec![("kind", esc("unsafe_impl")), ("span", esc(&self.cx.span(item.span)))]));
                        }
                    }
                }
                rustc_hir::ItemKind::Fn { sig, .. } => {
                    if sig.header.is_unsafe() && !item.span.from_expansion() {
                        self.out.push(obj(vec![("kind", esc("unsafe_fn")), ("span", esc(&self.cx.span(item.span)))]));
                    }
                }
                _ => {}
            }
            intravisit::walk_item(self, item);
        }
    }
    let mut v = V { cx, out: Vec::new() };
    cx.tcx.hir_walk_toplevel_module(&mut v);
    v.out
}

#[allow(dead_code)]
fn _unused(_: LocalDefId) {}
