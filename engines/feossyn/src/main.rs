// feossyn — source-shape dumper (syn 2): struct / enum definitions with their derive and #[serde(..)]
// attributes, which do not survive into the compiler's HIR.  usage: feossyn <repo-root> <dir>...  (JSON on stdout)
use quote::ToTokens;
use std::path::{Path, PathBuf};
use syn::{Attribute, Fields, Item, Meta};

fn esc(s: &str) -> String {
    let mut o = String::from("\"");
    for c in s.chars() {
        match c {
            '"' => o.push_str("\\\""),
            '\\' => o.push_str("\\\\"),
            '\n' => o.push_str("\\n"),
            '\t' => o.push_str("\\t"),
            c if (c as u32) < 0x20 => o.push_str(&format!("\\u{:04x}", c as u32)),
            c => o.push(c),
        }
    }
    o.push('"');
    o
}

fn obj(items: Vec<(&str, String)>) -> String {
    let parts: Vec<String> = items.into_iter().map(|(k, v)| format!("{}:{}", esc(k), v)).collect();
    format!("{{{}}}", parts.join(","))
}

fn arr(items: Vec<String>) -> String {
    format!("[{}]", items.join(","))
}

fn ts(t: &impl ToTokens) -> String {
    let s = t.to_token_stream().to_string();
    s.replace(" :: ", "::").replace(" < ", "<").replace(" >", ">").replace("< ", "<").replace(" ,", ",").replace("& ", "&")
}

struct SerdeAttrs {
    items: Vec<(String, Option<String>)>,
}

fn serde_attrs(attrs: &[Attribute]) -> SerdeAttrs {
    let mut items = Vec::new();
    for a in attrs {
        if !a.path().is_ident("serde") {
            continue;
        }
        let _ = a.parse_nested_meta(|meta| {
            let key = meta.path.to_token_stream().to_string().replace(' ', "");
            if meta.input.peek(syn::Token![=]) {
                let v = meta.value()?;
                let lit: syn::Lit = v.parse()?;
                let s = match lit {
                    syn::Lit::Str(s) => s.value(),
                    other => other.to_token_stream().to_string(),
                };
                items.push((key, Some(s)));
            } else if meta.input.peek(syn::token::Paren) {
                // e.g. rename(serialize = "..", deserialize = "..")
                let content;
                syn::parenthesized!(content in meta.input);
                let inner: proc_macro2::TokenStream = content.parse()?;
                items.push((key, Some(inner.to_string())));
            } else {
                items.push((key, None));
            }
            Ok(())
        });
    }
    SerdeAttrs { items }
}

fn serde_json(a: &SerdeAttrs) -> String {
    arr(a.items
        .iter()
        .map(|(k, v)| obj(vec![("k", esc(k)), ("v", v.as_ref().map(|s| esc(s)).unwrap_or("null".into()))]))
        .collect())
}

fn derives(attrs: &[Attribute]) -> Vec<String> {
    let mut out = Vec::new();
    for a in attrs {
        if a.path().is_ident("derive") {
            let _ = a.parse_nested_meta(|meta| {
                out.push(meta.path.to_token_stream().to_string().replace(' ', ""));
                Ok(())
            });
        }
    }
    out
}

fn cfgs(attrs: &[Attribute]) -> Vec<String> {
    let mut out = Vec::new();
    for a in attrs {
        if a.path().is_ident("cfg") {
            if let Meta::List(l) = &a.meta {
                out.push(l.tokens.to_string());
            }
        }
    }
    out
}

fn fields_json(fields: &Fields) -> (String, String) {
    let kind = match fields {
        Fields::Named(_) => "named",
        Fields::Unnamed(_) => "tuple",
        Fields::Unit => "unit",
    };
    let mut out = Vec::new();
    for (i, f) in fields.iter().enumerate() {
        let name = f.ident.as_ref().map(|i| i.to_string()).unwrap_or(i.to_string());
        out.push(obj(vec![
            ("name", esc(&name)),
            ("ty", esc(&ts(&f.ty))),
            ("serde", serde_json(&serde_attrs(&f.attrs))),
            ("line", f.ident.as_ref().map(|i| i.span().start().line).unwrap_or(0).to_string()),
        ]));
    }
    (esc(kind), arr(out))
}

fn walk_items(items: &[Item], file: &str, modpath: &mut Vec<String>, cfgstack: &mut Vec<String>, out: &mut Vec<String>) {
    for it in items {
        match it {
            Item::Mod(m) => {
                let c = cfgs(&m.attrs);
                if c.iter().any(|x| x.replace(' ', "") == "test") {
                    continue;
                }
                if let Some((_, inner)) = &m.content {
                    modpath.push(m.ident.to_string());
                    let n = c.len();
                    cfgstack.extend(c);
                    walk_items(inner, file, modpath, cfgstack, out);
                    for _ in 0..n {
                        cfgstack.pop();
                    }
                    modpath.pop();
                }
            }
            Item::Struct(s) => {
                let (kind, fields) = fields_json(&s.fields);
                let mut c = cfgstack.clone();
                c.extend(cfgs(&s.attrs));
                out.push(obj(vec![
                    ("item", esc("struct")),
                    ("name", esc(&s.ident.to_string())),
                    ("file", esc(file)),
                    ("line", s.ident.span().start().line.to_string()),
                    ("mod", arr(modpath.iter().map(|m| esc(m)).collect())),
                    ("generics", esc(&ts(&s.generics))),
                    ("derives", arr(derives(&s.attrs).iter().map(|d| esc(d)).collect())),
                    ("serde", serde_json(&serde_attrs(&s.attrs))),
                    ("cfg", arr(c.iter().map(|x| esc(x)).collect())),
                    ("fields_kind", kind),
                    ("fields", fields),
                ]));
            }
            Item::Enum(e) => {
                let mut c = cfgstack.clone();
                c.extend(cfgs(&e.attrs));
                let vars: Vec<String> = e
                    .variants
                    .iter()
                    .map(|v| {
                        let (kind, fields) = fields_json(&v.fields);
                        obj(vec![
                            ("name", esc(&v.ident.to_string())),
                            ("serde", serde_json(&serde_attrs(&v.attrs))),
                            ("fields_kind", kind),
                            ("fields", fields),
                            ("cfg", arr(cfgs(&v.attrs).iter().map(|x| esc(x)).collect())),
                        ])
                    })
                    .collect();
                out.push(obj(vec![
                    ("item", esc("enum")),
                    ("name", esc(&e.ident.to_string())),
                    ("file", esc(file)),
                    ("line", e.ident.span().start().line.to_string()),
                    ("mod", arr(modpath.iter().map(|m| esc(m)).collect())),
                    ("generics", esc(&ts(&e.generics))),
                    ("derives", arr(derives(&e.attrs).iter().map(|d| esc(d)).collect())),
                    ("serde", serde_json(&serde_attrs(&e.attrs))),
                    ("cfg", arr(c.iter().map(|x| esc(x)).collect())),
                    ("variants", arr(vars)),
                ]));
            }
            Item::Type(t) => {
                out.push(obj(vec![
                    ("item", esc("type")),
                    ("name", esc(&t.ident.to_string())),
                    ("file", esc(file)),
                    ("line", t.ident.span().start().line.to_string()),
                    ("mod", arr(modpath.iter().map(|m| esc(m)).collect())),
                    ("generics", esc(&ts(&t.generics))),
                    ("ty", esc(&ts(&t.ty))),
                ]));
            }
            _ => {}
        }
    }
}

fn collect_rs(dir: &Path, out: &mut Vec<PathBuf>) {
    let Ok(rd) = std::fs::read_dir(dir) else { return };
    let mut ents: Vec<_> = rd.flatten().map(|e| e.path()).collect();
    ents.sort();
    for p in ents {
        if p.is_dir() {
            let name = p.file_name().and_then(|n| n.to_str()).unwrap_or("");
            if name == "python" || name == "target" {
                continue;
            }
            collect_rs(&p, out);
        } else if p.extension().and_then(|e| e.to_str()) == Some("rs") {
            out.push(p);
        }
    }
}

fn main() {
    let args: Vec<String> = std::env::args().collect();
    let root = PathBuf::from(&args[1]);
    let mut files = Vec::new();
    for d in &args[2..] {
        collect_rs(&root.join(d), &mut files);
    }
    let mut out = Vec::new();
    let mut errors = Vec::new();
    for f in &files {
        let rel = f.strip_prefix(&root).unwrap_or(f).to_string_lossy().to_string();
        let Ok(src) = std::fs::read_to_string(f) else { continue };
        match syn::parse_file(&src) {
            Ok(ast) => {
                let mut modpath = Vec::new();
                let mut cfgstack = Vec::new();
                walk_items(&ast.items, &rel, &mut modpath, &mut cfgstack, &mut out);
            }
            Err(e) => errors.push(obj(vec![("file", esc(&rel)), ("error", esc(&e.to_string()))])),
        }
    }
    println!("{}", obj(vec![("files", files.len().to_string()), ("items", arr(out)), ("errors", arr(errors))]));
}
