#!/bin/sh
# Build the analysis driver offline (zero cargo dependencies; nightly toolchain with rustc-dev is pre-installed).
set -e
cd "$(dirname "$0")/engines/feoslint"
CARGO_NET_OFFLINE=true cargo build --release --offline
if [ -d ../feossyn ]; then
  cd ../feossyn && CARGO_NET_OFFLINE=true cargo build --release --offline
fi
