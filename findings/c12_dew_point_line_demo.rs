//! Demonstration for the C12 finding "dew_point_line panics after a failed point of its pressure loop".
//! Copy to tests/c12_dew_point_line_demo.rs of the repository and run
//!     cargo test --offline --features pcsaft --test c12_dew_point_line_demo
//! Before the fix: the pressure loop of `PhaseDiagram::dew_point_line` takes the initial temperature of a point from the
//! previous point's equilibrium; after a point that did not converge there is none, and a dew point at given pressure
//! `expect`s an initial temperature: the call panics instead of returning the points that have a solution.
#![cfg(feature = "pcsaft")]
use feos::pcsaft::{PcSaft, PcSaftParameters};
use feos_core::parameter::{IdentifierOption, Parameter};
use feos_core::PhaseDiagram;
use ndarray::arr1;
use quantity::*;
use std::sync::Arc;

#[test]
fn dew_point_line_survives_a_failed_point() {
    let eos = Arc::new(PcSaft::new(Arc::new(
        PcSaftParameters::from_json(
            vec!["propane", "butane"],
            "tests/pcsaft/test_parameters.json",
            None,
            IdentifierOption::Name,
        )
        .unwrap(),
    )));
    let moles = arr1(&[0.5, 0.5]) * MOL;
    for (npoints, tmin) in [(6, 180.0), (14, 180.0), (14, 250.0)] {
        let result = std::panic::catch_unwind(std::panic::AssertUnwindSafe(|| {
            PhaseDiagram::dew_point_line(&eos, &moles, tmin * KELVIN, npoints, None, Default::default())
        }));
        let dia = result
            .unwrap_or_else(|_| panic!("dew_point_line panicked for npoints = {npoints}, T_min = {tmin} K"))
            .unwrap();
        assert!(!dia.states.is_empty());
    }
}
