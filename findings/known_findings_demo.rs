// Triage demonstration (runtime, NOT part of the checker): shows the failing inputs behind the known findings.
use feos::epcsaft::{ElectrolytePcSaft, ElectrolytePcSaftParameters};
use feos::pcsaft::{PcSaft, PcSaftParameters};
use feos_core::parameter::{IdentifierOption, Parameter};
use feos_core::{Contributions, ReferenceSystem, Residual, State};
use ndarray::arr1;
use quantity::*;
use std::sync::Arc;
use typenum::P3;

fn main() {
    // ---- C13: second virial coefficient of a cross-associating mixture vs. low-density limit of (Z-1)/rho
    let p = PcSaftParameters::from_json(
        vec!["methanol", "water"],
        "parameters/pcsaft/gross2002.json",
        None,
        IdentifierOption::Name,
    )
    .unwrap();
    let eos = Arc::new(PcSaft::new(Arc::new(p)));
    let t = 400.0 * KELVIN;
    let x = arr1(&[0.5, 0.5]);
    let moles = Moles::from_reduced(x.clone());
    let b = eos.second_virial_coefficient(t, Some(&moles)).unwrap();
    for rho in [1e-1, 1e-2, 1e-3] {
        let rho_ = rho * MOL / METER.powi::<P3>();
        let s = State::new_nvt(&eos, t, moles.sum() / rho_, &moles).unwrap();
        let z = (s.pressure(Contributions::Total) / (s.density * RGAS * t)).into_value();
        println!("C13 methanol/water 400 K: rho = {:e} mol/m3  (Z-1)/rho = {:.6e} m3/mol", rho, (z - 1.0) / rho);
    }
    println!("C13 second_virial_coefficient()   = {:.6e} m3/mol", b.convert_into(METER.powi::<P3>() / MOL));
    // pure methanol (closed-form 2B association, no cross-association solver) for comparison
    let p1 = PcSaftParameters::from_json(vec!["methanol"], "parameters/pcsaft/gross2002.json", None, IdentifierOption::Name).unwrap();
    let e1 = Arc::new(PcSaft::new(Arc::new(p1)));
    let b1 = e1.second_virial_coefficient(t, None).unwrap();
    let s1 = State::new_pure(&e1, t, 1e-3 * MOL / METER.powi::<P3>()).unwrap();
    let z1 = (s1.pressure(Contributions::Total) / (s1.density * RGAS * t)).into_value();
    println!("C13 pure methanol: B = {:.6e}, (Z-1)/rho = {:.6e}", b1.convert_into(METER.powi::<P3>() / MOL), (z1 - 1.0) / 1e-3);

    // ---- C01: ePC-SAFT water, dp/dT and entropy vs. finite differences (sigma(T) of water is evaluated with T.re())
    let pe = ElectrolytePcSaftParameters::from_json(
        vec!["water"],
        "parameters/epcsaft/held2014_w_permittivity_added.json",
        None,
        IdentifierOption::Name,
    )
    .unwrap();
    let ee = Arc::new(ElectrolytePcSaft::new(Arc::new(pe)));
    let t0 = 350.0;
    let rho = 50000.0 * MOL / METER.powi::<P3>();
    let h = 1e-3;
    let s0 = State::new_pure(&ee, t0 * KELVIN, rho).unwrap();
    let sp = State::new_pure(&ee, (t0 + h) * KELVIN, rho).unwrap();
    let sm = State::new_pure(&ee, (t0 - h) * KELVIN, rho).unwrap();
    let dpdt = s0.dp_dt(Contributions::Residual).convert_into(PASCAL / KELVIN);
    let dpdt_fd = ((sp.pressure(Contributions::Residual) - sm.pressure(Contributions::Residual)) / (2.0 * h * KELVIN)).convert_into(PASCAL / KELVIN);
    println!("C01 ePC-SAFT water 350 K, 50 kmol/m3: dp/dT analytic = {:.6e} Pa/K, finite difference = {:.6e} Pa/K, rel. dev. = {:.3e}", dpdt, dpdt_fd, (dpdt - dpdt_fd).abs() / dpdt_fd.abs());
    let s_an = s0.residual_entropy().convert_into(JOULE / KELVIN);
    let s_fd = (-(sp.residual_helmholtz_energy() - sm.residual_helmholtz_energy()) / (2.0 * h * KELVIN)).convert_into(JOULE / KELVIN);
    println!("C01 ePC-SAFT water: S_res analytic = {:.6e} J/K, -dA_res/dT finite difference = {:.6e} J/K, rel. dev. = {:.3e}", s_an, s_fd, (s_an - s_fd).abs() / s_fd.abs());
}
