//! Demonstration for the C16 finding "polar prefactor": for a cylindrical pore the reported volume
//! (`DFTProfile::volume`, built from `Axis::volume`) is 4x the integral of 1 over the grid with the grid's own
//! integration weights; the spherical pore agrees to round-off.  (A Cartesian pore axis is longer than the pore by the
//! documented `potential_offset`, which `volume` deliberately leaves out, so it is not compared here.)
//! Run from the repository root as tests/c16_polar_volume.rs:  cargo test --offline --features pcsaft,dft --test c16_polar_volume
#![cfg(feature = "dft")]
use feos::pcsaft::{PcSaftFunctional, PcSaftParameters};
use feos_core::parameter::{IdentifierOption, Parameter};
use feos_core::StateBuilder;
use feos_dft::adsorption::{ExternalPotential, Pore1D, PoreSpecification};
use feos_dft::Geometry;
use ndarray::Array1;
use quantity::*;
use std::error::Error;
use std::sync::Arc;

fn volume_ratio(geometry: Geometry) -> Result<f64, Box<dyn Error>> {
    let params = Arc::new(PcSaftParameters::from_json(
        vec!["propane"],
        "tests/pcsaft/test_parameters.json",
        None,
        IdentifierOption::Name,
    )?);
    let func = Arc::new(PcSaftFunctional::new(params));
    let bulk = StateBuilder::new(&func)
        .temperature(300.0 * KELVIN)
        .pressure(1.0 * BAR)
        .build()?;
    let pore = Pore1D::new(
        geometry,
        20.0 * ANGSTROM,
        ExternalPotential::LJ93 {
            epsilon_k_ss: 10.0,
            sigma_ss: 3.0,
            rho_s: 0.08,
        },
        Some(128),
        None,
    )
    .initialize(&bulk, None, None)?;
    let profile = &pore.profile;
    let n = profile.density.shape()[1];
    let one = Dimensionless::new(Array1::<f64>::ones(n));
    let integral = profile.integrate(&one);
    Ok((profile.volume() / integral).into_value())
}

#[test]
fn volume_equals_integral_of_one() -> Result<(), Box<dyn Error>> {
    for (name, g) in [
        ("spherical", Geometry::Spherical),
        ("cylindrical", Geometry::Cylindrical),
    ] {
        let r = volume_ratio(g)?;
        println!("{name}: volume / integral(1) = {r}");
        assert!((r - 1.0).abs() < 1e-10, "{name}: volume / integral(1) = {r}");
    }
    Ok(())
}
