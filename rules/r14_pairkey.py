"""R14 PAIRKEY — binary records are found in either orientation.

For every map keyed by a pair of identifiers `(String, String)` built from BinaryRecord.{id1,id2}:
either both orientations are inserted (gc-PC-SAFT builders), or every `get(&(a, b))` is followed by the fallback
`.or_else(|| map.get(&(b, a)))` with the two operands swapped (core builders)."""
import json

from cfg import Defs, strip_place
from facts import callee
from report import RuleResult


def is_pair_key_ty(s):
    s = s.replace(" ", "")
    return s.endswith("(std::string::String,std::string::String)")


def root_of(F, body, defs, op, depth=0):
    """canonical holder of a String operand: follows copies / refs / clone(); for closure upvars returns ('up', idx)"""
    if op.get("k") not in ("copy", "move") or depth > 12:
        return ("const",)
    pl = op["place"]
    l, projs = strip_place(pl)
    if body.is_closure() and l == 1 and projs and projs[0][0] == "f":
        return ("up", projs[0][1])
    fields = [p for p in projs if p[0] == "f"]
    if fields:
        # a component of a tuple built just before (`let key = (a, b); let (x, y) = key;`): the component's own root
        ds_ = defs.of(l)
        if len(fields) == 1 and len(ds_) == 1 and ds_[0][0] == "stmt" and ds_[0][4]["k"] == "agg" and ds_[0][4]["kind"].get("t") == "tuple" \
                and fields[0][1] < len(ds_[0][4]["ops"]):
            return root_of(F, body, defs, ds_[0][4]["ops"][fields[0][1]], depth + 1)
        return ("field", l, tuple(f[2] for f in fields))
    ds = [d for d in defs.of(l)]
    if len(ds) != 1:
        return ("local", l)
    d = ds[0]
    if d[0] == "stmt":
        rv = d[4]
        if rv["k"] in ("use", "cast") and rv["op"].get("k") in ("copy", "move"):
            return root_of(F, body, defs, rv["op"], depth + 1)
        if rv["k"] == "ref":
            return root_of(F, body, defs, {"k": "copy", "place": rv["place"]}, depth + 1)
        return ("local", l)
    t = d[2]
    if callee(t)[2] in ("clone", "to_owned", "to_string", "deref", "borrow", "as_ref") and t["args"]:
        return root_of(F, body, defs, t["args"][0], depth + 1)
    if callee(t)[2] in ("index", "get", "get_unchecked") and len(t["args"]) == 2:
        # an element of a list of identifiers resolved up front: identified by the list and the index variable
        return ("elem", root_of(F, body, defs, t["args"][0], depth + 1), root_of(F, body, defs, t["args"][1], depth + 1))
    return ("local", l)


def key_tuple(F, body, defs, op):
    """(root0, root1) of a `&(a, b)` / `(a, b)` key operand"""
    if op.get("k") not in ("copy", "move"):
        return None
    l = op["place"]["l"]
    for _ in range(8):
        ds = defs.of(l)
        if len(ds) != 1 or ds[0][0] != "stmt":
            return None
        rv = ds[0][4]
        if rv["k"] == "agg" and rv["kind"].get("t") == "tuple" and len(rv["ops"]) == 2:
            return (root_of(F, body, defs, rv["ops"][0]), root_of(F, body, defs, rv["ops"][1]))
        if rv["k"] == "ref":
            l = rv["place"]["l"]
        elif rv["k"] == "use" and rv["op"].get("k") in ("copy", "move"):
            l = rv["op"]["place"]["l"]
        else:
            return None
    return None


def resolve_up(F, body, root):
    """translate ('up', i) of a closure into the parent's root at the closure creation site"""
    if root[0] != "up":
        return (body.path, root)
    parent = None
    for b in F.bodies:
        for bi, si, st in b.stmts():
            rv = st["rv"]
            if rv["k"] == "agg" and rv["kind"].get("t") == "closure" and rv["kind"]["def"] == body.path:
                parent = (b, rv)
    if parent is None:
        return (body.path, root)
    pb, rv = parent
    if root[1] >= len(rv["ops"]):
        return (body.path, root)
    pr = root_of(F, pb, Defs(pb), rv["ops"][root[1]])
    return resolve_up(F, pb, pr)


def run(F):
    r = RuleResult("R14", "PAIRKEY: pair-keyed binary-record maps are orientation independent")
    sites = {}      # typeck-root path -> list of (kind, body, term, key)
    for b in F.bodies:
        defs = None
        for bi, t in b.calls():
            p, tr, name = callee(t)
            if name not in ("get", "insert", "contains_key", "get_mut", "remove") or not ("HashMap" in p or "IndexMap" in p or "BTreeMap" in p):
                continue
            if len(t["args"]) < 2:
                continue
            kty = b.opty(t["args"][1])
            if not kty or not is_pair_key_ty(kty["s"]):
                continue
            defs = defs or Defs(b)
            key = key_tuple(F, b, defs, t["args"][1])
            root = b.d.get("parent") if b.is_closure() else b.path
            sites.setdefault(root, []).append((name, b, t, key))
    n_maps = 0
    for root, ss in sorted(sites.items()):
        ins = [s for s in ss if s[0] == "insert"]
        gets = [s for s in ss if s[0] in ("get", "get_mut", "contains_key", "remove")]
        n_maps += 1
        # (A) both orientations inserted
        both = False
        ins_keys = []
        for name, b, t, key in ins:
            if key:
                ins_keys.append((resolve_up(F, b, key[0]), resolve_up(F, b, key[1])))
        for k in ins_keys:
            if (k[1], k[0]) in ins_keys and k[0] != k[1]:
                both = True
        iid = "pairmap|%s" % root
        where = ss[0][2]["span"]
        if ins and both:
            r.inst(iid, where, "ok", idiom="both orientations inserted", inserts=len(ins), lookups=len(gets))
            continue
        # (B) every lookup has the swapped fallback
        gkeys = []
        for name, b, t, key in gets:
            if key is None:
                gkeys.append((None, b, t))
            else:
                gkeys.append(((resolve_up(F, b, key[0]), resolve_up(F, b, key[1])), b, t))
        bad = []
        for k, b, t in gkeys:
            if k is None:
                bad.append((t, "key is not a recognisable (a, b) tuple"))
                continue
            if k[0] == k[1]:
                continue
            if not any(k2 is not None and k2 == (k[1], k[0]) for k2, _, _ in gkeys):
                bad.append((t, "no lookup with the swapped key (b, a) accompanies it"))
        if not gets:
            r.inst(iid, where, "ok", idiom="insert only", nontrivial=False)
        elif bad:
            r.inst(iid, bad[0][0]["span"], "violation")
            r.fail("pairmap|%s|one-orientation" % root, bad[0][0]["span"],
                   "%s: a pair-keyed lookup `map.get(&(a, b))` has %s and the map does not contain both orientations: "
                   "a binary record stored as (b, a) is silently replaced by the default" % (root, bad[0][1]))
        else:
            r.inst(iid, where, "ok", idiom="lookup with swapped fallback", lookups=len(gets))
    # anchors: each of the four builders looks its binary records up in a pair-keyed map — in its own body or in a helper it
    # calls (two builders sharing one `segment_k_ij` helper is one map less, not a lost anchor)
    ANCHORS = ("parameter::Parameter::binary_matrix_from_records", "parameter::Parameter::from_segments",
               "GcPcSaftEosParameters as feos_core::parameter::ParameterHetero>::from_segments",
               "GcPcSaftFunctionalParameters as feos_core::parameter::ParameterHetero>::from_segments")
    callees = {}
    for b in F.bodies:
        src = b.d.get("parent") if b.is_closure() else b.path
        for bi, t in b.calls():
            cb = F.callee_body(t)
            if cb is not None and not cb.is_closure():
                callees.setdefault(src, set()).add(cb.path)
    if F.config == "full" or sites:
        for a in ANCHORS:
            roots_ = [x.path for x in F.bodies if not x.is_closure() and x.path.endswith(a)]
            if not roots_:
                continue          # model not compiled in this configuration
            ok = any(rt in sites or any(c in sites for c in callees.get(rt, ())) for rt in roots_)
            iid = "pairmap|anchor|%s" % a.split("::")[-2 if a.endswith("from_segments") and "as " in a else -1]
            if ok:
                r.inst("pairmap|anchor|%s" % a, "-", "ok", nontrivial=False)
            else:
                r.inst("pairmap|anchor|%s" % a, "-", "violation")
                r.fail("pairmap|anchor|%s" % a, "-",
                       "%s no longer looks its binary records up in a map keyed by a pair of identifier strings (neither itself nor through a "
                       "function it calls): the orientation-independent lookup cannot be confirmed" % a)
    r.floor("pair-keyed maps", n_maps, 2)
    # the key of a binary-record map is the identifier *the user selected* (`as_string(identifier_option)`): a map keyed by the
    # Identifier records themselves compares by whatever `impl Hash / Eq for Identifier` uses (the CAS number only), whichever
    # kind of identifier was asked for
    for b in F.bodies:
        if not b.path.startswith(("feos_core::parameter", "feos::")) or "::tests::" in b.path:
            continue
        for bi, t in b.calls():
            p_, tr, name = callee(t)
            if name not in ("get", "insert", "contains_key") or not ("HashMap" in p_ or "IndexMap" in p_ or "BTreeMap" in p_) or len(t["args"]) < 2:
                continue
            kty = (b.opty(t["args"][1]) or {}).get("s", "").replace(" ", "")
            if "identifier::Identifier" in kty and kty.count("identifier::Identifier") >= 2:
                root = b.d.get("parent") if b.is_closure() else b.path
                r.inst("pairmap|%s|identifier-key" % root, t["span"], "violation")
                r.fail("pairmap|%s|identifier-key" % root, t["span"],
                       "%s: a binary-record map is keyed by pairs of `Identifier` records instead of the identifier strings selected by "
                       "`identifier_option`: two substances compare equal whenever `Identifier`'s own equality (CAS number only, None == None) "
                       "says so, whatever identifier the user asked to match by" % root)
    canonical_keys(F, r)
    r.exhaustive = True
    return [r]


def canonical_keys(F, r):
    """R14b — accumulator maps keyed by an *unordered* pair `[a, b]` (bond counts): the key handed to `entry` / `insert` /
    `get` must be canonicalised, i.e. defined on two branches as `[a, b]` and `[b, a]`, selected by an order comparison of
    exactly those two operands. Otherwise the bond A-B and the bond B-A of a chemical record are counted separately
    (or one of them is lost) depending on the order in which the user listed the segments."""
    n = 0
    for b in F.bodies:
        defs = None
        for bi, t in b.calls():
            p, tr, name = callee(t)
            if name not in ("entry", "insert", "get", "get_mut", "contains_key") or not ("HashMap" in p or "IndexMap" in p or "BTreeMap" in p):
                continue
            if len(t["args"]) < 2:
                continue
            kty = b.opty(t["args"][1])
            if not kty:
                continue
            ks = kty["s"].replace(" ", "").lstrip("&")
            if not (ks.startswith("[") and ks.endswith(";2]")):
                continue
            defs = defs or Defs(b)
            n += 1
            iid = "unordered-key|%s|%s" % (b.path, name)
            why = _canonical(F, b, defs, t["args"][1])
            if why is None:
                r.inst(iid, t["span"], "ok", idiom="[a, b] / [b, a] selected by comparison of a and b", key_type=kty["s"])
            else:
                r.inst(iid, t["span"], "violation")
                r.fail("unordered-key|%s|%s|not-canonical" % (b.path, name), t["span"],
                       "%s: the map key of type %s is an unordered pair (bond between two segments) but %s — bonds listed as "
                       "A-B and as B-A are no longer accumulated in one entry" % (b.path, kty["s"], why))
    r.floor("unordered-pair keyed accumulators", n, 2)


def _named_root(F, body, defs, op, depth=0):
    """the user variable an operand is a copy / reference / clone of (falls back to root_of with the full projection)"""
    if op.get("k") not in ("copy", "move") or depth > 12:
        return ("const", json.dumps(op, sort_keys=True))
    pl = op["place"]
    l, projs = strip_place(pl)
    if not projs and body.lname(l):
        return ("var", l)
    if projs:
        return ("proj", l, json.dumps(projs, sort_keys=True, default=str))
    ds = defs.of(l)
    if len(ds) != 1:
        return ("local", l)
    d = ds[0]
    if d[0] == "stmt":
        rv = d[4]
        if rv["k"] in ("use", "cast") and rv["op"].get("k") in ("copy", "move"):
            return _named_root(F, body, defs, rv["op"], depth + 1)
        if rv["k"] == "ref":
            return _named_root(F, body, defs, {"k": "copy", "place": rv["place"]}, depth + 1)
        return ("local", l)
    t = d[2]
    if callee(t)[2] in ("clone", "to_owned", "deref", "borrow", "as_ref") and t["args"]:
        return _named_root(F, body, defs, t["args"][0], depth + 1)
    return ("local", l)


def _canonical(F, body, defs, op):
    if op.get("k") not in ("copy", "move"):
        return "the key is a constant"
    l = op["place"]["l"]
    aggs = []
    for _ in range(6):
        ds = defs.of(l)
        if len(ds) == 1 and ds[0][0] == "stmt":
            rv = ds[0][4]
            if rv["k"] == "ref":
                l = rv["place"]["l"]
                continue
            if rv["k"] == "use" and rv["op"].get("k") in ("copy", "move"):
                l = rv["op"]["place"]["l"]
                continue
        break
    ds = defs.of(l)
    for d in ds:
        if d[0] != "stmt" or d[4]["k"] != "agg" or d[4]["kind"].get("t") != "array" or len(d[4]["ops"]) != 2:
            return "its definition is not a two-element array literal on every path"
        aggs.append((d[1], tuple(_named_root(F, body, defs, o) for o in d[4]["ops"])))
    if len(aggs) != 2:
        return "it is built in %d place(s) instead of the two orientations [a, b] / [b, a]" % len(aggs)
    (b1, k1), (b2, k2) = aggs
    if k1 != (k2[1], k2[0]) or k1[0] == k1[1]:
        return "its two definitions are not the two orientations of one pair"
    # the two literals must sit on the two arms of one switch whose condition compares exactly these two operands
    doms = _switch_over(body, b1, b2)
    if doms is None:
        return "its two definitions are not the two arms of one branch"
    sw_block, cond_local = doms
    cds = defs.of(cond_local)
    if len(cds) != 1:
        return "the branch condition has several definitions"
    d = cds[0]
    ops = None
    if d[0] == "stmt" and d[4]["k"] == "binop" and d[4]["op"] in ("Gt", "Lt", "Ge", "Le"):
        ops = [d[4]["a"], d[4]["b"]]
    elif d[0] == "call" and callee(d[2])[2] in ("gt", "lt", "ge", "le") and len(d[2]["args"]) == 2:
        ops = d[2]["args"]
    if not ops or None in ops:
        return "the branch selecting the orientation is not an order comparison"
    cr = tuple(_named_root(F, body, defs, o) for o in ops)
    if set(cr) != set(k1):
        return "the comparison selecting the orientation is not between the two key operands"
    return None


def _switch_over(body, b1, b2):
    """the switch block whose two targets lead (through gotos only) to b1 and b2"""
    preds = body.preds()

    def up(bi):
        seen = 0
        while seen < 6:
            ps = preds[bi]
            if len(ps) != 1:
                return None
            pb = ps[0]
            if body.blocks[pb]["term"]["k"] == "switch":
                return pb
            if body.blocks[pb]["term"]["k"] != "goto":
                return None
            bi = pb
            seen += 1
        return None
    s1, s2 = up(b1), up(b2)
    if s1 is None or s1 != s2:
        return None
    t = body.blocks[s1]["term"]
    d = t.get("op")
    if not d or d.get("k") not in ("copy", "move"):
        return None
    return s1, d["place"]["l"]
