"""R25 DUP-DEF — two differently named variables of one function are never defined by the same expression.

Solver and model code comes in mirrored pairs: `p_t_l = vle.liquid().dp_dt(..)` / `p_t_v = vle.vapor().dp_dt(..)`,
`rho_l`/`rho_v`, `s_l_res`/`s_v_res`, `x0`/`x0_eff` ... The copy-paste slip in such a pair (the second line still reads the
first phase) leaves two *different* user variables that are defined by an *identical pure expression over identical
inputs*.  The rule canonicalises the defining expression of every named local with a single whole definition (MIR
temporaries are inlined down to named locals, parameters, constants, fields and resolved callee paths; closure
literals by their definition and captures) and reports two names with the same canonical expression when

 * the expression contains at least one call and at least one variable / parameter leaf (pure constants such as the two
   unit-conversion factors of `lammps_tables` are the same number on purpose),
 * it is pure: no callee receives a `&mut` argument (`states.pop()` twice yields two different states), and
 * the variables are not sizes, flags or labels (integer / bool / string typed: `x.len()` under two names is harmless), and
 * the outermost call is not an allocator (`zeros`, `new`, `with_capacity`, `default`, `ones`, `from_elem`): buffers that are
   filled afterwards are legitimately created by the same expression.

Expected count on a correct tree: zero (0 on the pinned tree out of the definitions counted in the evidence)."""
import json
import re

from cfg import Defs
from facts import callee
from report import RuleResult

ALLOC = re.compile(r"::(zeros|new|with_capacity|default|ones|from_elem|empty|clone)$")


class Canon:
    def __init__(self, F, b):
        self.F, self.b, self.defs = F, b, Defs(b)
        self.impure = False
        self.leaf = False
        self.calls = 0
        self.mleaves = set()      # leaves that are assigned more than once in the function

    def place(self, pl, depth):
        out = self.local(pl["l"], depth)
        for p in pl["p"]:
            if p == "*":
                continue
            if isinstance(p, dict):
                if "f" in p:
                    out += ".%s" % (p.get("n") or p["f"])
                elif "idx" in p:
                    out += "[%s]" % self.local(p["idx"], depth + 1)
                elif "cidx" in p:
                    out += "[#%s]" % p["cidx"]
                elif "dc" in p:
                    out += "@%s" % p.get("v")
                else:
                    out += ".?"
        return out

    def op(self, o, depth):
        k = o.get("k")
        if k in ("copy", "move"):
            return self.place(o["place"], depth)
        if k == "const":
            return "c(%s)" % (o.get("text") or o.get("def") or json.dumps(o, sort_keys=True)[:80])
        return json.dumps(o, sort_keys=True)[:80]

    def local(self, l, depth):
        if depth > 16:
            self.impure = True       # too deep to compare reliably
            return "…"
        b = self.b
        if (b.lname(l) and b.lname(l) not in ("val", "residual")) or 1 <= l <= b["arg_count"]:
            self.leaf = True
            # a variable that is assigned more than once holds different values at different places: two expressions over it are not
            # "the same expression over the same inputs" (`let Some(last) = vle.as_ref()` before a loop that re-assigns `vle`)
            if len(self.defs.whole(l)) + (1 if 1 <= l <= b["arg_count"] else 0) > 1:
                self.mleaves.add(l)
            return "v%d" % l
        ds = self.defs.of(l)
        if len(ds) != 1:
            self.leaf = True
            return "v%d" % l
        return self.define(ds[0], depth + 1)

    def define(self, d, depth):
        b = self.b
        if d[0] == "call":
            t = d[2]
            self.calls += 1
            for a in t["args"]:
                ty = b.opty(a)
                if ty and str(ty.get("k", "")).startswith("refmut"):
                    self.impure = True
            return "%s(%s)" % (callee(t)[0], ",".join(self.op(a, depth) for a in t["args"]))
        rv = d[4]
        k = rv["k"]
        if k in ("use", "cast"):
            return self.op(rv["op"], depth)
        if k == "ref":
            if rv.get("mut"):
                self.impure = True
            return self.place(rv["place"], depth)
        if k == "binop":
            return "(%s %s %s)" % (self.op(rv["a"], depth), rv["op"], self.op(rv["b"], depth))
        if k == "unop":
            return "(%s %s)" % (rv["op"], self.op(rv["a"], depth))
        if k == "agg":
            return "agg%s[%s]" % (json.dumps(rv["kind"], sort_keys=True), ",".join(self.op(o, depth) for o in rv["ops"]))
        self.impure = True
        return k + "?"


def run(F, scopes, rule_id="R25", floor=1):
    """scopes: tuple of path prefixes (canonical body paths) the property's anchors cover"""
    r = RuleResult(rule_id, "DUP-DEF: two differently named variables are never defined by the same pure expression")
    n_defs = 0
    n_funcs = 0
    for b in F.bodies:
        if not any(s in b.path for s in scopes):
            continue
        if b.get("exp"):
            continue
        n_funcs += 1
        by = {}
        defs = None
        for l in range(b["arg_count"] + 1, len(b.locals)):
            nm = b.lname(l)
            if not nm or nm in ("val", "residual"):
                continue
            lt = b.lty(l) or {}
            if lt.get("k") in ("int", "bool", "uint", "char", "str") or str(lt.get("s", "")).lstrip("&") in ("usize", "bool", "i32", "u32", "u64", "i64", "isize", "str", "std::string::String"):
                continue            # sizes / flags / labels: the same `x.len()` under two names is harmless
            c = Canon(F, b)
            ds = c.defs.whole(l)
            if len(ds) != 1:
                continue
            d = ds[0]
            s = c.define(d, 0)
            if c.impure or not c.leaf or c.calls == 0:
                continue
            head = s.split("(")[0]
            if ALLOC.search(head):
                continue
            n_defs += 1
            span = d[2]["span"] if d[0] == "call" else b.blocks[d[1]]["stmts"][d[2]].get("span", b.file_line())
            by.setdefault(s, []).append((nm, l, span, d[1], frozenset(c.mleaves)))
        dom = None
        for s, ls in by.items():
            names = sorted({x[0] for x in ls})
            if len(names) < 2:
                continue
            # both variables must be alive together: one definition dominates the other.  Bindings of the same element in different
            # arms of a `match` (`[s1] => .., [s2, s1] => ..`) are alternatives, not a mirrored pair
            if dom is None:
                from cfg import dominators
                dom = dominators(b)
            if defs is None:
                defs = Defs(b)
                succs = b.succs()

            def same_inputs(x, y):
                """x's definition dominates y's: no leaf of the expression is re-assigned on the way from x to y (a re-assignment from
                which y is reachable without passing x again: `let Some(last) = vle.as_ref()` before a loop that re-assigns `vle`)"""
                for leaf in x[4] | y[4]:
                    for dl in defs.whole(leaf):
                        q = dl[1]
                        if q == x[3] or x[3] not in dom.get(q, ()):
                            continue
                        work, seen = [q], {x[3]}
                        while work:
                            u = work.pop()
                            for v in succs[u]:
                                if v == y[3]:
                                    return False
                                if v not in seen:
                                    seen.add(v)
                                    work.append(v)
                return True
            together = []
            for i, x in enumerate(ls):
                for y in ls[i + 1:]:
                    if x[0] == y[0]:
                        continue
                    if x[3] in dom.get(y[3], ()) and same_inputs(x, y):
                        together.append((x, y))
                    elif y[3] in dom.get(x[3], ()) and same_inputs(y, x):
                        together.append((x, y))
            if not together:
                continue
            names = sorted({n_ for pr in together for n_ in (pr[0][0], pr[1][0])})
            where = ls[-1][2]
            r.inst("dup|%s|%s" % (b.path, "~".join(names)), where, "violation")
            r.fail("dup|%s|%s" % (b.path, "~".join(names)), where,
                   "%s: the variables %s are defined by the same expression `%s` over the same inputs — one of a mirrored pair "
                   "(liquid/vapor, i/j, first/second phase) reads the wrong operand" % (b.path, " and ".join("`%s`" % n for n in names), _short(s)))
    r.inst("dup|census", "-", "ok", functions=n_funcs, named_definitions_compared=n_defs, nontrivial=n_defs > 0)
    r.floor("named pure definitions compared", n_defs, floor)
    r.exhaustive = True
    return [r]


def _short(s):
    s = re.sub(r"agg\{[^}]*\}", "closure", s)
    s = re.sub(r"[a-z_0-9:<>]+::", "", s)
    return s[:160]
