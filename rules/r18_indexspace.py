"""R18 INDEXSPACE — whole-program inference of index spaces (unification, in the spirit of dimension / unit inference).

Every integer that is used as an array index, every axis of every array-valued struct field and every usize field that
bounds a loop gets a type variable; constraints come from the shape of the code:
    a[i]               space(a, axis) = kind(i)            (ndarray Index / IndexMut with usize, [i, j], (i, j) keys; slices)
    x = idx_array[i]   kind(x) = elem(idx_array)
    0..n / a.len()     kind(loop variable) = kind(n) = space(a, 0)
    from_shape_fn(n, |i| ..), zeros(n)   space(result) = kind(n) = kind(i)
    a * b, a + b (same rank), mapv, clone, view ...          spaces agree
Struct fields are global variables (one per ADT field and axis), so constraints from all functions meet.
Anchors (rigid): COMP = the index space of StateHD.{moles, molefracs, partial_density} and of `components()`;
every usize *field* of a struct (ndipole, nquadpole, nassoc ...).  Two different rigid anchors in one equivalence class
mean that an integer drawn from one index space indexes an array of another — e.g. a position in the list of dipolar
components used as a component index — which breaks permutation equivariance / zero-mole padding (C09)."""
import os
import tomllib

from cfg import Defs, strip_place
from facts import callee
from report import RuleResult

TABLE = os.path.join(os.path.dirname(os.path.dirname(os.path.abspath(__file__))), "tables", "r18.toml")
COMP = "COMP"
SEG = "SEG"
SAME_SHAPE = {"mapv", "map", "mapv_into", "to_owned", "clone", "view", "view_mut", "deref", "deref_mut", "borrow", "as_ref", "into_owned",
              "neg", "reborrow", "to_vec", "into_iter", "iter", "iter_mut", "rev", "skip", "take", "by_ref", "into_dimensionality", "cloned", "copied",
              "abs", "exp", "ln", "sqrt", "recip", "powi", "powf", "mapv_inplace"}
ELEMWISE = {"mul", "add", "sub", "div", "mul_assign", "add_assign", "sub_assign", "div_assign", "assign", "zip", "and", "zip_mut_with"}


class UF:
    def __init__(self):
        self.p = {}
        self.adj = {}

    def find(self, x):
        self.p.setdefault(x, x)
        while self.p[x] != x:
            self.p[x] = self.p[self.p[x]]
            x = self.p[x]
        return x

    def union(self, a, b, why):
        if a is None or b is None or a == b:
            return
        self.adj.setdefault(a, []).append((b, why))
        self.adj.setdefault(b, []).append((a, why))
        ra, rb = self.find(a), self.find(b)
        if ra != rb:
            self.p[ra] = rb

    def path(self, a, b):
        prev = {a: None}
        q = [a]
        while q:
            nq = []
            for x in q:
                if x == b:
                    out = []
                    while prev[x] is not None:
                        px, why = prev[x]
                        out.append((px, x, why))
                        x = px
                    return out[::-1]
                for y, why in self.adj.get(x, []):
                    if y not in prev:
                        prev[y] = (x, why)
                        nq.append(y)
            q = nq
        return []


def is_int_ty(ty):
    return ty["k"] == "int"


def rank_of(s):
    """rank of an ndarray type string, or 1 for Vec / slices of scalars, None otherwise"""
    if "ndarray::ArrayBase<" in s:
        i = s.find("ndarray::Dim<[usize; ")
        if i >= 0:
            try:
                return int(s[i + len("ndarray::Dim<[usize; "):].split("]")[0])
            except ValueError:
                return None
        return None
    if s.startswith("std::vec::Vec<") or s.startswith("[") or s.startswith("&[") or s.startswith("&std::vec::Vec<"):
        return 1
    return None


def global_owner(o):
    """fields of parameter structs (and StateHD) are whole-program variables; helper structs that are instantiated for several
    index spaces (e.g. MeanSegmentNumbers for dipoles and for quadrupoles) are tracked per holder variable instead"""
    last = o.split("<")[0].split("::")[-1]
    return last.endswith("Parameters") or last in ("StateHD", "State")


class Inference:
    def __init__(self, F):
        self.F = F
        self.uf = UF()
        self.parent_site = {}      # closure path -> (parent body, aggregate rvalue)
        for b in F.bodies:
            for bi, si, st in b.stmts():
                rv = st["rv"]
                if rv["k"] == "agg" and rv["kind"].get("t") == "closure":
                    self.parent_site[rv["kind"]["def"]] = (b, rv)
        self.defs = {}
        self.n_constraints = 0
        self.n_index_sites = 0

    def D(self, b):
        if b.path not in self.defs:
            self.defs[b.path] = Defs(b)
        return self.defs[b.path]

    # ------------------------------------------------------------ node resolution
    def field_node(self, kind, owner, name, axis=None):
        if owner.endswith("StateHD") and name in ("moles", "molefracs", "partial_density") and kind == "FS":
            return COMP
        if owner.split("<")[0] in ("feos_core::State", "feos_core::state::State") and name in ("moles", "molefracs", "partial_density") and kind == "FS":
            return COMP
        o = owner.split("<")[0]
        return "%s:%s.%s%s" % (kind, o, name, "" if axis is None else "#%d" % axis)

    def holder(self, b, place, depth=0):
        """resolve an array-valued place to ('F', owner, field) | ('L', body, local) following aliases"""
        if depth > 14:
            return None
        fields = [p for p in place["p"] if isinstance(p, dict) and "f" in p]
        l = place["l"]
        if b.is_closure() and l == 1 and fields:
            # upvar: resolve in the parent
            site = self.parent_site.get(b.path)
            rest = fields[1:]
            if site is None:
                return None
            pb, rv = site
            idx = fields[0]["f"]
            if idx >= len(rv["ops"]):
                return None
            op = rv["ops"][idx]
            if rest:
                last = rest[-1]
                if last.get("o") and not last["o"].startswith(("tuple", "closure")) and last["o"].split("::")[0] in ("feos", "feos_core", "feos_dft") and global_owner(last["o"]):
                    return ("F", last["o"], last["n"])
            if op.get("k") in ("copy", "move"):
                return self.holder(pb, op["place"], depth + 1)
            return None
        if fields:
            last = fields[-1]
            o = last.get("o") or ""
            if o and o.split("::")[0] in ("feos", "feos_core", "feos_dft") and not o.startswith("closure"):
                if global_owner(o):
                    return ("F", o, last["n"])
                # field of a helper struct: keyed by the variable that holds the struct
                base = self.holder(b, {"l": l, "p": [p for p in place["p"] if p is not last and not (isinstance(p, dict) and "f" in p and p is last)][:0]}, depth + 1) if False else None
                root = self.root_local(b, l)
                return ("L", root[0], "%s.%s" % (root[1], last["n"]))
            if o == "tuple":
                return ("L", b.path, "%d.%d" % (l, last["f"]))
        ds = self.D(b).of(l)
        whole = [d for d in ds if (d[0] == "call" and not d[2]["dest"]["p"]) or (d[0] == "stmt" and not d[3]["p"])]
        if len(whole) == 1:
            d = whole[0]
            if d[0] == "stmt":
                rv = d[4]
                if rv["k"] in ("use", "cast") and rv["op"].get("k") in ("copy", "move"):
                    return self.holder(b, rv["op"]["place"], depth + 1)
                if rv["k"] == "ref":
                    return self.holder(b, rv["place"], depth + 1)
            else:
                t = d[2]
                name = callee(t)[2]
                if name in ("deref", "deref_mut", "view", "view_mut", "borrow", "as_ref", "as_mut", "reborrow", "as_slice", "as_slice_mut", "as_mut_slice") and t["args"] \
                        and t["args"][0].get("k") in ("copy", "move"):
                    return self.holder(b, t["args"][0]["place"], depth + 1)
        return ("L", b.path, str(l))

    def root_local(self, b, l, depth=0):
        """(body path, local) of the variable a reference local ultimately borrows from (through copies / refs / upvars)"""
        if depth > 10:
            return (b.path, str(l))
        ds = self.D(b).of(l)
        if len(ds) == 1 and ds[0][0] == "stmt":
            rv = ds[0][4]
            if rv["k"] == "ref" and not [p for p in rv["place"]["p"] if isinstance(p, dict)]:
                return self.root_local(b, rv["place"]["l"], depth + 1)
            if rv["k"] in ("use", "cast") and rv["op"].get("k") in ("copy", "move") and not [p for p in rv["op"]["place"]["p"] if isinstance(p, dict)]:
                return self.root_local(b, rv["op"]["place"]["l"], depth + 1)
        return (b.path, str(l))

    def space(self, b, place, axis):
        h = self.holder(b, place)
        if h is None:
            return None
        if h[0] == "F":
            return self.field_node("FS", h[1], h[2], axis)
        return "LS:%s#%s#%d" % (h[1], h[2], axis)

    def elem(self, b, place):
        h = self.holder(b, place)
        if h is None:
            return None
        if h[0] == "F":
            return self.field_node("FE", h[1], h[2])
        return "LE:%s#%s" % (h[1], h[2])

    def carrier(self, b, place):
        """kind carried by a range / iterator / Option value"""
        h = self.holder(b, place)
        if h is None:
            return None
        if h[0] == "F":
            return self.field_node("FC", h[1], h[2])
        return "C:%s#%s" % (h[1], h[2])

    def kind_of_place(self, b, place):
        """kind node of an integer-valued place"""
        fields = [p for p in place["p"] if isinstance(p, dict) and "f" in p]
        l = place["l"]
        if b.is_closure() and l == 1 and fields:
            site = self.parent_site.get(b.path)
            if site is None:
                return None
            pb, rv = site
            idx = fields[0]["f"]
            if len(fields) > 1:
                last = fields[-1]
                if last.get("o") and last["o"].split("::")[0] in ("feos", "feos_core", "feos_dft") and global_owner(last["o"]):
                    return self.field_node("FK", last["o"], last["n"])
            if idx < len(rv["ops"]) and rv["ops"][idx].get("k") in ("copy", "move"):
                op = rv["ops"][idx]
                # captured by reference: the operand is a ref local
                return self.kind_of_ref_or_val(pb, op["place"])
            return None
        if fields:
            last = fields[-1]
            o = last.get("o") or ""
            if o and o.split("::")[0] in ("feos", "feos_core", "feos_dft") and not o.startswith("closure"):
                if global_owner(o):
                    return self.field_node("FK", o, last["n"])
                root = self.root_local(b, l)
                return "K:%s#%s.%s" % (root[0], root[1], last["n"])
            if o == "tuple":
                return "K:%s#%d.%d" % (b.path, l, last["f"])
            if "::Some" in o or o.endswith("Option::Some"):
                return self.carrier(b, {"l": l, "p": []})
            return None
        idxp = [p for p in place["p"] if isinstance(p, dict) and "idx" in p]
        if idxp:
            return None
        if "*" in place["p"]:
            return self.kind_of_ref_or_val(b, {"l": l, "p": []}, deref=True)
        return "K:%s#%d" % (b.path, l)

    def kind_of_ref_or_val(self, b, place, deref=False, depth=0):
        """kind of the integer a (reference) local points to"""
        l = place["l"]
        if depth > 8:
            return None
        ty = b.lty(l)
        if is_int_ty(ty) and not place["p"]:
            return "K:%s#%d" % (b.path, l)
        ds = self.D(b).of(l)
        if len(ds) != 1:
            return None
        d = ds[0]
        if d[0] == "stmt":
            rv = d[4]
            if rv["k"] == "ref":
                return self.kind_of_place(b, rv["place"])
            if rv["k"] in ("use", "cast") and rv["op"].get("k") in ("copy", "move"):
                return self.kind_of_ref_or_val(b, rv["op"]["place"], deref, depth + 1)
            return None
        t = d[2]
        p, tr, name = callee(t)
        if name in ("index", "index_mut") and tr in ("std::ops::Index", "std::ops::IndexMut") and t["args"][0].get("k") in ("copy", "move"):
            return self.elem(b, t["args"][0]["place"])
        if name in ("unwrap", "expect", "deref") and t["args"] and t["args"][0].get("k") in ("copy", "move"):
            return self.kind_of_ref_or_val(b, t["args"][0]["place"], deref, depth + 1)
        return None

    def kind_of_op(self, b, o):
        if o.get("k") in ("copy", "move"):
            ty = b.pty(o["place"])
            if is_int_ty(ty):
                return self.kind_of_place(b, o["place"])
            if ty["k"].startswith("ref") and "int" in ty["k"]:
                return self.kind_of_ref_or_val(b, o["place"])
        return None

    def U(self, a, c, why):
        if a and c:
            self.n_constraints += 1
            self.uf.union(a, c, why)

    # ------------------------------------------------------------ constraint generation
    def index_key(self, b, o):
        """list of kind nodes for the components of an index operand (usize, [i, j], (i, j)); None entries for constants"""
        if o.get("k") not in ("copy", "move"):
            return None
        ty = b.pty(o["place"])
        if is_int_ty(ty):
            return [self.kind_of_place(b, o["place"])]
        l = o["place"]["l"]
        if o["place"]["p"]:
            return None
        for _ in range(4):
            ds = self.D(b).of(l)
            if len(ds) != 1 or ds[0][0] != "stmt":
                return None
            rv = ds[0][4]
            if rv["k"] == "agg" and rv["kind"].get("t") in ("array", "tuple"):
                return [self.kind_of_op(b, x) for x in rv["ops"]]
            if rv["k"] in ("use", "cast") and rv["op"].get("k") in ("copy", "move"):
                l = rv["op"]["place"]["l"]
                continue
            return None
        return None

    def shape_key(self, b, o):
        return self.index_key(b, o)

    def run(self):
        for b in self.F.bodies:
            if b.get("exp"):
                continue
            self.body(b)
        return self

    def body(self, b):
        defs = self.D(b)
        site = lambda sp: "%s @ %s" % (b.path.split("::{closure")[0].split("::")[-1], sp)
        for bi, blk in enumerate(b.blocks):
            if blk["cleanup"]:
                continue
            for st in blk["stmts"]:
                pl, rv = st["place"], st["rv"]
                dty = b.pty(pl)
                k = rv["k"]
                # integer copies
                if is_int_ty(dty):
                    dst = self.kind_of_place(b, pl)
                    if k in ("use", "cast") and rv["op"].get("k") in ("copy", "move"):
                        src_pl = rv["op"]["place"]
                        idxp = [p for p in src_pl["p"] if isinstance(p, dict) and "idx" in p]
                        if idxp:
                            # x = (*slice)[_i]
                            base = {"l": src_pl["l"], "p": [p for p in src_pl["p"] if not (isinstance(p, dict) and ("idx" in p))]}
                            self.U(dst, self.elem(b, base), site(st["span"]))
                            self.U(self.space(b, base, 0), "K:%s#%d" % (b.path, idxp[0]["idx"]), site(st["span"]))
                            self.n_index_sites += 1
                        else:
                            self.U(dst, self.kind_of_place(b, src_pl), site(st["span"]))
                    elif k == "binop" and rv["op"] in ("Add", "Sub", "AddWithOverflow", "SubWithOverflow"):
                        # i + const / i - const stay in the same space
                        a, c = rv["a"], rv["b"]
                        if c.get("k") == "const" and a.get("k") in ("copy", "move"):
                            self.U(dst, self.kind_of_op(b, a), site(st["span"]))
                        elif a.get("k") == "const" and c.get("k") in ("copy", "move") and rv["op"].startswith("Add"):
                            self.U(dst, self.kind_of_op(b, c), site(st["span"]))
                elif dty["k"] == "tuple" and k == "use" and rv["op"].get("k") in ("copy", "move") and not pl["p"]:
                    # (usize, bool) overflow tuples etc.: field 0 keeps the kind
                    pass
                # Range aggregates and other carriers
                if k == "agg" and rv["kind"].get("t") == "adt" and rv["kind"].get("adt", "").endswith(("ops::Range", "ops::RangeInclusive")) and len(rv["ops"]) == 2:
                    end = rv["ops"][1]
                    start = rv["ops"][0]
                    if start.get("k") == "const":
                        self.U(self.carrier(b, pl), self.kind_of_op(b, end), site(st["span"]))
                elif k in ("use", "cast") and rv["op"].get("k") in ("copy", "move") and not is_int_ty(dty):
                    sty = b.pty(rv["op"]["place"])["s"]
                    if "Range<" in sty or "iter::" in sty or "Iter<" in sty:
                        self.U(self.carrier(b, pl), self.carrier(b, rv["op"]["place"]), site(st["span"]))
                    # with overflow tuple: (_t.0)
                if k == "binop" and rv["op"].endswith("WithOverflow") and not pl["p"]:
                    a, c = rv["a"], rv["b"]
                    if c.get("k") == "const" and a.get("k") in ("copy", "move"):
                        self.U("K:%s#%d.0" % (b.path, pl["l"]), self.kind_of_op(b, a), site(st["span"]))
            t = blk["term"]
            if t["k"] != "call":
                continue
            p, tr, name = callee(t)
            args = t["args"]
            dest = t["dest"]
            sp = site(t["span"])
            dty = b.pty(dest)
            if name in ("get", "set") and p.startswith("quantity::array::") and len(args) >= 2 and args[0].get("k") in ("copy", "move"):
                # element access of a quantity array: `moles.get(i)`, `moles.set(i, value)`
                key = self.index_key(b, args[1])
                if key:
                    self.n_index_sites += 1
                    for ax, kn in enumerate(key):
                        if kn:
                            self.U(self.space(b, args[0]["place"], ax), kn, sp)
                continue
            if name in ("index", "index_mut") and tr in ("std::ops::Index", "std::ops::IndexMut") and len(args) == 2 and args[0].get("k") in ("copy", "move"):
                key = self.index_key(b, args[1])
                if key:
                    self.n_index_sites += 1
                    for ax, kn in enumerate(key):
                        if kn:
                            self.U(self.space(b, args[0]["place"], ax), kn, sp)
                continue
            if name in ("len", "nrows") and args and args[0].get("k") in ("copy", "move") and is_int_ty(dty):
                self.U(self.kind_of_place(b, dest), self.space(b, args[0]["place"], 0), sp)
                continue
            if name == "ncols" and args and args[0].get("k") in ("copy", "move") and is_int_ty(dty):
                self.U(self.kind_of_place(b, dest), self.space(b, args[0]["place"], 1), sp)
                continue
            if name == "components" and tr and tr.endswith("Components") and is_int_ty(dty):
                self.U(self.kind_of_place(b, dest), COMP, sp)
                continue
            if b.path.startswith("feos_dft::") and name in ("component_index", "m") and tr and tr.endswith("HelmholtzEnergyFunctional"):
                # generic DFT code: the segment index space.  `component_index()[s]` is the component of segment s, `m()[s]` its chain length
                self.U(self.space(b, dest, 0), SEG, sp)
                if name == "component_index":
                    self.U(self.elem(b, dest), COMP, sp)
                continue
            if name in ("into_iter", "iter", "rev", "skip", "take", "by_ref", "step_by", "peekable", "next", "next_back") and args and args[0].get("k") in ("copy", "move"):
                aty = b.pty(args[0]["place"])["s"]
                if "Range<" in aty or "RangeInclusive<" in aty or "iter::" in aty:
                    self.U(self.carrier(b, dest), self.carrier(b, args[0]["place"]), sp)
                    continue
            if name in ("from_shape_fn", "from_fn", "zeros", "ones", "from_elem", "default", "uninit") and args:
                key = self.shape_key(b, args[0])
                if key:
                    for ax, kn in enumerate(key):
                        if kn:
                            self.U(self.space(b, dest, ax), kn, sp)
                    # closure parameter
                    for a in args[1:]:
                        ty = b.opty(a)
                        if ty and "closure:" in ty["k"]:
                            cpath = ty["k"].split("closure:")[-1]
                            cb = self.F.body(cpath)
                            if cb is not None and cb["arg_count"] >= 2:
                                if len(key) == 1 and is_int_ty(cb.lty(2)):
                                    self.U("K:%s#2" % cpath, key[0], sp)
                                else:
                                    for ax, kn in enumerate(key):
                                        if kn:
                                            self.U("K:%s#2.%d" % (cpath, ax), kn, sp)
                continue
            # same-shape results
            r_d = rank_of(dty["s"])
            if name in SAME_SHAPE and args and args[0].get("k") in ("copy", "move"):
                r_a = rank_of(b.pty(args[0]["place"])["s"].lstrip("&"))
                if r_d and r_a and r_d == r_a:
                    for ax in range(r_d):
                        self.U(self.space(b, dest, ax), self.space(b, args[0]["place"], ax), sp)
                    # element kind of integer arrays
                    self.U(self.elem(b, dest), self.elem(b, args[0]["place"]), sp)
                continue
            if name in ELEMWISE and len(args) >= 2 and args[0].get("k") in ("copy", "move") and args[1].get("k") in ("copy", "move"):
                ra = rank_of(b.pty(args[0]["place"])["s"].replace("&mut ", "").lstrip("&"))
                rb = rank_of(b.pty(args[1]["place"])["s"].replace("&mut ", "").lstrip("&"))
                if ra and rb and ra == rb:
                    for ax in range(ra):
                        self.U(self.space(b, args[0]["place"], ax), self.space(b, args[1]["place"], ax), sp)
                    if r_d == ra:
                        for ax in range(ra):
                            self.U(self.space(b, dest, ax), self.space(b, args[0]["place"], ax), sp)
                elif r_d and ra == r_d and not rb:
                    for ax in range(r_d):
                        self.U(self.space(b, dest, ax), self.space(b, args[0]["place"], ax), sp)
                elif r_d and rb == r_d and not ra:
                    for ax in range(r_d):
                        self.U(self.space(b, dest, ax), self.space(b, args[1]["place"], ax), sp)
                continue


def run(F):
    r = RuleResult("R18", "INDEXSPACE: no integer drawn from one index space indexes an array of another (whole-program unification)")
    with open(TABLE, "rb") as fh:
        tab = tomllib.load(fh)
    same = [tuple(x) for x in tab.get("same", {}).get("pairs", [])]
    inf = Inference(F).run()
    uf = inf.uf
    for a, c in same:
        pass
    classes = {}
    for x in list(uf.p):
        classes.setdefault(uf.find(x), []).append(x)
    rigid = lambda n: n in (COMP, SEG) or n.startswith("FK:")
    n_rigid_classes = 0
    reviewed = {frozenset(x) for x in same}
    for root, members in sorted(classes.items()):
        rs = sorted(m for m in members if rigid(m))
        if not rs:
            continue
        n_rigid_classes += 1
        if len(rs) == 1:
            r.inst("space|%s" % rs[0], "-", "ok", members=len(members))
            continue
        # several rigid anchors in one class: every pair must be reviewed
        base = rs[0] if COMP not in rs else COMP
        for other in rs:
            if other == base:
                continue
            pair = frozenset((base, other))
            iid = "space|%s~%s" % (base, other)
            if pair in reviewed:
                r.inst(iid, "-", "exempt", reason="reviewed equality of index spaces (tables/r18.toml)")
                continue
            path = uf.path(base, other)
            sites = [w for _, _, w in path]
            r.inst(iid, sites[0] if sites else "-", "violation", chain=[(a, c_, w) for a, c_, w in path][:12])
            r.fail("space|%s~%s" % (base, other), sites[0].split(" @ ")[-1] if sites else "-",
                   "index spaces `%s` and `%s` are forced equal: an integer ranging over one is used to index an array of the other. "
                   "Chain of uses: %s" % (base, other, " ; ".join("%s = %s [%s]" % (a.split(":", 1)[-1][-50:], c_.split(":", 1)[-1][-50:], w) for a, c_, w in path[:10])))
    # ---- R18b: struct-field index spaces that are distinct on the reviewed reference tree must stay distinct
    ref_path = os.path.join(os.path.dirname(TABLE), "r18_reference.json")
    if os.path.exists(ref_path):
        import json
        ref = json.load(open(ref_path))
        ref_class = {}
        for ci, members in enumerate(ref["classes"]):
            for m in members:
                ref_class[m] = ci
        n_checked = 0
        for root, members in sorted(classes.items()):
            gl = sorted(m for m in members if m == COMP or m.startswith(("FS:", "FE:", "FK:")))
            ids = {}
            for m in gl:
                if m in ref_class:
                    ids.setdefault(ref_class[m], []).append(m)
            if len(ids) <= 1:
                n_checked += len(gl)
                continue
            groups = sorted(ids.values(), key=lambda g: (COMP not in g, g[0]))
            a0 = groups[0][0] if COMP not in groups[0] else COMP
            for g in groups[1:]:
                b0 = g[0]
                path = uf.path(a0, b0)
                sites = [w for _, _, w in path]
                # blame the first constraint on the chain that joins two different reference classes
                blame = None
                for x, y, w in path:
                    cx, cy = ref_class.get(x), ref_class.get(y)
                    if cx is not None and cy is not None and cx != cy:
                        blame = w
                        break
                r.inst("merge|%s~%s" % (a0, b0), blame or (sites[0] if sites else "-"), "violation")
                r.fail("merge|%s~%s" % (a0, b0), (blame or (sites[0] if sites else "-")).split(" @ ")[-1],
                       "the index spaces of `%s` and `%s` are distinct on the reviewed reference tree but are now forced equal (an index of one space is used "
                       "in the other, e.g. a segment index used as a component index). Chain: %s" % (
                           a0, b0, " ; ".join("%s = %s [%s]" % (x.split(":", 1)[-1][-45:], y.split(":", 1)[-1][-45:], w) for x, y, w in path[:10])))
        r.inst("reference-partition", "tables/r18_reference.json", "ok", classes=len(ref["classes"]), nodes=len(ref_class), nontrivial=True)
    else:
        r.fail("reference|missing", "-", "tables/r18_reference.json is missing (generate with tools/gen_r18_reference.py on a reviewed tree)")
    r.floor("index sites (ndarray / slice indexing) seen", inf.n_index_sites, tab["floors"]["index_sites"])
    r.floor("unification constraints", inf.n_constraints, tab["floors"]["constraints"])
    r.floor("equivalence classes containing a rigid anchor", n_rigid_classes, tab["floors"]["anchored_classes"])
    comp_members = len(classes.get(uf.find(COMP), []))
    r.floor("members of the COMP class", comp_members, tab["floors"]["comp_members"])
    r.notes.append("COMP class has %d members; %d classes, %d with a rigid anchor" % (comp_members, len(classes), n_rigid_classes))
    r.blind.append("context-insensitive within a function body but not across calls (callee parameters are fresh variables): an index confusion that is "
                   "only visible through a helper function's parameter is not seen; arithmetic on indices other than +/- constant is opaque")
    r.exhaustive = True
    return [r]
