"""R68 NO-SPLIT-ONLY-WHEN-EMPTY — the flash reports "no phase split" only when the stability analysis found no candidate.

C07 / C05: "feeds strictly inside the two-phase region are reported unstable and lead a flash calculation to a phase split rather
than to a no-phase-split error".  The stability analysis returns the list of accepted trial phases (up to N + 1); the flash start
takes candidates from it and raises `EosError::NoPhaseSplit` when there is none.  A case analysis over the *length* of the list that
handles one and two candidates and sends everything else to the error (`[s1] => .., [s2, s1] => .., _ => Err(NoPhaseSplit)`) also
rejects three candidates — three liquid / vapour minima near three-phase conditions, or a duplicate that escaped the dedupe.

Rule: every construction of `EosError::NoPhaseSplit` in a function that obtains candidates from `stability_analysis` is dominated by
an edge that proves the candidate list empty: the `None` edge of the first `pop` / `last` / `first` / `get` / `next` probe of the
list, the `true` edge of `is_empty()`, or the `0` edge of a test of its length.  (That the candidates are genuine minima is R5's
and R4's obligation; whether a split is then found is numerical.)"""
from cfg import Defs, dominators
from facts import callee
from report import RuleResult

PROBES = ("pop", "last", "first", "get", "next", "next_back", "peek", "last_mut", "first_mut", "split_last", "split_first")
SHRINK = ("pop", "remove", "swap_remove", "truncate", "retain", "drain", "clear", "split_off")
THROUGH = ("deref", "deref_mut", "as_slice", "as_mut_slice", "iter", "iter_mut", "into_iter", "borrow", "as_ref", "as_mut", "rev", "branch", "unwrap", "expect")


def _reaches(b, defs, l, roots, depth=0, seen=None):
    seen = seen if seen is not None else set()
    if l in roots:
        return True
    if l in seen or depth > 12:
        return False
    seen.add(l)
    for d in defs.of(l):
        if d[0] == "call":
            if str(callee(d[2])[2]) in THROUGH and d[2]["args"] and d[2]["args"][0].get("k") in ("copy", "move"):
                if _reaches(b, defs, d[2]["args"][0]["place"]["l"], roots, depth + 1, seen):
                    return True
        else:
            rv = d[4]
            if rv["k"] in ("use", "cast") and rv["op"].get("k") in ("copy", "move"):
                if _reaches(b, defs, rv["op"]["place"]["l"], roots, depth + 1, seen):
                    return True
            elif rv["k"] == "ref":
                if _reaches(b, defs, rv["place"]["l"], roots, depth + 1, seen):
                    return True
    return False


def run(F):
    r = RuleResult("R68", "NO-SPLIT-ONLY-WHEN-EMPTY: EosError::NoPhaseSplit is raised only where the list of unstable candidates is proven empty")
    n = 0
    for b in F.bodies:
        if not b.path.startswith("feos_core::") or "::tests::" in b.path:
            continue
        sites = [(bi, st) for bi, si, st in b.stmts() if st["rv"]["k"] == "agg" and str(st["rv"]["kind"].get("adt", "")).endswith("errors::EosError")
                 and st["rv"]["kind"].get("variant") == "NoPhaseSplit"]
        if not sites:
            continue
        n += len(sites)
        fn = b.path.split("::{closure")[0].split("::")[-1]
        iid = "nosplit|%s" % fn
        host, host_closure = b, None
        if b.is_closure() and F.body(b.d.get("parent") or "") is not None:
            # `list.pop().ok_or_else(|| EosError::NoPhaseSplit)`: judged where the closure is used
            host, host_closure = F.body(b.d.get("parent")), b.path
        sa = [t for bi, t in host.calls() if str(callee(t)[2]) == "stability_analysis"]
        if not sa:
            r.inst(iid, sites[0][1].get("span", b.file_line()), "violation")
            r.fail(iid + "|unreviewed", sites[0][1].get("span", b.file_line()),
                   "%s raises EosError::NoPhaseSplit but does not obtain candidates from stability_analysis: not the reviewed place" % fn)
            continue
        site_body = b
        b = host
        defs = Defs(b)
        dom = dominators(b)
        roots = {t["dest"]["l"] for t in sa}
        # forward closure of the list through `?` / copies (named local `stable_states`)
        changed = True
        while changed:
            changed = False
            for bi, si, st in b.stmts():
                rv = st["rv"]
                if rv["k"] in ("use", "cast") and rv["op"].get("k") in ("copy", "move") and rv["op"]["place"]["l"] in roots and st["place"]["l"] not in roots:
                    roots.add(st["place"]["l"])
                    changed = True
            for bi, t in b.calls():
                if str(callee(t)[2]) in ("branch",) and t["args"] and t["args"][0].get("k") in ("copy", "move") and t["args"][0]["place"]["l"] in roots \
                        and t["dest"]["l"] not in roots:
                    roots.add(t["dest"]["l"])
                    changed = True
        shrink_blocks = [bi for bi, t in b.calls() if str(callee(t)[2]) in SHRINK and t["args"] and t["args"][0].get("k") in ("copy", "move")
                         and _reaches(b, defs, t["args"][0]["place"]["l"], roots)]
        def lazy_error_of_first_probe(val_local=None):
            """the error value is handed to `probe.ok_or(value)` / `probe.ok_or_else(closure)` where probe is the first probe of the list:
            it becomes the result only if the probe found nothing"""
            import boolsum
            for bi_, t_ in b.calls():
                nm_ = str(callee(t_)[2])
                if nm_ not in ("ok_or", "ok_or_else") or len(t_["args"]) != 2 or t_["args"][0].get("k") not in ("copy", "move"):
                    continue
                if nm_ == "ok_or":
                    a1 = t_["args"][1]
                    l1 = a1["place"]["l"] if a1.get("k") in ("copy", "move") else None
                    hit = False
                    for _ in range(4):
                        if l1 is None:
                            break
                        if l1 == val_local:
                            hit = True
                            break
                        d1 = defs.of(l1)
                        l1 = d1[0][4]["op"]["place"]["l"] if len(d1) == 1 and d1[0][0] == "stmt" and d1[0][4]["k"] == "use" and d1[0][4]["op"].get("k") in ("copy", "move") else None
                    if not hit:
                        continue
                else:
                    if host_closure is None or boolsum.closure_def_of_type(b.opty(t_["args"][1])) != host_closure:
                        continue
                pds_ = defs.of(t_["args"][0]["place"]["l"])
                if len(pds_) == 1 and pds_[0][0] == "call" and str(callee(pds_[0][2])[2]) in PROBES and pds_[0][2]["args"] \
                        and pds_[0][2]["args"][0].get("k") in ("copy", "move") and _reaches(b, defs, pds_[0][2]["args"][0]["place"]["l"], roots):
                    probe_bi_ = pds_[0][1]
                    if not [x for x in shrink_blocks if x != probe_bi_ and x in dom.get(probe_bi_, ())]:
                        return True
            return False

        if host_closure is not None:
            ok = lazy_error_of_first_probe()
            for ebi, st in sites:
                if ok:
                    r.inst(iid, st.get("span", site_body.file_line()), "ok", form="ok_or_else on the first probe")
                else:
                    r.inst(iid, st.get("span", site_body.file_line()), "violation")
                    r.fail(iid, st.get("span", site_body.file_line()),
                           "%s raises EosError::NoPhaseSplit in a closure that is not the fallback of the first probe of the candidate list" % fn)
            continue
        for ebi, st in sites:
            ok = lazy_error_of_first_probe(st["place"]["l"])
            for sbi, blk in enumerate(b.blocks):
                t = blk["term"]
                if t["k"] != "switch" or sbi not in dom.get(ebi, ()) or t["op"].get("k") not in ("copy", "move"):
                    continue
                # the edge of this switch that leads to the error
                edges = [(v, tgt) for v, tgt in t["targets"]] + [("otherwise", t["otherwise"])]
                lead = [(v, tgt) for v, tgt in edges if tgt == ebi or tgt in dom.get(ebi, ())]
                if len(lead) != 1:
                    continue
                v = lead[0][0]
                listed = {x for x, _ in t["targets"]}
                ds = defs.of(t["op"]["place"]["l"])
                if len(ds) != 1:
                    continue
                d = ds[0]
                if d[0] == "stmt" and d[4]["k"] == "discr":
                    # Option discriminant of a probe of the list
                    pds = defs.of(d[4]["place"]["l"])
                    # `match (list.pop(), list.pop())`: the probe is a component of a tuple built just before; copies
                    pl_ = d[4]["place"]
                    for _ in range(4):
                        flds = [p_ for p_ in pl_["p"] if isinstance(p_, dict) and "f" in p_]
                        pds = defs.of(pl_["l"])
                        if len(pds) == 1 and pds[0][0] == "stmt" and pds[0][4]["k"] == "agg" and pds[0][4]["kind"].get("t") == "tuple" and len(flds) == 1 \
                                and flds[0]["f"] < len(pds[0][4]["ops"]) and pds[0][4]["ops"][flds[0]["f"]].get("k") in ("copy", "move"):
                            pl_ = pds[0][4]["ops"][flds[0]["f"]]["place"]
                        elif len(pds) == 1 and pds[0][0] == "stmt" and pds[0][4]["k"] in ("use", "cast") and pds[0][4]["op"].get("k") in ("copy", "move") and not flds:
                            pl_ = pds[0][4]["op"]["place"]
                        else:
                            break
                    if len(pds) == 1 and pds[0][0] == "call" and str(callee(pds[0][2])[2]) in PROBES and pds[0][2]["args"] \
                            and pds[0][2]["args"][0].get("k") in ("copy", "move") and _reaches(b, defs, pds[0][2]["args"][0]["place"]["l"], roots):
                        probe_bi = pds[0][1]
                        earlier_shrink = [x for x in shrink_blocks if x != probe_bi and x in dom.get(probe_bi, ())]
                        none_edge = v == "0" or (v == "otherwise" and listed == {"1"})
                        if none_edge and not earlier_shrink:
                            ok = True
                elif d[0] == "stmt" and d[4]["k"] == "binop" and d[4]["op"] in ("Eq", "Ne", "Lt", "Le", "Gt", "Ge"):
                    # comparison of the length with a constant (what slice patterns compile to): `len == 0`, `len < 1`, `!(len > 0)` ..
                    def is_len(o, depth=0):
                        if o.get("k") not in ("copy", "move") or depth > 4:
                            return False
                        dd = defs.of(o["place"]["l"])
                        if len(dd) != 1:
                            return False
                        x = dd[0]
                        if x[0] == "call":
                            return str(callee(x[2])[2]) == "len" and x[2]["args"] and x[2]["args"][0].get("k") in ("copy", "move") \
                                and _reaches(b, defs, x[2]["args"][0]["place"]["l"], roots)
                        if x[4]["k"] == "unop" and x[4]["op"] == "PtrMetadata":
                            return x[4]["a"].get("k") in ("copy", "move") and _reaches(b, defs, x[4]["a"]["place"]["l"], roots)
                        if x[4]["k"] in ("use", "cast"):
                            return is_len(x[4]["op"], depth + 1)
                        return False

                    def const(o, depth=0):
                        if o.get("k") == "const":
                            try:
                                return int(o.get("i", o.get("bits")))
                            except (TypeError, ValueError):
                                return None
                        if o.get("k") in ("copy", "move") and depth < 4:
                            dd = defs.of(o["place"]["l"])
                            if len(dd) == 1 and dd[0][0] == "stmt" and dd[0][4]["k"] in ("use", "cast"):
                                return const(dd[0][4]["op"], depth + 1)
                        return None
                    a_, b_, op_ = d[4]["a"], d[4]["b"], d[4]["op"]
                    if is_len(b_) and const(a_) is not None:
                        a_, b_ = b_, a_
                        op_ = {"Lt": "Gt", "Gt": "Lt", "Le": "Ge", "Ge": "Le"}.get(op_, op_)
                    c_ = const(b_)
                    if is_len(a_) and c_ is not None:
                        truth = v == "1" or (v == "otherwise" and listed == {"0"})
                        falsity = v == "0" or (v == "otherwise" and listed == {"1"})
                        empty_when_true = (op_ == "Eq" and c_ == 0) or (op_ == "Lt" and c_ == 1) or (op_ == "Le" and c_ == 0)
                        empty_when_false = (op_ == "Ne" and c_ == 0) or (op_ == "Gt" and c_ == 0) or (op_ == "Ge" and c_ == 1)
                        if (truth and empty_when_true) or (falsity and empty_when_false):
                            ok = ok or not [x for x in shrink_blocks if x in dom.get(d[1], ())]
                elif d[0] == "call" and str(callee(d[2])[2]) == "is_empty" and d[2]["args"] and d[2]["args"][0].get("k") in ("copy", "move") \
                        and _reaches(b, defs, d[2]["args"][0]["place"]["l"], roots):
                    if v == "1" or (v == "otherwise" and listed == {"0"}):
                        ok = ok or not [x for x in shrink_blocks if x in dom.get(d[1], ())]
                elif (d[0] == "call" and str(callee(d[2])[2]) == "len" and d[2]["args"] and d[2]["args"][0].get("k") in ("copy", "move")
                      and _reaches(b, defs, d[2]["args"][0]["place"]["l"], roots)) or \
                        (d[0] == "stmt" and d[4]["k"] == "unop" and d[4]["op"] == "PtrMetadata" and d[4]["a"].get("k") in ("copy", "move")
                         and _reaches(b, defs, d[4]["a"]["place"]["l"], roots)):
                    if v == "0":
                        ok = ok or not [x for x in shrink_blocks if x in dom.get(d[1], ())]
            if ok:
                r.inst(iid, st.get("span", b.file_line()), "ok")
            else:
                r.inst(iid, st.get("span", b.file_line()), "violation")
                r.fail(iid, st.get("span", b.file_line()),
                       "%s raises EosError::NoPhaseSplit on a path that does not prove the list of unstable candidates empty (a catch-all arm "
                       "of a case analysis over the number of candidates): a feed for which the stability analysis found candidates is "
                       "answered with a no-phase-split error" % fn)
    r.floor("constructions of EosError::NoPhaseSplit", n, 1)
    r.exhaustive = True
    return [r]
