"""R1 DUAL-FLOW — in generic-dual code the real part of a dual value may steer control but may not
become (part of) a dual value again.

R1a explicit-flow taint:   sources = f64 obtained from dual-typed values (DualNum::re calls, `D::re` passed as a
                           function value, f64-typed field reads of num_dual ADTs); sinks = anything that produces or
                           mutates a dual-typed value from a tainted operand.
R1b guarded constant:      a branch steered by a tainted comparison one of whose arms yields a derivative-free
                           constant of dual type (Zero::zero(), One::one(), From::from(const)).
R1c signature:             a generic-dual function that returns a tainted non-dual numeric value."""
import re
import os
import tomllib

from cfg import Defs, reachable, dominators, strip_place
from facts import callee
from report import RuleResult

TABLE = os.path.join(os.path.dirname(os.path.dirname(os.path.abspath(__file__))), "tables", "r01.toml")
RE = "num_dual::DualNum::re"


def is_generic_dual(b):
    # a type parameter bounded by DualNum itself (not merely a closure type F: FnOnce() -> Dual64)
    return any(bd.startswith("num_dual::DualNum") for g in b["generics"] for bd in g["bounds"])


def fn_key(b):
    return b.d.get("parent") if b.is_closure() else b.path


class Taint:
    """flow-insensitive explicit-flow taint on the locals of one body"""

    def __init__(self, F, body, upvar_taint=frozenset(), param_taint=frozenset(), closure_ret=None):
        self.F = F
        self.b = body
        self.defs = Defs(body)
        self.upvar_taint = dict(upvar_taint) if isinstance(upvar_taint, dict) else {i: {"re"} for i in upvar_taint}
        self.param_taint = set(param_taint)
        self.closure_ret = closure_ret or {}     # closure def path -> returns tainted non-dual?
        self.tainted = {l: {"re"} for l in param_taint}     # local -> set of origin labels ("re" | "fn:<path>")
        self.fn_ret = {}         # local generic-dual fn path -> labels of its (non-dual) return value
        self.sinks = []          # dicts
        self.sources = []        # (span, kind)
        self.closure_args_tainted = {}   # closure path -> set(param indices tainted) (1-based locals >= 2)
        self.closure_upvars = {}         # closure path -> set(upvar idx tainted)

    # ---- helpers
    def dual_place(self, pl):
        return self.b.pty(pl)["dual"]

    def op_dual(self, op):
        t = self.b.opty(op)
        return bool(t and t["dual"])

    def place_labels(self, pl):
        b = self.b
        if self.dual_place(pl):
            # a dual-typed place is never "tainted"; but a non-dual field of a num_dual value is a source (handled below)
            return set()
        l = pl["l"]
        # s3: f64-typed field of a num_dual ADT
        for p in pl["p"]:
            if isinstance(p, dict) and "f" in p and p.get("o") and p["o"].startswith("num_dual::") and not b.ty(p["ty"])["dual"]:
                return {"re"}
        if l in self.tainted:
            return self.tainted[l]
        if b.is_closure() and l == 1:
            for p in pl["p"]:
                if isinstance(p, dict) and "f" in p:
                    return self.upvar_taint.get(p["f"], set())
        return set()

    def place_tainted(self, pl):
        return bool(self.place_labels(pl))

    def op_labels(self, op):
        if op.get("k") in ("copy", "move"):
            ty = self.b.pty(op["place"])
            if "closure:" in ty["k"]:
                return set()     # closure values are analysed as bodies (upvar taint), not as data
            return self.place_labels(op["place"])
        return set()

    def op_tainted(self, op):
        return bool(self.op_labels(op))

    def ref_bases(self, l, depth=0):
        """locals a reference-typed local may point into (through reborrows and calls returning borrows of arg 0)"""
        out = set()
        if depth > 8:
            return out
        for d in self.defs.of(l):
            if d[0] == "stmt":
                rv = d[4]
                if rv["k"] in ("ref", "rawptr"):
                    pl = rv["place"]
                    if "*" in pl["p"]:
                        out |= self.ref_bases(pl["l"], depth + 1)
                    else:
                        out.add(pl["l"])
                elif rv["k"] in ("use", "cast") and rv["op"].get("k") in ("copy", "move"):
                    out |= self.ref_bases(rv["op"]["place"]["l"], depth + 1)
            else:
                t = d[2]
                if t["args"] and t["args"][0].get("k") in ("copy", "move"):
                    out |= self.ref_bases(t["args"][0]["place"]["l"], depth + 1)
        if not self.defs.of(l):
            out.add(l)
        return out

    def rv_ops(self, rv):
        k = rv["k"]
        if k in ("use", "cast", "repeat"):
            return [rv["op"]]
        if k == "unop":
            return [rv["a"]]
        if k == "binop":
            return [rv["a"], rv["b"]]
        if k == "agg":
            return rv["ops"]
        if k in ("ref", "discr", "rawptr"):
            return [{"k": "copy", "place": rv["place"]}]
        return []

    def mark(self, l, labels=("re",)):
        cur = self.tainted.get(l)
        new = set(labels)
        if cur is None:
            self.tainted[l] = new
            return True
        if not new <= cur:
            cur |= new
            return True
        return False

    def mark_place(self, pl, labels):
        """taint the holder(s) written by a store to `pl` (through a deref: the pointee's root locals)"""
        ch = False
        if "*" in pl["p"]:
            for base in self.ref_bases(pl["l"]):
                if not self.b.lty(base)["dual"] or True:
                    ch |= self.mark(base, labels)
            ch |= self.mark(pl["l"], labels)
        else:
            ch |= self.mark(pl["l"], labels)
        return ch

    def run(self):
        b = self.b
        changed = True
        rounds = 0
        while changed and rounds < 50:
            changed = False
            rounds += 1
            self.sinks = []
            self.sources = []
            for bi, blk in enumerate(b.blocks):
                if blk["cleanup"]:
                    continue
                for st in blk["stmts"]:
                    pl, rv = st["place"], st["rv"]
                    if rv["k"] == "binop" and rv.get("cmp"):
                        continue
                    ops = self.rv_ops(rv)
                    labels = set()
                    for o in ops:
                        labels |= self.op_labels(o)
                    if not labels:
                        continue
                    dst_ty = b.pty(pl)
                    if dst_ty["k"] == "bool" or "closure:" in dst_ty["k"]:
                        continue
                    if dst_ty["dual"]:
                        if st.get("exp") and rv["k"] == "ref":
                            continue
                        self.sinks.append({"kind": "store", "what": rv["k"], "where": st["span"], "bi": bi, "labels": set(labels)})
                    else:
                        if self.mark_place(pl, labels):
                            changed = True
                t = blk["term"]
                if t["k"] != "call":
                    continue
                p, tr, name = callee(t)
                f = t["fn"]
                dest = t["dest"]
                dst_ty = b.pty(dest)
                args = t["args"]
                # --- sources
                is_src = False
                if p == RE:
                    is_src = True
                    self.sources.append((t["span"], "re()"))
                for a in args:
                    if a.get("k") == "const" and "fn" in a and a["fn"].get("path") == RE:
                        is_src = True
                        self.sources.append((t["span"], "D::re as function value"))
                # closures passed as args
                clos = []
                for a in args:
                    ty = b.opty(a)
                    if ty and ty["k"].startswith("closure:"):
                        clos.append(ty["k"][len("closure:"):])
                    elif ty and ty["k"].startswith("ref:closure:"):
                        clos.append(ty["k"][len("ref:closure:"):])
                    elif ty and ty["k"].startswith("refmut:closure:"):
                        clos.append(ty["k"][len("refmut:closure:"):])
                clo_labels = set()
                for c in clos:
                    clo_labels |= set(self.closure_ret.get(c) or ())
                arg_labels = set()
                for a in args:
                    arg_labels |= self.op_labels(a)
                t_args = bool(arg_labels)
                if clos and t_args:
                    for c in clos:
                        self.closure_args_tainted.setdefault(c, set()).update(arg_labels)
                if dst_ty["k"] == "bool":
                    continue
                if tr and tr.startswith("std::fmt") or (p.startswith("std::fmt") or p.startswith("core::fmt")):
                    continue
                if name == "from_residual" and tr == "std::ops::FromResidual":
                    continue      # `?`: only the error value crosses
                # local generic-dual function returning a real-part-derived number
                fr = self.fn_ret.get(p)
                if fr and not dst_ty["dual"]:
                    if self.mark(dest["l"], {"fn:" + p}):
                        changed = True
                if is_src or clo_labels:
                    if not dst_ty["dual"]:
                        if self.mark(dest["l"], {"re"} if is_src else clo_labels):
                            changed = True
                    continue
                if not t_args:
                    continue
                if dst_ty["dual"]:
                    self.sinks.append({"kind": "call", "what": name or p, "callee": p, "where": t["span"], "bi": bi, "labels": set(arg_labels)})
                else:
                    if dst_ty["k"] not in ("unit", "never"):
                        if self.mark(dest["l"], arg_labels):
                            changed = True
                # &mut arguments are modified by a call that sees tainted data
                for a in args:
                    if a.get("k") not in ("copy", "move"):
                        continue
                    ty = b.opty(a)
                    if ty and ty["k"].startswith("refmut:"):
                        if ty["dual"]:
                            if not self.op_tainted(a):
                                self.sinks.append({"kind": "mutate", "what": name or p, "callee": p, "where": t["span"], "bi": bi, "labels": set(arg_labels)})
                        else:
                            # the local(s) the &mut points into are modified by a call that sees tainted data
                            for tl in self.ref_bases(a["place"]["l"]):
                                if not b.lty(tl)["dual"] and self.mark(tl, arg_labels):
                                    changed = True
        # closure upvar taint at creation sites
        for bi, si, st in b.stmts():
            rv = st["rv"]
            if rv["k"] == "agg" and rv["kind"].get("t") == "closure":
                ups = {}
                for i, o in enumerate(rv["ops"]):
                    lb = set(self.op_labels(o))
                    if o.get("k") in ("copy", "move"):
                        # a reference to a tainted local
                        for d in self.defs.of(o["place"]["l"]):
                            if d[0] == "stmt" and d[4]["k"] == "ref":
                                lb |= self.place_labels(d[4]["place"])
                    if lb:
                        ups[i] = lb
                cu = self.closure_upvars.setdefault(rv["kind"]["def"], {})
                for i, lb in ups.items():
                    cu.setdefault(i, set()).update(lb)
        ret_ty = b.lty(0)
        self.ret_labels = set(self.tainted.get(0, ())) if not ret_ty["dual"] else set()
        self.ret_tainted = bool(self.ret_labels)
        return self


def analyse_all(F):
    """interprocedural driver: parents first, closures with upvar/param taint, iterate summaries"""
    gd = [b for b in F.bodies if is_generic_dual(b)]
    by_path = {b.path: b for b in gd}
    closure_ret = {}
    fn_ret = {}
    upv = {}
    par = {}
    results = {}
    for _round in range(6):
        changed = False
        for b in gd:
            pt = set()
            ta = Taint(F, b, upv.get(b.path, {}), (), closure_ret)
            if b.is_closure() and par.get(b.path):
                # all non-dual parameters of the closure are elements of tainted data
                for l in range(2, b["arg_count"] + 1):
                    if not b.lty(l)["dual"]:
                        ta.tainted[l] = set(par[b.path])
            ta.fn_ret = fn_ret
            ta.run()
            results[b.path] = ta
            if b.is_closure():
                if set(closure_ret.get(b.path) or ()) != ta.ret_labels:
                    closure_ret[b.path] = set(ta.ret_labels)
                    changed = True
            else:
                has_dual_param = any(b.lty(l)["dual"] for l in range(1, b["arg_count"] + 1))
                if has_dual_param and ta.ret_labels and b.lty(0)["f64"]:
                    if fn_ret.get(b.path) != ta.ret_labels:
                        fn_ret[b.path] = set(ta.ret_labels)
                        changed = True
            for c, ups in ta.closure_upvars.items():
                cu = upv.setdefault(c, {})
                for i, lb in ups.items():
                    if not lb <= cu.get(i, set()):
                        cu.setdefault(i, set()).update(lb)
                        changed = True
            for c, x in ta.closure_args_tainted.items():
                if not set(x) <= par.get(c, set()):
                    par.setdefault(c, set()).update(x)
                    changed = True
        if not changed:
            break
    return gd, results


DERIV_FREE = {"zero", "one"}


def guarded_constants(F, b, ta):
    """R1b: switch steered by a comparison with a tainted operand; an arm that produces a derivative-free dual constant"""
    out = []
    defs = ta.defs
    dom = None
    for bi, blk in enumerate(b.blocks):
        t = blk["term"]
        if t["k"] != "switch" or t["op"]["k"] not in ("copy", "move"):
            continue
        if b.pty(t["op"]["place"])["k"] != "bool":
            continue
        # is the bool a comparison over a tainted operand?
        steered = False
        work = [t["op"]["place"]["l"]]
        seen = set()
        while work:
            l = work.pop()
            if l in seen:
                continue
            seen.add(l)
            for d in defs.of(l):
                if d[0] == "stmt":
                    rv = d[4]
                    if rv["k"] == "binop" and rv.get("cmp"):
                        if ta.op_tainted(rv["a"]) or ta.op_tainted(rv["b"]):
                            steered = True
                    elif rv["k"] == "unop" and rv["a"].get("k") in ("copy", "move"):
                        work.append(rv["a"]["place"]["l"])
                    elif rv["k"] == "use" and rv["op"].get("k") in ("copy", "move"):
                        work.append(rv["op"]["place"]["l"])
                    elif rv["k"] == "binop" and rv["op"] in ("BitAnd", "BitOr"):
                        for o in (rv["a"], rv["b"]):
                            if o.get("k") in ("copy", "move"):
                                work.append(o["place"]["l"])
                else:
                    tt = d[2]
                    p, tr, name = callee(tt)
                    if tr in ("std::cmp::PartialOrd", "std::cmp::PartialEq") or name in ("is_nan", "is_finite", "is_sign_negative", "is_sign_positive", "is_zero"):
                        if any(ta.op_tainted(a) for a in tt["args"]):
                            steered = True
                        else:
                            # refs to tainted temporaries
                            for a in tt["args"]:
                                if a.get("k") in ("copy", "move"):
                                    for d2 in defs.of(a["place"]["l"]):
                                        if d2[0] == "stmt" and d2[4]["k"] == "ref" and ta.place_tainted(d2[4]["place"]):
                                            steered = True
        if not steered:
            continue
        if dom is None:
            dom = dominators(b)
        back = {(u, v) for u, ss in enumerate(b.succs()) for v in ss if u in dom and v in dom[u]}
        succs = b.succ(bi)
        regions = []
        for s in succs:
            others = set()
            for o in succs:
                if o != s:
                    others |= reachable(b, back, start=o)
            regions.append(reachable(b, back, start=s) - others)
        consts = []
        for reg in regions:
            found = []
            for rb in sorted(reg):
                tt = b.blocks[rb]["term"]
                if tt["k"] == "call":
                    p, tr, name = callee(tt)
                    dty = b.pty(tt["dest"])
                    if not dty["dual"]:
                        continue
                    if name in DERIV_FREE and tr in ("num_traits::Zero", "num_traits::One"):
                        found.append((name + "()", tt["span"]))
                    elif name == "from" and tr == "std::convert::From" and tt["args"] and tt["args"][0].get("k") == "const":
                        found.append(("from(const)", tt["span"]))
                    elif name in ("from_re",) and tt["args"] and tt["args"][0].get("k") == "const":
                        found.append(("from_re(const)", tt["span"]))
            consts.append(found)
        if any(consts):
            for found in consts:
                for what, span in found:
                    out.append({"where": span, "what": what, "switch": t["span"]})
    return out


def steered_switches(F, b, ta):
    """R1d: every switch steered by the real part of a dual value whose arms define dual values differently
    (piecewise definitions).  returns list of dicts {where, desc, arms}"""
    out = []
    defs = ta.defs
    dom = None
    for bi, blk in enumerate(b.blocks):
        t = blk["term"]
        if t["k"] != "switch" or t["op"]["k"] not in ("copy", "move"):
            continue
        if b.pty(t["op"]["place"])["k"] != "bool":
            continue
        steered = False
        desc = []
        work = [t["op"]["place"]["l"]]
        seen = set()
        while work:
            l = work.pop()
            if l in seen:
                continue
            seen.add(l)
            for d in defs.of(l):
                if d[0] == "stmt":
                    rv = d[4]
                    if rv["k"] == "binop" and rv.get("cmp"):
                        if ta.op_tainted(rv["a"]) or ta.op_tainted(rv["b"]):
                            steered = True
                            c = rv["a"].get("f") or rv["b"].get("f")
                            desc.append("%s:%s" % (rv["op"], c if c is not None else "var"))
                    elif rv["k"] == "unop" and rv["a"].get("k") in ("copy", "move"):
                        work.append(rv["a"]["place"]["l"])
                    elif rv["k"] == "use" and rv["op"].get("k") in ("copy", "move"):
                        work.append(rv["op"]["place"]["l"])
                    elif rv["k"] == "binop" and rv["op"] in ("BitAnd", "BitOr"):
                        for o in (rv["a"], rv["b"]):
                            if o.get("k") in ("copy", "move"):
                                work.append(o["place"]["l"])
                else:
                    tt = d[2]
                    p, tr, name = callee(tt)
                    if tr in ("std::cmp::PartialOrd", "std::cmp::PartialEq") or name in ("is_nan", "is_finite", "is_infinite", "is_sign_negative", "is_sign_positive", "is_zero"):
                        tainted = any(ta.op_tainted(a) for a in tt["args"])
                        for a in tt["args"]:
                            if a.get("k") in ("copy", "move"):
                                for d2 in defs.of(a["place"]["l"]):
                                    if d2[0] == "stmt" and d2[4]["k"] == "ref" and ta.place_tainted(d2[4]["place"]):
                                        tainted = True
                        if tainted:
                            steered = True
                            desc.append(name)
        if not steered:
            continue
        if dom is None:
            dom = dominators(b)
        back = {(u, v) for u, ss in enumerate(b.succs()) for v in ss if u in dom and v in dom[u]}
        succs = b.succ(bi)
        arms = []
        for s_ in succs:
            others = set()
            for o in succs:
                if o != s_:
                    others |= reachable(b, back, start=o)
            reg = reachable(b, back, start=s_) - others
            duals = []
            for rb in sorted(reg):
                for st in b.blocks[rb]["stmts"]:
                    if b.pty(st["place"])["dual"] and st["rv"]["k"] != "ref":
                        duals.append("assign")
                tt = b.blocks[rb]["term"]
                if tt["k"] == "call":
                    nm = callee(tt)[2] or ""
                    if b.pty(tt["dest"])["dual"] or nm.endswith("_assign"):
                        duals.append(nm)
            arms.append(duals)
        if any(arms):
            out.append({"where": t["span"], "desc": "/".join(sorted(set(desc))), "arms": [a[:5] for a in arms]})
    return out


def run(F, sel=None):
    with open(TABLE, "rb") as fh:
        tab = tomllib.load(fh)
    ex = {"R1a": {}, "R1b": {}, "R1c": {}}
    for e in tab.get("exempt", []):
        ex[e["rule"]][e["fn"]] = e
    used = set()
    gd, results = analyse_all(F)
    ra = RuleResult("R1a", "DUAL-FLOW: no real part of a dual value flows back into a dual value")
    rb = RuleResult("R1b", "DUAL-FLOW: no tainted guard replaces a dual result by a derivative-free constant")
    rc = RuleResult("R1c", "DUAL-FLOW: no generic-dual function returns a real-part-derived number")
    n_src = 0
    n_fnval = 0

    _callers = {}

    def callers_of(fk):
        """functions calling a non-public function (a closure that was turned into a private helper keeps the review of the
        function it was extracted from)"""
        if not _callers:
            for b_ in F.bodies:
                src = fn_key(b_)
                for _bi, t_ in b_.calls():
                    cb_ = F.callee_body(t_)
                    if cb_ is not None and not cb_.is_closure():
                        _callers.setdefault(cb_.path, set()).add(src)
                    for a_ in t_["args"]:          # a function item handed on as a value: `mapv(helper)`
                        if a_.get("k") == "const" and "fn" in a_ and a_["fn"].get("path"):
                            _callers.setdefault(a_["fn"]["path"], set()).add(src)
        body_ = F.body(fk)
        if body_ is None or body_.get("vis") == "Public":
            return ()
        return sorted(_callers.get(fk, ()))

    def exempt_for(rule, fk):
        for fn, e in ex[rule].items():
            if fk.endswith(fn):
                used.add((rule, fn))
                return e
        for c in callers_of(fk):
            for fn, e in ex[rule].items():
                if c.endswith(fn):
                    used.add((rule, fn))
                    return e
        return None

    # functions reported (non-exempt) by R1c: sinks whose taint comes *only* from calls to them are covered by that report
    r1c_reported = set()
    for b in gd:
        if b.is_closure():
            continue
        ta = results[b.path]
        ret = b.lty(0)
        if any(b.lty(l)["dual"] for l in range(1, b["arg_count"] + 1)) and not ret["dual"] and ret["f64"] and ta.ret_tainted:
            if not any(b.path.endswith(fn) for fn in ex["R1c"]):
                r1c_reported.add(b.path)
    per_fn = {}
    for b in gd:
        ta = results[b.path]
        fk = fn_key(b)
        for sp, kind in ta.sources:
            if kind == "re()":
                n_src += 1
            else:
                n_fnval += 1
        per_fn.setdefault(fk, {"sinks": [], "sources": [], "b": b})
        per_fn[fk]["sinks"].extend(ta.sinks)
        per_fn[fk]["sources"].extend(ta.sources)
    for fk, d in sorted(per_fn.items()):
        if sel and not sel(fk):
            continue
        if not d["sources"] and not d["sinks"]:
            continue
        iid = "flow|%s" % fk
        if not d["sinks"]:
            ra.inst(iid, d["sources"][0][0] if d["sources"] else "-", "ok", sources=len(d["sources"]))
            continue
        # group sinks by (kind, what); sinks fed only by R1c-reported functions are covered there
        groups = {}
        covered = 0
        for s in d["sinks"]:
            lb = s.get("labels", {"re"})
            if "re" not in lb and all(x.startswith("fn:") and x[3:] in r1c_reported for x in lb):
                covered += 1
                continue
            groups.setdefault((s["kind"], s["what"]), []).append(s)
        if covered and not groups:
            ra.inst(iid, d["sinks"][0]["where"], "ok", note="all %d sinks are fed only by functions reported under R1c" % covered)
            continue
        e = exempt_for("R1a", fk)
        for (kind, what), ss in sorted(groups.items()):
            sid = "%s|%s:%s" % (fk, kind, what)
            delegated = False
            if e and kind == "call" and "call:mapv" in (e.get("sinks") or ()):
                # the reviewed lift (x.mapv(D::from), legal together with R2's sweeps) moved, with the sweeps, into a private helper of
                # the same impl that only this function calls: R2 judges the helper
                hb_ = F.body(fk.rsplit("::", 1)[0] + "::" + what)
                if hb_ is not None and hb_.get("vis") != "Public" and set(callers_of(hb_.path)) <= {fk} \
                        and any(str(callee(t_)[2]) == "mapv" and (hb_.lty(t_["dest"]["l"]) or {}).get("dual") for _bi, t_ in hb_.calls()):
                    delegated = True
            if e and (delegated or not e.get("sinks") or ("%s:%s" % (kind, what)) in e["sinks"]):
                ra.inst("flow|" + sid, ss[0]["where"], "exempt", reason=e["reason"], sites=len(ss))
            else:
                ra.inst("flow|" + sid, ss[0]["where"], "violation", sites=[s["where"] for s in ss])
                ra.fail(sid, ss[0]["where"],
                        "%s: a value derived from the real part of a dual number (sources: %s) flows into a dual-typed value via %s `%s` at %s — "
                        "the derivative information of that input is discarded" % (
                            fk, sorted({x[0] for x in d["sources"]})[:4], kind, what, [s["where"] for s in ss][:4]))
    ra.floor("DualNum::re call sites in generic-dual bodies", n_src, tab["floors"]["re_calls"])
    ra.floor("D::re function-value sites", n_fnval, tab["floors"]["re_fnvals"])
    ra.floor("generic-dual bodies scanned", len(gd), tab["floors"]["bodies"])

    # ---- R1b
    n_guard = 0
    for b in gd:
        ta = results[b.path]
        fk = fn_key(b)
        if sel and not sel(fk):
            continue
        gs = guarded_constants(F, b, ta)
        if not gs:
            continue
        n_guard += len(gs)
        e = exempt_for("R1b", fk)
        whats = sorted({g["what"] for g in gs})
        iid = "guard|%s" % fk
        if e:
            rb.inst(iid, gs[0]["where"], "exempt", reason=e["reason"], consts=whats)
        else:
            rb.inst(iid, gs[0]["where"], "violation", consts=whats)
            rb.fail("%s|guarded-const" % fk, gs[0]["where"],
                    "%s: a branch steered by the real part of a dual value (%s) yields the derivative-free constant %s on one arm; "
                    "on the guarded region every derivative of this term is forced to that of the constant" % (fk, gs[0]["switch"], whats))
    rb.floor("guarded derivative-free constants examined", n_guard, tab["floors"]["guards"])

    # ---- R1c
    n_c = 0
    for b in gd:
        if b.is_closure():
            continue
        if sel and not sel(b.path):
            continue
        ta = results[b.path]
        ret = b.lty(0)
        has_dual_param = any(b.lty(l)["dual"] for l in range(1, b["arg_count"] + 1))
        if not has_dual_param or ret["dual"] or not ret["f64"]:
            continue
        n_c += 1
        iid = "sig|%s" % b.path
        if ta.ret_tainted:
            e = exempt_for("R1c", b.path)
            if e:
                rc.inst(iid, b.file_line(), "exempt", reason=e["reason"])
            else:
                rc.inst(iid, b.file_line(), "violation", ret=ret["s"][:60])
                rc.fail("%s|returns-real-part" % b.path, b.file_line(),
                        "%s takes a dual-typed argument but returns `%s` computed from its real part: every caller loses the derivative "
                        "with respect to that argument" % (b.path, ret["s"][:80]))
        else:
            rc.inst(iid, b.file_line(), "ok", ret=ret["s"][:60])
    # ---- R1d: census of piecewise (real-part-steered) definitions of dual values
    rd = RuleResult("R1d", "DUAL-FLOW: every real-part-steered piecewise definition of a dual value is reviewed")
    reviewed = {}
    for e in tab.get("switch", []):
        reviewed.setdefault(e["fn"], []).append(e)
    n_sw = 0
    matched_entries = set()
    guard_fns = {i["id"][len("guard|"):] for i in rb.instances}
    for b in gd:
        fk = fn_key(b)
        if sel and not sel(fk):
            continue
        sws = steered_switches(F, b, results[b.path])
        cands = [e for fn, es in reviewed.items() if fk.endswith(fn) for e in es]
        inherited = False
        if not cands and sws:
            cands = [e for c in callers_of(fk) for fn, es in reviewed.items() if c.endswith(fn) for e in es]
            inherited = True
        taken = set()
        hits = {}
        for k_, sw in enumerate(sws):           # exact descriptor first
            for j_, e in enumerate(cands):
                if j_ not in taken and e["desc"] == sw["desc"]:
                    hits[k_] = e
                    taken.add(j_)
                    break
        def _polar(desc):
            # `x == c {A} else {B}` and `x != c {B} else {A}` are the same piecewise definition (likewise < / >=, <= / >)
            return re.sub(r"^(Eq|Ne)\b", "EqNe", re.sub(r"^(Lt|Ge)\b", "LtGe", re.sub(r"^(Le|Gt)\b", "LeGt", desc)))
        for k_, sw in enumerate(sws):           # the same comparison written with the opposite polarity and swapped branches
            if k_ in hits:
                continue
            for j_, e in enumerate(cands):
                if j_ not in taken and _polar(e["desc"]) == _polar(sw["desc"]):
                    hits[k_] = e
                    taken.add(j_)
                    break
        for k_, sw in enumerate(sws):           # a respelled comparison (no numeric constant visible: `partial_cmp`, `==` on an
            if k_ in hits or re.search(r":[-0-9]", sw["desc"]):     # Ordering) may take a reviewed entry that is otherwise unmatched
                continue
            for j_, e in enumerate(cands):
                if j_ not in taken:
                    hits[k_] = e
                    taken.add(j_)
                    break
        for k_, e_ in hits.items():
            matched_entries.add((e_["fn"], e_["desc"]))
            if True:
                # one switch stands for every reviewed entry it could be matched to: a shared helper carries the switch of all
                # functions that call it, and a def-path suffix may match two entries (`gc_pcsaft::..` ends with `pcsaft::..`)
                for e2 in cands:
                    if _polar(e2["desc"]) == _polar(e_["desc"]):
                        matched_entries.add((e2["fn"], e2["desc"]))
        for k_, sw in enumerate(sws):
            n_sw += 1
            hit = hits.get(k_)
            iid = "switch|%s|%s" % (fk, sw["desc"])
            if hit and hit.get("arm_must_call") and not any(hit["arm_must_call"] in arm for arm in sw["arms"]):
                rd.inst(iid, sw["where"], "violation", arms=sw["arms"])
                rd.fail("%s|switch|%s|arm-lost-%s" % (fk, sw["desc"], hit["arm_must_call"]), sw["where"],
                        "%s: the replacement arm of the reviewed piecewise definition (%s) no longer contains `%s` (%s)" % (fk, sw["desc"], hit["arm_must_call"], hit["reason"][:120]))
            elif hit:
                rd.inst(iid, sw["where"], "exempt", reason=hit["reason"])
            else:
                rd.inst(iid, sw["where"], "violation", arms=sw["arms"])
                rd.fail("%s|switch|%s" % (fk, sw["desc"]), sw["where"],
                        "%s: a dual-valued expression is defined piecewise, the piece being selected by the real part of a dual value (%s): unless "
                        "both pieces agree to the order of the derivatives taken (first to third for state properties, second/third density derivative "
                        "for virial coefficients at zero density) the derivatives at the switching point are those of the wrong piece — not reviewed"
                        % (fk, sw["desc"]))
    # two-sided: a reviewed piecewise definition that *repairs* a singular expression (it names the call its replacement arm must
    # contain) may not silently disappear — `phi2^2 / (phi2 - phi3 - EPSILON)` has no 0/0 any more and no derivatives either
    present = {fn_key(b) for b in gd}
    for fn, es in reviewed.items():
        for e in es:
            if not e.get("arm_must_call") and not e.get("required"):
                continue
            if sel and not sel(fn):
                continue
            if not any(p_.endswith(fn) for p_ in present):
                continue
            if (e["fn"], e["desc"]) in matched_entries:
                continue
            rd.inst("switch|%s|%s|removed" % (fn, e["desc"]), "-", "violation")
            rd.fail("%s|switch|%s|removed" % (fn, e["desc"]), "-",
                    "%s: the reviewed piecewise definition (%s: %s) is gone — the singular expression it replaced is evaluated (or regularised "
                    "in another, unreviewed way) at the point where the replacement applied" % (fn, e["desc"], e["reason"][:120]))
    rd.floor("piecewise definitions examined", n_sw, tab["floors"].get("switches", 1))
    rd.exhaustive = True
    for rule in ex:
        for fn in ex[rule]:
            if (rule, fn) not in used:
                ra.notes.append("exemption not matched on this tree/config: %s %s" % (rule, fn))
    for r in (ra, rb, rc):
        r.exhaustive = True
    ra.blind.append("a wrong formula that keeps all dual parts is invisible (numerical)")
    ra.blind.append("implicit (control) flows from real parts are the accepted idiom and not tracked")
    return [ra, rb, rc, rd]
