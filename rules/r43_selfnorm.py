"""R43 SELF-NORMALISE — an array divided by the sum of an array is divided by its *own* sum.

Compositions are formed by `x / x.sum()` all over the library (mole fractions from amounts, trial-phase compositions from
K-factor weighted feeds, segment fractions).  `a / b.sum()` with two different variables type-checks equally well and is the
wrong-variable slip of this idiom (the trial composition keeps the feed's values and only borrows the normalisation
constant).  Rule: for every division of an ndarray array whose divisor is directly the `sum()` of an array: when both the
dividend and the summed array are plain variables (parameters, named locals, fields), they must be the same one.  Scaled
normalisations (`x * n / x.sum()`, `(x1 * k) / (k * x1).sum()`) — the dividend is an expression — are not judged."""
from cfg import Defs
from facts import callee
from report import RuleResult

THROUGH = ("deref", "clone", "borrow", "as_ref", "view", "to_owned", "iter", "into_iter", "into_value", "to_reduced")


def _root(b, defs, op, depth=0):
    if op.get("k") not in ("copy", "move") or depth > 8:
        return None
    pl = op["place"]
    l = pl["l"]
    flds = [p.get("n") or str(p.get("f")) for p in pl["p"] if isinstance(p, dict) and "f" in p]
    nm = b.lname(l)
    if (nm and nm not in ("val", "residual")) or 1 <= l <= b["arg_count"]:
        return "var:%d%s" % (l, "".join("." + f for f in flds))
    ds = defs.of(l)
    if len(ds) != 1:
        return None
    d = ds[0]
    if d[0] == "call":
        if callee(d[2])[2] in THROUGH and d[2]["args"]:
            return _root(b, defs, d[2]["args"][0], depth + 1)
        return None
    rv = d[4]
    if rv["k"] in ("use", "cast"):
        r = _root(b, defs, rv["op"], depth + 1)
        return (r + "".join("." + f for f in flds)) if r else None
    if rv["k"] == "ref":
        return _root(b, defs, {"k": "copy", "place": rv["place"]}, depth + 1)
    return None


def run(F):
    r = RuleResult("R43", "SELF-NORMALISE: an array normalised by a sum is normalised by its own sum")
    n = 0
    for b in F.bodies:
        if "::tests::" in b.path or "::test::" in b.path:
            continue
        defs = None
        for bi, t in b.calls():
            if callee(t)[2] != "div" or len(t["args"]) != 2:
                continue
            d = t["args"][1]
            if d.get("k") not in ("copy", "move") or "ndarray" not in ((b.opty(t["args"][0]) or {}).get("s") or ""):
                continue
            defs = defs or Defs(b)
            ds = defs.of(d["place"]["l"])
            if not (len(ds) == 1 and ds[0][0] == "call" and callee(ds[0][2])[2] == "sum" and ds[0][2]["args"]):
                continue
            A = _root(b, defs, t["args"][0])
            B = _root(b, defs, ds[0][2]["args"][0])
            if A is None or B is None:
                continue
            n += 1
            fn = b.path.split("::{closure")[0]
            iid = "norm|%s@%s" % (fn, t["span"].rsplit(":", 2)[-2])
            if A == B:
                r.inst(iid, t["span"], "ok")
            else:
                na = b.lname(int(A[4:].split(".")[0])) or A
                nb = b.lname(int(B[4:].split(".")[0])) or B
                r.inst(iid, t["span"], "violation")
                r.fail("norm|%s|%s/%s" % (fn, na, nb), t["span"],
                       "%s: `%s / %s.sum()` — the array is divided by the sum of a *different* array: the result keeps the un-normalised values of `%s` "
                       "and does not sum to one" % (fn, na, nb, na))
    r.floor("self-normalisations examined", n, 12)
    r.exhaustive = True
    return [r]
