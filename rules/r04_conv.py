"""R4 CONV — a success verdict of a solver is cut off from the entry by convergence evidence.

Rule: delete the *evidence edges* from the CFG of a verdict function; no block that constructs the
success shape into the return place may remain reachable from the entry.

Evidence edge = true-edge of `a < b` / `a <= b` (or false-edge of > / >=; MIR BinOp or PartialOrd call)
whose greater side is tolerance-valued and whose smaller side is not; closed under evidence predicates
(local fns whose every `true` is cut off by evidence) and evidence flags."""
import tomllib
import os

from cfg import Defs, reachable, path_to, strip_place
from facts import callee
from report import RuleResult

HERE = os.path.dirname(os.path.abspath(__file__))
TABLE = os.path.join(os.path.dirname(HERE), "tables", "r04.toml")

TOL_OWNERS = ("SolverOptions", "PicardIteration", "AndersonMixing", "Newton", "Association")
# calls that propagate "tolerance-valued" from any argument to the result
PASS_NAMES = {"mul", "div", "add", "sub", "max", "min", "abs", "to_reduced", "into_value", "from_reduced",
              "sqrt", "clone", "deref", "neg", "unwrap_or", "convert_into", "convert_to", "borrow", "into", "from",
              "powi", "mul_add"}
CMP_TRAIT = "std::cmp::PartialOrd"


def fconst(op):
    if op.get("k") == "const" and "f" in op:
        try:
            return float(op["f"])
        except ValueError:
            return None
    return None


class Analysis:
    """per-facts interprocedural state (memoised)"""

    def __init__(self, F):
        self.F = F
        self.tolsets = {}
        self.param_memo = {}
        self.pred_memo = {}
        self.callsites = None
        self.closure_sites = None
        self.defs = {}

    # -------------------------------------------------- indexes
    def index(self):
        if self.callsites is not None:
            return
        self.callsites = {}
        self.closure_sites = {}
        for b in self.F.bodies:
            for bi, t in b.calls():
                p, _, _ = callee(t)
                self.callsites.setdefault(p, []).append((b, bi, t))
            for bi, si, st in b.stmts():
                rv = st["rv"]
                if rv["k"] == "agg" and rv["kind"].get("t") == "closure":
                    self.closure_sites.setdefault(rv["kind"]["def"], []).append((b, bi, si, rv))

    def D(self, body):
        k = id(body)
        if k not in self.defs:
            self.defs[k] = Defs(body)
        return self.defs[k]

    # -------------------------------------------------- tolerance-valued
    def tolset(self, body, given_params=None):
        """greatest fixpoint: locals every whole assignment of which is tolerance-valued.
        `given_params`: context-sensitive variant for helper summaries — the parameters that receive a tolerance at the
        call site under consideration (instead of "at every call site")"""
        k = body.path if given_params is None else (body.path, frozenset(given_params))
        if k in self.tolsets:
            return self.tolsets[k]
        self.tolsets[k] = set()     # recursion guard (pessimistic)
        defs = self.D(body)
        cand = set()
        nargs = body["arg_count"]
        for l in range(len(body.locals)):
            if defs.of(l) and not (1 <= l <= nargs):
                cand.add(l)
        # params (a `mut` parameter has an implicit initial definition: the argument)
        for a in range(1, nargs + 1):
            if (a in given_params) if given_params is not None else self.param_tol(body, a):
                cand.add(a)
        changed = True
        while changed:
            changed = False
            for l in sorted(cand):
                ds = defs.of(l)
                if not ds:
                    continue       # tolerance parameter
                ok = True
                for d in ds:
                    if d[0] == "stmt":
                        place, rv = d[3], d[4]
                        if [p for p in place["p"] if p != "*"]:
                            ok = False   # partial assignment: be conservative
                            break
                        if not self.rv_tol(body, rv, cand):
                            ok = False
                            break
                    else:
                        t = d[2]
                        if not self.call_tol(body, t, cand):
                            ok = False
                            break
                if not ok:
                    cand.discard(l)
                    changed = True
        self.tolsets[k] = cand
        return cand

    def op_tol(self, body, op, cur):
        k = op.get("k")
        if k == "const":
            f = fconst(op)
            return f is not None and 0.0 < f <= 1e-3
        if k in ("copy", "move"):
            return self.place_tol(body, op["place"], cur)
        return False

    def place_tol(self, body, place, cur):
        l, projs = strip_place(place)
        for p in projs:
            if p[0] == "f" and p[2] == "tol":
                # field identity: owner checked through the projection record
                for q in place["p"]:
                    if isinstance(q, dict) and q.get("n") == "tol" and q.get("o") and q["o"].split("::")[-1] in TOL_OWNERS:
                        return True
                    if isinstance(q, dict) and q.get("n") == "tol" and q.get("o") and self.field_tol(q["o"]):
                        return True
        if not projs:
            return l in cur
        if l in cur and all(p[0] in ("dc", "f") for p in projs) and (body.lty(l) or {}).get("s") == "std::option::Option<f64>":
            return True          # `Some(x)` payload of a tolerance-valued Option
        # closure upvar
        if body.is_closure() and l == 1 and projs[0][0] == "f" and len(projs) == 1:
            return self.upvar_tol(body, projs[0][1])
        # (max_iter, tol, verbosity) = options.unwrap_or(..)
        if projs[0][0] == "f" and len(projs) == 1:
            for d in self.D(body).of(l):
                if d[0] == "call":
                    p, _, name = callee(d[2])
                    if p.endswith("SolverOptions::unwrap_or") and projs[0][1] == 1:
                        return True
                elif d[0] == "stmt" and d[4]["k"] == "agg" and d[4]["kind"].get("t") == "tuple" and not d[3]["p"]:
                    ops = d[4]["ops"]
                    if projs[0][1] < len(ops) and self.op_tol(body, ops[projs[0][1]], cur):
                        return True
        return False

    def field_tol(self, owner):
        """a private record of the library with a field `tol` (`FlashSettings { max_iter, tol, verbosity }`): the field is tolerance-valued
        if every construction of the record in the library assigns it a tolerance-valued operand"""
        k = ("field", owner)
        if k in self.param_memo:
            return self.param_memo[k]
        self.param_memo[k] = False
        if owner.split("::")[0] not in ("feos_core", "feos_dft", "feos"):
            return False
        n_sites, ok = 0, True
        for b in self.F.bodies:
            for bi, si, st in b.stmts():
                rv = st["rv"]
                if rv["k"] == "agg" and rv["kind"].get("t") == "adt" and rv["kind"].get("adt") == owner and "tol" in (rv["kind"].get("fields") or []):
                    n_sites += 1
                    op = rv["ops"][rv["kind"]["fields"].index("tol")]
                    if not self.op_tol(b, op, self.tolset(b)):
                        ok = False
        self.param_memo[k] = bool(n_sites) and ok
        return self.param_memo[k]

    def upvar_tol(self, body, idx):
        self.index()
        sites = self.closure_sites.get(body.path, [])
        if not sites:
            return False
        for (pb, bi, si, rv) in sites:
            ops = rv["ops"]
            if idx >= len(ops):
                return False
            cur = self.tolset(pb)
            if not self.op_tol(pb, ops[idx], cur):
                return False
        return True

    def rv_tol(self, body, rv, cur):
        k = rv["k"]
        if k == "use":
            return self.op_tol(body, rv["op"], cur)
        if k == "ref":
            return self.place_tol(body, rv["place"], cur)
        if k == "cast":
            return self.op_tol(body, rv["op"], cur)
        if k == "binop" and rv["op"] in ("Add", "Sub", "Mul", "Div", "AddWithOverflow", "SubWithOverflow", "MulWithOverflow"):
            ta = self.op_tol(body, rv["a"], cur)
            tb = self.op_tol(body, rv["b"], cur)
            if rv["op"] == "Div":
                return ta and not tb or (ta and tb)
            return ta or tb
        if k == "unop" and rv["op"] == "Neg":
            return self.op_tol(body, rv["a"], cur)
        if k == "agg" and rv["kind"].get("variant") == "Some" and len(rv.get("ops", [])) == 1:
            return self.op_tol(body, rv["ops"][0], cur)      # Option<tolerance>
        if k == "agg" and rv["kind"].get("variant") == "None":
            return True                                       # carries no value
        return False

    def ret_tol(self, cb, tol_params):
        """the value returned by a helper is tolerance-valued (`fn relaxed_tolerance(tol, ..) -> Option<f64>`): every whole
        assignment of its return place is, given which of its parameters receive a tolerance at this call site"""
        s0 = (cb.lty(0) or {}).get("s", "")
        if s0 not in ("f64", "std::option::Option<f64>") or cb.is_closure() or len(cb.blocks) > 60 or not tol_params:
            return False
        return 0 in self.tolset(cb, given_params=tol_params)

    def call_tol(self, body, t, cur):
        p, tr, name = callee(t)
        if p.endswith("SolverOptions::unwrap_or"):
            return False   # the tuple itself; component 1 is handled in place_tol
        if name in PASS_NAMES:
            args = t["args"]
            if name == "div" and len(args) == 2:
                return self.op_tol(body, args[0], cur)
            return any(self.op_tol(body, a, cur) for a in args)
        cb = self.F.callee_body(t)
        if cb is not None and cb.path.startswith(("feos", "feos_core", "feos_dft")) and cb.path != body.path \
                and cb["arg_count"] == len(t["args"]):
            return self.ret_tol(cb, {i + 1 for i, a in enumerate(t["args"]) if self.op_tol(body, a, cur)})
        return False

    def param_tol(self, body, argn):
        """parameter `argn` (1-based local) receives a tolerance at every call site"""
        key = (body.path, argn)
        if key in self.param_memo:
            return self.param_memo[key]
        self.param_memo[key] = False
        if body.is_closure():
            return False
        self.index()
        sites = self.callsites.get(body.path, [])
        res = bool(sites)
        for (cb, bi, t) in sites:
            if argn - 1 >= len(t["args"]):
                res = False
                break
            cur = self.tolset(cb)
            if not self.op_tol(cb, t["args"][argn - 1], cur):
                res = False
                break
        self.param_memo[key] = res
        if res:
            # invalidate the (pessimistic) tolset computed during recursion
            self.tolsets.pop(body.path, None)
        return res

    # -------------------------------------------------- evidence-valued booleans
    def cmp_evidence(self, body, op, a, b):
        """+1 if `a op b` true implies evidence, -1 if false implies evidence, 0 otherwise"""
        cur = self.tolset(body)
        ta, tb = self.op_tol(body, a, cur), self.op_tol(body, b, cur)
        if op in ("Lt", "Le", "lt", "le"):
            if tb and not ta:
                return 1
            if ta and not tb:
                return -1
        if op in ("Gt", "Ge", "gt", "ge"):
            if ta and not tb:
                return 1
            if tb and not ta:
                return -1
        return 0

    def bool_origin(self, body, local, depth=0, seen=None):
        """polarity-aware classification of a bool local.
        returns set of items: ('ev', +1/-1) | ('false',) | ('true',) | ('other', desc)"""
        if seen is None:
            seen = set()
        if (local, ) in seen or depth > 20:
            return {("other", "cycle")}
        seen = seen | {(local,)}
        defs = self.D(body).of(local)
        out = set()
        if not defs:
            return {("other", "param _%d" % local)}
        for d in defs:
            if d[0] == "stmt":
                if [p for p in d[3]["p"] if p != "*"]:
                    out.add(("other", "partial"))
                    continue
                out |= self.rv_bool(body, d[4], depth, seen)
            else:
                out |= self.call_bool(body, d[2], depth, seen, comp=None)
        return out

    def place_bool(self, body, place, depth, seen):
        l, projs = strip_place(place)
        if not projs:
            return self.bool_origin(body, l, depth + 1, seen)
        # component of a call result, possibly through Try::branch / Continue
        return self.proj_bool(body, l, list(projs), depth + 1, seen)

    def proj_bool(self, body, l, projs, depth, seen):
        """value at projection path `projs` of local l"""
        if depth > 20:
            return {("other", "depth")}
        # strip downcasts to Continue/Ok and their field 0
        out = set()
        defs = self.D(body).of(l)
        if not defs:
            return {("other", "param-proj")}
        for d in defs:
            if d[0] == "call":
                t = d[2]
                p, tr, name = callee(t)
                if name == "branch" and tr == "std::ops::Try":
                    # ControlFlow::Continue(x).0  == Ok payload
                    pr = list(projs)
                    if pr and pr[0][0] == "dc":
                        pr = pr[1:]
                    if pr and pr[0][0] == "f" and pr[0][1] == 0:
                        pr = pr[1:]
                    src = t["args"][0]
                    if src["k"] in ("copy", "move"):
                        sl, sp = strip_place(src["place"])
                        out |= self.proj_bool(body, sl, [("ok",)] + list(sp) + pr, depth + 1, seen)
                    else:
                        out.add(("other", "branch-const"))
                    continue
                # a call result: component selection
                comp = [x for x in projs]
                out |= self.call_bool(body, t, depth, seen, comp=comp)
            else:
                place, rv = d[3], d[4]
                if place["p"]:
                    # partial def of the aggregate, e.g. _x.0 = ...
                    pl, pp = strip_place(place)
                    if list(pp) == list(projs)[:len(pp)] and len(pp) == len(projs):
                        out |= self.rv_bool(body, rv, depth, seen)
                    continue
                k = rv["k"]
                if k == "use" and rv["op"]["k"] in ("copy", "move"):
                    sl, sp = strip_place(rv["op"]["place"])
                    out |= self.proj_bool(body, sl, list(sp) + list(projs), depth + 1, seen)
                elif k == "agg":
                    kind = rv["kind"]
                    pr = list(projs)
                    if kind.get("t") == "tuple" and pr and pr[0][0] == "f":
                        op = rv["ops"][pr[0][1]]
                        out |= self.op_bool_proj(body, op, pr[1:], depth, seen)
                    elif kind.get("t") == "adt" and kind["adt"].endswith("Result") and kind["variant"] == "Ok":
                        if pr and pr[0][0] == "ok":
                            pr = pr[1:]
                        elif pr and pr[0][0] == "dc":
                            pr = pr[1:]
                            if pr and pr[0][0] == "f":
                                pr = pr[1:]
                        out |= self.op_bool_proj(body, rv["ops"][0], pr, depth, seen)
                    elif kind.get("t") == "adt" and kind["variant"] == "Err":
                        pass   # no bool payload on this def
                    else:
                        out.add(("other", "agg"))
                else:
                    out.add(("other", "rv:" + k))
        return out

    def op_bool_proj(self, body, op, projs, depth, seen):
        if op["k"] == "const":
            if projs:
                return {("other", "const-proj")}
            if op.get("bits") == "0":
                return {("false",)}
            if op.get("bits") == "1":
                return {("true",)}
            return {("other", "const")}
        sl, sp = strip_place(op["place"])
        if not sp and not projs:
            return self.bool_origin(body, sl, depth + 1, seen)
        return self.proj_bool(body, sl, list(sp) + list(projs), depth + 1, seen)

    def rv_bool(self, body, rv, depth, seen):
        k = rv["k"]
        if k == "use":
            op = rv["op"]
            if op["k"] == "const":
                if op.get("bits") == "0":
                    return {("false",)}
                if op.get("bits") == "1":
                    return {("true",)}
                return {("other", "const")}
            return self.place_bool(body, op["place"], depth, seen)
        if k == "binop" and rv["op"] in ("Lt", "Le", "Gt", "Ge"):
            pol = self.cmp_evidence(body, rv["op"], rv["a"], rv["b"])
            if pol:
                return {("ev", pol)}
            return {("other", "cmp")}
        if k == "unop" and rv["op"] == "Not":
            inner = self.op_bool_proj(body, rv["a"], [], depth, seen)
            out = set()
            for it in inner:
                if it[0] == "ev":
                    out.add(("ev", -it[1]))
                elif it[0] == "false":
                    out.add(("true",))
                elif it[0] == "true":
                    out.add(("false",))
                else:
                    out.add(it)
            return out
        if k == "binop" and rv["op"] in ("BitAnd",):
            # a && b compiled eagerly: evidence if either side is positive evidence
            ia = self.op_bool_proj(body, rv["a"], [], depth, seen)
            ib = self.op_bool_proj(body, rv["b"], [], depth, seen)
            if ia == {("ev", 1)} or ib == {("ev", 1)}:
                return {("ev", 1)}
            return {("other", "and")}
        return {("other", "rv:" + k)}

    def call_bool(self, body, t, depth, seen, comp):
        p, tr, name = callee(t)
        if tr == CMP_TRAIT and name in ("lt", "le", "gt", "ge") and not comp:
            pol = self.cmp_evidence(body, name, t["args"][0], t["args"][1])
            if pol:
                return {("ev", pol)}
            return {("other", "cmp-call")}
        if name == "not" and tr == "std::ops::Not" and not comp:
            inner = self.op_bool_proj(body, t["args"][0], [], depth, seen)
            return {("ev", -i[1]) if i[0] == "ev" else i for i in inner}
        # local evidence predicate?
        tb = self.F.body(p)
        if tb is not None:
            comp_key = tuple(c for c in (comp or []) if c[0] in ("f", "ok"))
            if self.is_predicate(tb, comp_key):
                return {("ev", 1)}
            return {("other", "call:" + p)}
        return {("other", "call:" + p)}

    # -------------------------------------------------- evidence edges of a body
    def evidence_edges(self, body, extra_true_removed=()):
        """returns (edges, records): edges=set of (from,to); records = descriptive list.
        Iterates to a fixpoint with evidence flags (assignments of `true` only under evidence)."""
        edges = set()
        records = {}
        flag_ok = {}
        for _round in range(6):
            new_edges = set(edges)
            reach = reachable(body, new_edges)
            for bi, blk in enumerate(body.blocks):
                t = blk["term"]
                if t["k"] != "switch":
                    continue
                op = t["op"]
                if op["k"] not in ("copy", "move"):
                    continue
                if body.pty(op["place"])["k"] != "bool":
                    # Option-valued flag: `done = Some(result)` only under evidence, `match done { Some(r) => Ok(r), None => Err }`
                    oe = self.option_flag_edge(body, bi, t, reach)
                    if oe is not None:
                        new_edges.add(oe)
                        records[oe] = {"block": bi, "edge": "Some", "where": t["span"]}
                    else:
                        re_ = self.result_evidence_edge(body, bi, t)
                        if re_ is not None:
                            new_edges.add(re_)
                            records[re_] = {"block": bi, "edge": "Continue of an evidence-returning helper", "where": t["span"]}
                    continue
                origin = self.op_bool_flagaware(body, op, reach)
                true_t, false_t = switch_bool_targets(t)
                if origin and all(o == ("ev", 1) or o == ("false",) for o in origin) and ("ev", 1) in origin:
                    if true_t is not None:
                        new_edges.add((bi, true_t))
                        records[(bi, true_t)] = {"block": bi, "edge": "true", "where": t["span"]}
                elif origin and all(o == ("ev", -1) or o == ("true",) for o in origin) and ("ev", -1) in origin:
                    if false_t is not None:
                        new_edges.add((bi, false_t))
                        records[(bi, false_t)] = {"block": bi, "edge": "false", "where": t["span"]}
            if new_edges == edges:
                break
            edges = new_edges
        return edges, list(records.values())

    def ok_only_under_evidence(self, g):
        """every `Ok(..)` a (small, non-public) helper returns is cut off from its entry by convergence evidence: the stage of a
        solver that was split off (`solve_density(..) -> EosResult<Density>`); memoised, pessimistic under recursion"""
        key = ("okev", g.path)
        if key in self.param_memo:
            return self.param_memo[key]
        self.param_memo[key] = False
        res = False
        if not g.is_closure() and g.get("vis") != "Public" and (g.lty(0) or {}).get("s", "").startswith("std::result::Result<") and len(g.blocks) <= 400:
            ok_blocks = set()
            for bi, si, st in g.stmts():
                rv = st["rv"]
                if st["place"]["l"] == 0 and not st["place"]["p"] and rv["k"] == "agg" and rv["kind"].get("variant") == "Ok":
                    ok_blocks.add(bi)
            # a tail call `other(..)` stored straight into the return place would be an unexamined success path
            tail = [bi for bi, t in g.calls() if t["dest"]["l"] == 0 and not t["dest"]["p"] and callee(t)[2] not in ("from_residual",)]
            if ok_blocks and not tail:
                edges, _ = self.evidence_edges(g)
                reach = reachable(g, edges)
                res = not (ok_blocks & reach)
        self.param_memo[key] = res
        return res

    def result_evidence_edge(self, body, bi, t):
        """`helper(..)?` : the Continue edge of the `?` on the result of an evidence-returning helper"""
        l, sp = strip_place(t["op"]["place"])
        if sp:
            return None
        ds = self.D(body).of(l)
        if len(ds) != 1 or ds[0][0] != "stmt" or ds[0][4]["k"] != "discr" or ds[0][4]["place"]["p"]:
            return None
        cf = ds[0][4]["place"]["l"]
        dc = self.D(body).of(cf)
        if len(dc) != 1 or dc[0][0] != "call":
            return None
        bt = dc[0][2]
        if callee(bt)[2] != "branch" or callee(bt)[1] != "std::ops::Try" or bt["args"][0].get("k") not in ("copy", "move"):
            return None
        dr = self.D(body).of(bt["args"][0]["place"]["l"])
        if len(dr) != 1 or dr[0][0] != "call":
            return None
        g = self.F.callee_body(dr[0][2])
        if g is None or g.path == body.path or not g.path.startswith(("feos_core::", "feos_dft::", "feos::")):
            return None
        if not self.ok_only_under_evidence(g):
            return None
        tg = dict((v, x) for v, x in t["targets"])
        return (bi, tg["0"]) if "0" in tg else None

    def option_flag_edge(self, body, bi, t, reach):
        l, sp = strip_place(t["op"]["place"])
        if sp:
            return None
        ds = self.D(body).of(l)
        if len(ds) != 1 or ds[0][0] != "stmt" or ds[0][4]["k"] != "discr":
            return None
        src = ds[0][4]["place"]
        if src["p"]:
            return None
        fl = src["l"]
        if not body.lty(fl)["s"].startswith("std::option::Option<") or 1 <= fl <= body["arg_count"]:
            return None
        some_cut = False
        for d in self.D(body).of(fl):
            if d[0] != "stmt" or d[3]["p"]:
                return None
            rv = d[4]
            if rv["k"] == "use" and rv["op"]["k"] in ("copy", "move") and not strip_place(rv["op"]["place"])[1]:
                # through a temporary: `_flag = move _tmp` with `_tmp = Some(..)`
                tds = self.D(body).of(rv["op"]["place"]["l"])
                if len(tds) == 1 and tds[0][0] == "stmt" and not tds[0][3]["p"]:
                    rv = tds[0][4]
            if rv["k"] == "agg" and rv["kind"].get("adt") == "std::option::Option":
                if rv["kind"]["variant"] == "Some":
                    if d[1] in reach:
                        return None       # a Some(..) assigned on a path without evidence
                    some_cut = True
                continue
            if rv["k"] == "use" and rv["op"]["k"] == "const" and "None" in rv["op"].get("text", ""):
                continue
            return None
        if not some_cut:
            return None
        for v, tgt in t["targets"]:
            if v == "1":
                return (bi, tgt)
        return None

    def op_bool_flagaware(self, body, op, reach):
        """bool origin where a `true` constant assigned in a block that is unreachable without
        evidence edges counts as evidence (flag idiom)."""
        l, projs = strip_place(op["place"])
        base = self.op_bool_proj(body, op, [], 0, None)
        if ("true",) not in base:
            return base
        # re-evaluate: every def of the flag chain that assigns const true must sit in an evidence-only block
        ok = self.true_defs_cut(body, l, reach, set())
        if ok:
            out = {o for o in base if o != ("true",)}
            out.add(("ev", 1))
            return out
        return base

    def true_defs_cut(self, body, local, reach, seen):
        if local in seen:
            return True
        seen.add(local)
        for d in self.D(body).of(local):
            if d[0] != "stmt":
                continue
            rv = d[4]
            if rv["k"] == "use":
                op = rv["op"]
                if op["k"] == "const" and op.get("bits") == "1":
                    if d[1] in reach:
                        return False
                elif op["k"] in ("copy", "move"):
                    sl, sp = strip_place(op["place"])
                    if not sp and not self.true_defs_cut(body, sl, reach, seen):
                        return False
        return True

    # -------------------------------------------------- predicates
    def is_predicate(self, body, comp):
        """local fn returning bool / Result<bool> / (bool,_) / Result<(bool,_)>: every `true` it can
        return (in the selected component) is evidence-valued."""
        key = (body.path, comp)
        if key in self.pred_memo:
            return self.pred_memo[key]
        self.pred_memo[key] = False
        edges, _ = self.evidence_edges(body)
        reach = reachable(body, edges)
        # classify every value flowing into _0 at path comp
        ok = self.ret_component_ok(body, comp, reach)
        self.pred_memo[key] = ok
        return ok

    def ret_component_ok(self, body, comp, reach):
        vals = self.ret_bool_values(body, 0, list(comp), reach, 0, set())
        if not vals:
            return False
        has_ev = False
        for v in vals:
            if v == ("false",):
                continue
            if v == ("ev", 1):
                has_ev = True
                continue
            return False
        return has_ev

    def ret_bool_values(self, body, local, comp, reach, depth, seen):
        """classification of the bool at component path `comp` ('ok' = Ok payload, ('f',i) = tuple field)
        of `local`, where `true` consts in evidence-only blocks count as evidence"""
        out = set()
        if depth > 12 or (local, tuple(comp)) in seen:
            return out
        seen.add((local, tuple(comp)))
        for d in self.D(body).of(local):
            if d[0] == "call":
                t = d[2]
                if d[1] not in reach:
                    # a call in an evidence-only block: whatever it returns is under evidence
                    out.add(("ev", 1))
                    continue
                p, tr, name = callee(t)
                if tr == CMP_TRAIT and not comp:
                    out |= self.call_bool(body, t, depth, None, None)
                    continue
                if name == "from_residual":
                    continue      # `?` error propagation: constructs Err only
                tb = self.F.body(p)
                if tb is not None and self.is_predicate(tb, tuple(c for c in comp if c[0] in ("f", "ok"))):
                    out.add(("ev", 1))
                else:
                    out.add(("other", "call:" + p))
                continue
            bi, place, rv = d[1], d[3], d[4]
            pl, pp = strip_place(place)
            cur = list(comp)
            if pp:
                # partial store, e.g. (_0.0) = ...
                if list(pp) != cur[:len(pp)]:
                    continue
                cur = cur[len(pp):]
            k = rv["k"]
            if k == "agg":
                kind = rv["kind"]
                if kind.get("t") == "adt" and kind["adt"].endswith("Result"):
                    if kind["variant"] == "Err":
                        continue
                    if cur and cur[0] == ("ok",):
                        out |= self._op_ret(body, rv["ops"][0], cur[1:], reach, depth, seen, bi)
                    else:
                        out.add(("other", "ok-shape"))
                elif kind.get("t") == "tuple" or (kind.get("t") == "adt" and not str(kind.get("adt", "")).startswith(("std::", "core::")) and rv["ops"]):
                    if cur and cur[0][0] == "f" and cur[0][1] < len(rv["ops"]):
                        out |= self._op_ret(body, rv["ops"][cur[0][1]], cur[1:], reach, depth, seen, bi)
                    else:
                        out.add(("other", "tuple-shape"))
                else:
                    out.add(("other", "agg"))
            elif k == "use":
                out |= self._op_ret(body, rv["op"], cur, reach, depth, seen, bi)
            elif not cur:
                if bi not in reach:
                    out.add(("ev", 1))
                else:
                    out |= self.rv_bool(body, rv, depth, None)
            else:
                out.add(("other", "rv"))
        return out

    def _op_ret(self, body, op, comp, reach, depth, seen, bi):
        if op["k"] == "const":
            if comp:
                return {("other", "const-comp")}
            if op.get("bits") == "0":
                return {("false",)}
            if op.get("bits") == "1":
                return {("ev", 1)} if bi not in reach else {("true",)}
            return {("other", "const")}
        sl, sp = strip_place(op["place"])
        if sp:
            if not comp:
                r = self.proj_bool(body, sl, list(sp), depth + 1, None)
                return {("ev", 1) if (x == ("true",) and bi not in reach) else x for x in r}
            return {("other", "proj")}
        if not comp and body.lty(sl)["k"] == "bool":
            r = self.bool_origin(body, sl, depth + 1, None)
            if bi not in reach:
                r = {("ev", 1) if x == ("true",) else x for x in r}
            return r
        return self.ret_bool_values(body, sl, comp, reach, depth + 1, seen)


def switch_bool_targets(t):
    """(true_target, false_target) of a SwitchInt on a bool"""
    tv = {v: bb for v, bb in t["targets"]}
    if "0" in tv:
        return t["otherwise"], tv["0"]
    if "1" in tv:
        return tv["1"], t["otherwise"]
    return None, None


# ------------------------------------------------------------------ success sites

def ret_chain_sites(body, A, verdict_paths, shape):
    """sites that construct a success value into the return place.
    returns list of dicts {block, kind, where, desc}"""
    defs = A.D(body)
    sites = []
    seen = set()

    def visit(local, depth):
        if depth > 8 or local in seen:
            return
        seen.add(local)
        for d in defs.of(local):
            if d[0] == "call":
                t = d[2]
                p, tr, name = callee(t)
                if name == "from_residual":
                    continue
                if d[2]["dest"]["p"]:
                    continue
                if p in verdict_paths:
                    continue     # forwarding the verdict of another verdict function
                if name in ("map_err", "or_else") and tr is None:
                    # Result adaptors that keep Ok untouched: look through the receiver
                    a0 = t["args"][0]
                    if a0["k"] in ("copy", "move") and not strip_place(a0["place"])[1]:
                        visit(a0["place"]["l"], depth + 1)
                        continue
                if shape in ("ok_true", "ok_true_tuple", "ok_some_tuple", "ok_unit"):
                    # a call cannot be judged for payload shape; predicates were handled by the caller
                    sites.append({"block": d[1], "kind": "call", "where": t["span"], "desc": "call " + p, "callee": p})
                else:
                    sites.append({"block": d[1], "kind": "call", "where": t["span"], "desc": "call " + p, "callee": p})
                continue
            bi, si, place, rv = d[1], d[2], d[3], d[4]
            if place["p"]:
                continue
            k = rv["k"]
            if k == "use" and rv["op"]["k"] in ("copy", "move"):
                sl, sp = strip_place(rv["op"]["place"])
                if not sp:
                    visit(sl, depth + 1)
                else:
                    sites.append({"block": bi, "kind": "proj", "where": body.blocks[bi]["stmts"][si]["span"], "desc": "projection"})
            elif k == "agg":
                kind = rv["kind"]
                if kind.get("t") == "adt" and kind["adt"].endswith("Result"):
                    if kind["variant"] == "Err":
                        continue
                    if payload_matches(body, A, rv["ops"][0], shape, bi):
                        sites.append({"block": bi, "kind": "ok", "where": body.blocks[bi]["stmts"][si]["span"], "desc": "Ok(..) [%s]" % shape})
                else:
                    sites.append({"block": bi, "kind": "agg", "where": body.blocks[bi]["stmts"][si]["span"], "desc": "aggregate"})
    visit(0, 0)
    return sites


def payload_matches(body, A, op, shape, bi):
    """does the Ok payload have (or possibly have) the success shape?"""
    if shape in ("ok_any", "ok_unit"):
        return True
    defs = A.D(body)
    if shape == "ok_true":
        if op["k"] == "const":
            return op.get("bits") == "1"
        return True    # non-constant bool: may be true
    if shape in ("ok_true_tuple", "ok_some_tuple"):
        if op["k"] == "const":
            return True
        sl, sp = strip_place(op["place"])
        for d in defs.of(sl):
            is_record = d[0] == "stmt" and d[4]["k"] == "agg" and d[4]["kind"].get("t") == "adt" and not d[3]["p"] and d[4]["ops"] \
                and not str(d[4]["kind"].get("adt", "")).startswith(("std::", "core::"))
            if d[0] == "stmt" and d[4]["k"] == "agg" and (d[4]["kind"].get("t") == "tuple" or is_record) and not d[3]["p"]:
                # `(converged, iterations)` or a small private record `StageOutcome { converged, iterations }`: first component
                first = d[4]["ops"][0]
                if shape == "ok_true_tuple":
                    if first["k"] == "const":
                        if first.get("bits") == "1":
                            return True
                        continue
                    return True
                else:
                    # Some(_) vs None
                    if first["k"] == "const":
                        # Option::None constant
                        if "None" in first.get("text", ""):
                            continue
                        return True
                    fl, fp = strip_place(first["place"])
                    some = False
                    unknown = True
                    for d2 in defs.of(fl):
                        if d2[0] == "stmt" and d2[4]["k"] == "agg" and d2[4]["kind"].get("t") == "adt":
                            unknown = False
                            if d2[4]["kind"]["variant"] == "Some" or (d2[4]["ops"] and not str(d2[4]["kind"].get("adt", "")).startswith(("std::", "core::"))):
                                some = True       # `Some(x)`, or the payload-carrying variant of a private two-state enum
                        elif d2[0] == "stmt" and d2[4]["k"] == "use" and d2[4]["op"]["k"] == "const" and "None" in d2[4]["op"].get("text", ""):
                            unknown = False
                    if some or unknown:
                        return True
            else:
                return True
        return False
    return True


# ------------------------------------------------------------------ the rule

def load_table():
    with open(TABLE, "rb") as fh:
        return tomllib.load(fh)


def run(F, prop=None):
    r = RuleResult("R4", "CONV: success verdicts are cut off from the entry by convergence evidence")
    tab = load_table()
    A = Analysis(F)
    verdict_paths = set()
    entries = []
    for e in tab["verdict"]:
        bs = [b for b in F.bodies if not b.is_closure() and b.path.endswith(e["fn"]) and b.crate == e["crate"]]
        if not bs:
            # moved to another module (`state::newton` -> `state::newton::newton`): the unique function of that name in the crate
            last = e["fn"].split("::")[-1]
            cand = [b for b in F.bodies if not b.is_closure() and b.crate == e["crate"] and b.path.split("::")[-1] == last
                    and "::tests::" not in b.path and not b.get("in_trait")]
            if len(cand) == 1:
                bs = cand
        entries.append((e, bs))
        for b in bs:
            verdict_paths.add(b.path)
    present = 0
    n_sites = 0
    n_edges = 0
    n_all = sum(len(bs) for _, bs in entries)
    for e, bs in entries:
        if prop is not None and prop not in e.get("props", []):
            continue
        if not bs:
            if e.get("optional"):
                continue
            r.fail("missing|%s" % e["fn"], "-", "verdict function %s::%s not found in the facts (renamed/removed?): "
                   "re-confirm tables/r04.toml" % (e["crate"], e["fn"]))
            continue
        for body in bs:
            present += 1
            shape = e["shape"]
            removed = set()
            # debug escape hatch of call_solver: delete the true-edge of the named bool parameter
            esc = e.get("escape_param")
            edges, recs = A.evidence_edges(body)
            removed |= edges
            if esc:
                for bi, blk in enumerate(body.blocks):
                    t = blk["term"]
                    if t["k"] == "switch" and t["op"]["k"] in ("copy", "move"):
                        l, sp = strip_place(t["op"]["place"])
                        if len(sp) == 1 and sp[0][0] == "f":
                            # `match (converged, debug) { .. }`: a component of a tuple built on the spot
                            ds_ = A.D(body).of(l)
                            if len(ds_) == 1 and ds_[0][0] == "stmt" and ds_[0][4]["k"] == "agg" and ds_[0][4]["kind"].get("t") == "tuple" \
                                    and sp[0][1] < len(ds_[0][4]["ops"]) and ds_[0][4]["ops"][sp[0][1]].get("k") in ("copy", "move"):
                                l, sp = strip_place(ds_[0][4]["ops"][sp[0][1]]["place"])
                        for _ in range(4):      # look through plain copies of the parameter
                            ds = A.D(body).of(l)
                            if len(ds) == 1 and ds[0][0] == "stmt" and ds[0][4]["k"] == "use" and ds[0][4]["op"]["k"] in ("copy", "move"):
                                l2, sp2 = strip_place(ds[0][4]["op"]["place"])
                                if sp2:
                                    break
                                l = l2
                            else:
                                break
                        if not sp and body.lname(l) == esc and l <= body["arg_count"]:
                            tt, ft = switch_bool_targets(t)
                            if tt is not None:
                                removed.add((bi, tt))
            n_edges += len(recs)
            reach = reachable(body, removed)
            sites = ret_chain_sites(body, A, verdict_paths, shape)
            n_sites += len(sites)
            fn_id = e["fn"]
            min_edges = e.get("min_evidence", 1)
            if len(recs) < min_edges:
                r.fail("noevidence|%s" % fn_id, body.file_line(),
                       "verdict function %s has %d convergence-evidence edges, table requires >= %d "
                       "(tolerance comparison deleted, inverted or no longer against a tolerance)" % (fn_id, len(recs), min_edges),
                       evidence=recs)
            req = e.get("require_err")
            if req:
                found = False
                for bi, si, st in body.stmts():
                    rv = st["rv"]
                    if rv["k"] == "agg" and rv["kind"].get("t") == "adt" and rv["kind"].get("variant") == req and bi in reachable(body):
                        found = True
                if found:
                    r.inst("%s|err:%s" % (fn_id, req), body.file_line(), "ok")
                else:
                    r.inst("%s|err:%s" % (fn_id, req), body.file_line(), "violation")
                    r.fail("%s|missing-err:%s" % (fn_id, req), body.file_line(),
                           "%s no longer constructs Err(%s): the exemption for its loop-exhaustion path relies on the in-loop error return" % (fn_id, req))
            if not sites and not e.get("no_sites_ok"):
                r.fail("nosites|%s" % fn_id, body.file_line(),
                       "no success construction site found in %s (shape %s): table out of date" % (fn_id, shape))
            for s in sites:
                sid = "%s|%s@%s" % (fn_id, s["kind"], s.get("callee", s["desc"]))
                if s["block"] in reach:
                    exempt = None
                    for x in e.get("exempt", []):
                        if x["site"] == s["kind"] and (x.get("callee") is None or x.get("callee") == s.get("callee", "").split("::")[-1]):
                            exempt = x
                    pth = path_to(body, s["block"], removed)
                    if exempt:
                        r.inst(sid, s["where"], "exempt", reason=exempt["reason"], evidence_edges=len(recs))
                        continue
                    r.inst(sid, s["where"], "violation", path=pth, evidence_edges=len(recs))
                    r.fail("%s|%s@reachable-without-evidence" % (fn_id, s["kind"] if s["kind"] != "call" else "call:" + s["callee"].split("::")[-1]),
                           s["where"],
                           "%s: success value (%s) is constructed on a path from the entry that passes no convergence-evidence edge "
                           "(block path %s); evidence edges known in this function: %s" % (
                               fn_id, s["desc"], pth, [x["where"] for x in recs]),
                           path=pth, evidence=recs)
                else:
                    r.inst(sid, s["where"], "ok", evidence_edges=len(recs), evidence=[x["where"] for x in recs][:4])
    r.floor("verdict functions present (all properties)", n_all, tab["floors"]["functions"])
    if prop is None:
        r.floor("success sites examined", n_sites, tab["floors"]["sites"])
        r.floor("evidence edges found", n_edges, tab["floors"]["edges"])
    else:
        r.floor("verdict functions for " + prop, present, tab["floors"]["per_property"].get(prop, 1))
    r.exhaustive = True
    r.blind.append("numerical adequacy of the tolerance and of the residual that is compared is not judged; "
                   "only that a success value cannot be produced without passing a tolerance comparison of the right polarity")
    return [r]
