"""R45 POSITIVE-UPDATE — an unbounded additive update of the density iterate is followed by the positivity map on every path.

Anderson mixing and Newton's method update the density by adding a step that is not bounded by the current value
(`*rho += alpha_i (rho_i + beta res_i)`, `*rho += gmres(..)`): the new iterate can be negative.  Both solvers therefore map
the iterate back (`rho.mapv_inplace(f64::abs)`, or `exp` in the logarithmic variants) before the next residual evaluation
or the return.  "When solving reports success the density is positive" (C18) needs that on *every* path: rule — in
`solve_anderson` and `solve_newton` every `+=` into the density parameter is cut off from the loop header and from every
return by a `mapv_inplace` on that parameter (must-pass-through on the CFG).  Picard's damped update is a convex
combination of positive profiles and is not judged."""
from cfg import Defs, reachable
from facts import callee
from report import RuleResult
from r26_stale import natural_loops


def _derives_from(b, defs, op, target, depth=0):
    if op.get("k") not in ("copy", "move") or depth > 8:
        return False
    l = op["place"]["l"]
    if l == target:
        return True
    for d in defs.of(l):
        if d[0] == "stmt":
            rv = d[4]
            if rv["k"] in ("use", "cast") and _derives_from(b, defs, rv["op"], target, depth + 1):
                return True
            if rv["k"] == "ref" and _derives_from(b, defs, {"k": "copy", "place": rv["place"]}, target, depth + 1):
                return True
        elif callee(d[2])[2] in ("deref", "deref_mut", "borrow_mut", "as_mut") and d[2]["args"]:
            if _derives_from(b, defs, d[2]["args"][0], target, depth + 1):
                return True
    return False


def run(F):
    r = RuleResult("R45", "POSITIVE-UPDATE: additive density updates of Anderson / Newton are followed by the positivity map")
    n = 0
    for b in F.bodies:
        if b.is_closure() or not (b.path.endswith("DFTProfile<D, F>>::solve_anderson") or b.path.endswith("DFTProfile<D, F>>::solve_newton")):
            continue
        rho = [i for i in range(1, b["arg_count"] + 1) if b.lname(i) == "rho"]
        if not rho:
            r.fail("positive|%s|param" % b.path, b.file_line(), "%s: parameter `rho` not found" % b.path)
            continue
        rho = rho[0]
        defs = Defs(b)
        loops, dom = natural_loops(b)
        guards = set()
        for bi, t in b.calls():
            if callee(t)[2] == "mapv_inplace" and t["args"] and _derives_from(b, defs, t["args"][0], rho):
                guards.add(bi)
        for bi, t in b.calls():
            if callee(t)[2] != "add_assign" or not t["args"] or not _derives_from(b, defs, t["args"][0], rho):
                continue
            n += 1
            fn = b.path.split("::")[-1]
            iid = "positive|%s@%s" % (fn, t["span"].rsplit(":", 2)[-2])
            # innermost loop with a *different* header than a pure accumulation loop: use the outermost solver loop containing bi
            hdrs = [h for h, body in loops.items() if bi in body]
            outer = max(hdrs, key=lambda h: len(loops[h])) if hdrs else None
            rest = reachable(b, start=t["target"], removed_blocks=frozenset(guards)) if t.get("target") is not None else set()
            bad = None
            for x in rest:
                if b.blocks[x]["term"]["k"] == "return" and not b.blocks[x].get("cleanup"):
                    bad = "a return"
            if outer is not None and outer in rest:
                # reaching the solver loop's header again without the map = next residual evaluation on a possibly negative iterate
                bad = bad or "the next iteration"
            if bad is None:
                r.inst(iid, t["span"], "ok")
            else:
                r.inst(iid, t["span"], "violation")
                r.fail("positive|%s|unguarded" % fn, t["span"],
                       "DFTProfile::%s: after the additive update `*rho += ..` %s can be reached without `rho.mapv_inplace(abs / exp)`: the "
                       "returned (or next) density iterate can have negative entries" % (fn, bad))
    if F.config == "full" or n:
        r.floor("additive density updates in Anderson / Newton", n, 2)
    r.exhaustive = True
    return [r]
