"""R7 CACHE — key <-> dual-part agreement in the derivative cache, dispatch pairing, seeding.

Trusted table (num_dual part semantics): which derivative multi-set each part of a dual type holds,
in terms of the seeds (seed 1 = first Derivative parameter, seed 2 = second)."""
from cfg import provenance, Defs, strip_place, dominators
from facts import callee
from report import RuleResult

# part -> multiset of seeds
PARTS = {
    "num_dual::Dual": {"re": (), "eps": (1,)},
    "num_dual::Dual2": {"re": (), "v1": (1,), "v2": (1, 1)},
    "num_dual::HyperDual": {"re": (), "eps1": (1,), "eps2": (2,), "eps1eps2": (1, 2)},
    "num_dual::Dual3": {"re": (), "v1": (1,), "v2": (1, 1), "v3": (1, 1, 1)},
}
KEYS = {"Zeroth": 0, "First": 1, "Second": 1, "SecondMixed": 2, "Third": 1}   # number of Derivative args
KEY_MULT = {"Zeroth": lambda a: (), "First": lambda a: (a[0],), "Second": lambda a: (a[0], a[0]),
            "SecondMixed": lambda a: tuple(sorted((a[0], a[1]), key=str)), "Third": lambda a: (a[0], a[0], a[0])}

CACHE_FNS = ["get_or_insert_with_f64", "get_or_insert_with_d64", "get_or_insert_with_d2_64",
             "get_or_insert_with_hd64", "get_or_insert_with_hd364"]
DISPATCH = {  # PartialDerivative variant -> (derive fn, cache fn, number of fields)
    None: ("derive0", "get_or_insert_with_f64", 0),
    "First": ("derive1", "get_or_insert_with_d64", 1),
    "Second": ("derive2", "get_or_insert_with_d2_64", 1),
    "SecondMixed": ("derive2_mixed", "get_or_insert_with_hd64", 2),
    "Third": ("derive3", "get_or_insert_with_hd364", 1),
}


def _single_def(defs, l):
    ds = defs.of(l)
    return ds[0] if len(ds) == 1 else None


class KeyEval:
    """symbolic value of a Derivative-typed operand inside a cache function:
    ('p', n)  = the n-th Derivative parameter;  ('min',) / ('max',) of both parameters; None = unknown"""

    def __init__(self, body, F=None):
        self.body = body
        self.F = F
        self.defs = Defs(body)
        self.dparams = [l for l in range(1, body["arg_count"] + 1) if body.lty(l)["s"].endswith("Derivative")]

    def op(self, op, depth=0):
        if op["k"] not in ("copy", "move") or depth > 8:
            return None
        l, sp = strip_place(op["place"])
        if sp:
            # component of a pair ordered by hand: `let (a, b) = if d1 <= d2 { (d1, d2) } else { (d2, d1) };`
            if len(sp) == 1 and sp[0][0] == "f":
                alts = []
                for d in self.defs.of(l):
                    if d[0] == "stmt" and d[4]["k"] == "agg" and d[4]["kind"].get("t") == "tuple" and sp[0][1] < len(d[4]["ops"]):
                        alts.append(self.op(d[4]["ops"][sp[0][1]], depth + 1))
                    elif d[0] == "stmt" and d[4]["k"] == "use" and d[4]["op"].get("k") in ("copy", "move"):
                        inner = dict(d[4]["op"]["place"])
                        alts.append(self.op({"k": "copy", "place": {"l": inner["l"], "p": list(inner["p"]) + [p for p in op["place"]["p"] if isinstance(p, dict)]}}, depth + 1))
                    else:
                        alts.append(None)
                if len(alts) == 2 and sorted(alts, key=str) == [("p", 1), ("p", 2)]:
                    return ("sorted", sp[0][1])
                if len(alts) == 1:
                    return alts[0]
            return None
        if l in self.dparams and not self.defs.of(l):
            return ("p", self.dparams.index(l) + 1)
        ds2 = self.defs.of(l)
        if len(ds2) == 2 and all(d[0] == "stmt" and d[4]["k"] == "use" for d in ds2):
            alts = [self.op(d[4]["op"], depth + 1) for d in ds2]
            if sorted(alts, key=str) == [("p", 1), ("p", 2)]:
                return ("sorted", None)
        d = _single_def(self.defs, l)
        if d is None:
            return None
        if d[0] == "stmt":
            rv = d[4]
            if rv["k"] == "use":
                return self.op(rv["op"], depth + 1)
            return None
        t = d[2]
        p, tr, name = callee(t)
        if p in ("std::cmp::min", "std::cmp::max") or (tr == "std::cmp::Ord" and name in ("min", "max")):
            a = [self.op(x, depth + 1) for x in t["args"]]
            if sorted(a, key=str) == [("p", 1), ("p", 2)]:
                return (name,)
            return None
        return None

    def key(self, op):
        """(variant, args) of a PartialDerivative operand (through refs/copies)"""
        l, sp = strip_place(op["place"]) if op["k"] in ("copy", "move") else (None, None)
        for _ in range(8):
            if l is None:
                return None
            d = _single_def(self.defs, l)
            if d is not None and d[0] == "call" and self.F is not None:
                return self._key_from_constructor(d[2])
            if d is None or d[0] != "stmt":
                return None
            rv = d[4]
            if rv["k"] == "agg" and rv["kind"].get("t") == "adt" and rv["kind"]["adt"].endswith("PartialDerivative"):
                return rv["kind"]["variant"], [self.op(o) for o in rv["ops"]]
            if rv["k"] == "use" and rv["op"]["k"] in ("copy", "move"):
                l = rv["op"]["place"]["l"]
            elif rv["k"] == "use" and rv["op"]["k"] == "const" and "promoted" in rv["op"]:
                # &PartialDerivative::K(consts) promoted to a constant: read the promoted body
                pb = self.body.d.get("promoted", [])
                idx = rv["op"]["promoted"]
                if idx < len(pb):
                    for blk in pb[idx]["blocks"]:
                        for st in blk["stmts"]:
                            rv2 = st["rv"]
                            if rv2["k"] == "agg" and rv2["kind"].get("t") == "adt" and rv2["kind"]["adt"].endswith("PartialDerivative"):
                                return rv2["kind"]["variant"], [("c", o.get("text", "?")) for o in rv2["ops"]]
                return None
            elif rv["k"] == "ref":
                l = rv["place"]["l"]
            else:
                return None
        return None

    def _key_from_constructor(self, t):
        """key built by a constructor function of the repository (`PartialDerivative::second(d1, d2)`): evaluate the
        constructor's own aggregates in terms of its parameters, then substitute the call's arguments"""
        cb = self.F.callee_body(t)
        if cb is None or cb.is_closure() or not cb.path.startswith("feos_core::") or len(cb.blocks) > 30 \
                or not (cb.lty(0) or {}).get("s", "").endswith("PartialDerivative"):
            return None
        ke2 = KeyEval(cb, None)
        alts = []
        for bi, si, st in cb.stmts():
            rv = st["rv"]
            if rv["k"] == "agg" and rv["kind"].get("t") == "adt" and rv["kind"]["adt"].endswith("PartialDerivative"):
                alts.append((rv["kind"]["variant"], [ke2.op(o) for o in rv["ops"]]))
        if not alts or len({a[0] for a in alts}) != 1 or any(x is None for a in alts for x in a[1]):
            return None
        if any(callee(t2)[2] not in ("min", "max", "lt", "le", "gt", "ge", "cmp", "partial_cmp", "eq", "ne") for _bi, t2 in cb.calls()):
            return None
        variant = alts[0][0]
        if len(alts) == 1:
            inner = alts[0][1]
        elif len(alts) == 2 and variant == "SecondMixed" and alts[0][1] == alts[1][1][::-1] and sorted(alts[0][1], key=str) == [("p", 1), ("p", 2)]:
            inner = [("sorted", 0), ("sorted", 1)]
        else:
            return None
        argv = {i + 1: self.op(t["args"][cb_l - 1]) for i, cb_l in enumerate(ke2.dparams) if cb_l - 1 < len(t["args"])}
        both = [argv.get(1), argv.get(2)]
        out = []
        for x in inner:
            if x[0] == "p":
                out.append(argv.get(x[1]))
            elif both[0] is not None and both[0] == both[1] and both[0][0] == "p":
                out.append(both[0])                # min / max / sorted component of (d, d) is d
            elif sorted(both, key=str) == [("p", 1), ("p", 2)]:
                out.append(x)
            else:
                out.append(None)
        return variant, out

    def part(self, op):
        """(value_local, adt, field) of an f64 operand that is a part of a dual value, or ('whole', local)"""
        if op["k"] not in ("copy", "move"):
            return None
        pl = op["place"]
        for _ in range(6):
            fields = [p for p in pl["p"] if isinstance(p, dict) and "f" in p]
            if fields:
                f = fields[-1]
                if f.get("o") in PARTS and len(fields) == 1:
                    return (pl["l"], f["o"], f["n"])
                return None
            d = _single_def(self.defs, pl["l"])
            if d is None:
                return None
            if d[0] == "call":
                return ("whole", pl["l"])
            rv = d[4]
            if rv["k"] == "use" and rv["op"]["k"] in ("copy", "move"):
                pl = rv["op"]["place"]
            else:
                return None
        return None


def key_multiset(variant, args):
    """derivative multiset named by a key, in seeds; min/max pair counts as {1,2}"""
    if variant not in KEYS or any(a is None for a in args) or len(args) != KEYS[variant]:
        return None
    if variant == "SecondMixed":
        a, b = args
        if a == ("min",) and b == ("max",):
            return (1, 2)
        if a[0] == "sorted" and b[0] == "sorted" and a != b:
            return (1, 2)      # the two components of a hand-ordered pair (one is the smaller, the other the larger argument)
        if a[0] == "p" and b[0] == "p" and a == b:
            return (a[1], a[1])
        return None      # (min,min), (max,min), (p1,p2) un-canonicalised ...
    if any(a[0] != "p" for a in args):
        return None
    seeds = [a[1] for a in args]
    return KEY_MULT[variant](seeds)


def run(F):
    r = RuleResult("R7", "CACHE: each cache key stores / returns the dual part that is the named derivative")
    n_ins = n_look = 0
    for fn in CACHE_FNS:
        bs = [b for b in F.bodies if b.path.endswith("Cache::" + fn)]
        if not bs:
            r.fail("missing|" + fn, "-", "cache function %s not found" % fn)
            continue
        b = bs[0]
        ke = KeyEval(b, F)
        inserts, gets = [], []
        for bi, t in b.calls():
            p, tr, name = callee(t)
            if p.startswith("std::collections::HashMap") and name == "insert":
                inserts.append((bi, t))
            elif p.startswith("std::collections::HashMap") and name in ("get", "get_mut", "contains_key", "entry", "remove", "get_or_insert_with"):
                gets.append((bi, t))
        if not gets:
            # the lookup (and the hit / miss statistics) may live in a private helper of Cache taking the key by value:
            # `fn lookup(&mut self, key) -> Option<f64> { self.map.get(&key).copied() .. }`
            for bi, t in b.calls():
                cb = F.callee_body(t)
                if cb is None or "state::cache::Cache::" not in cb.path or cb.path.split("::")[-1] in CACHE_FNS or cb.is_closure():
                    continue
                inner = [(bj, t2) for bj, t2 in cb.calls() if callee(t2)[0].startswith("std::collections::HashMap") and callee(t2)[2] == "get"]
                if len(inner) != 1 or [1 for bj, t2 in cb.calls() if callee(t2)[2] in ("insert", "remove", "entry", "get_mut", "clear")]:
                    continue
                cdefs = Defs(cb)
                kparams, _ = provenance(cb, cdefs, [inner[0][1]["args"][1]["place"]["l"]]) if inner[0][1]["args"][1].get("k") in ("copy", "move") else (set(), None)
                kp = [x for x in kparams if x >= 2]
                if len(kp) == 1 and kp[0] - 1 < len(t["args"]):
                    gets.append((bi, {"args": [t["args"][0], t["args"][kp[0] - 1]], "span": t["span"]}))
        # inserts
        ret_parts = set()
        for bi, si, st in b.stmts():
            if st["place"]["l"] == 0 and not st["place"]["p"] and st["rv"]["k"] == "use":
                pr = ke.part(st["rv"]["op"])
                ret_parts.add(pr)
        inserted = {}
        for bi, t in inserts:
            n_ins += 1
            key = ke.key(t["args"][1])
            part = ke.part(t["args"][2])
            iid = "%s|insert|%s" % (fn, (key[0] + str(key[1])) if key else "?")
            if key is None or part is None:
                r.inst(iid, t["span"], "violation")
                r.fail("%s|insert|unrecognised" % fn, t["span"], "cache insert whose key or value cannot be resolved to PartialDerivative::K(params) / value.part")
                continue
            km = key_multiset(key[0], key[1])
            if part[0] == "whole":
                pm = ()
                pname = "<f64 value>"
            else:
                pm = PARTS[part[1]].get(part[2])
                pname = part[2]
            if km is None or pm is None or tuple(sorted(km)) != tuple(sorted(pm)):
                r.inst(iid, t["span"], "violation", key=key[0], part=pname)
                r.fail("%s|insert|%s<-%s" % (fn, key[0] + "(" + ",".join("".join(map(str, a)) if a else "?" for a in key[1]) + ")", pname), t["span"],
                       "%s stores part `%s` (derivative multiset %s) under key %s%s (multiset %s): a later lookup of that key returns the wrong derivative"
                       % (fn, pname, pm, key[0], key[1], km))
            else:
                r.inst(iid, t["span"], "ok", key=key[0], part=pname)
                inserted[(key[0], tuple(key[1]))] = pname
        # lookup
        if len(gets) != 1:
            r.fail("%s|lookup|count" % fn, b.file_line(), "%s: expected exactly one map lookup, found %d" % (fn, len(gets)))
        for bi, t in gets:
            n_look += 1
            key = ke.key(t["args"][1])
            iid = "%s|lookup" % fn
            if key is None:
                r.inst(iid, t["span"], "violation")
                r.fail("%s|lookup|unrecognised" % fn, t["span"], "cache lookup key cannot be resolved")
                continue
            km = key_multiset(key[0], key[1])
            miss_parts = [p for p in ret_parts if p is not None and p[0] != "whole" and len(p) == 3]
            whole = [p for p in ret_parts if p is not None and p[0] == "whole"]
            ok = km is not None
            pnames = []
            for p in miss_parts:
                pm = PARTS[p[1]].get(p[2])
                pnames.append(p[2])
                if pm is None or km is None or tuple(sorted(pm)) != tuple(sorted(km)):
                    ok = False
            if fn.endswith("_f64"):
                ok = ok and km == ()
            elif not miss_parts:
                ok = False
            # returned part must have been inserted under the looked-up key
            if ok and miss_parts and inserted.get((key[0], tuple(key[1]))) not in pnames:
                ok = False
            if not ok:
                r.inst(iid, t["span"], "violation", key=key[0], returned=pnames)
                r.fail("%s|lookup|%s->%s" % (fn, key[0], "/".join(sorted(pnames)) or "?"), t["span"],
                       "%s looks up %s%s (multiset %s) but returns part(s) %s on a miss / inserts that key elsewhere"
                       % (fn, key[0], key[1], km, pnames))
            else:
                r.inst(iid, t["span"], "ok", key=key[0], returned=pnames)
    r.floor("cache insert sites", n_ins, 14)
    r.floor("cache lookups", n_look, 5)

    # ---------------- dispatch in get_or_compute_derivative_residual
    bs = [b for b in F.bodies if b.path.endswith("::get_or_compute_derivative_residual")]
    n_arms = 0
    if not bs:
        r.fail("missing|dispatch", "-", "get_or_compute_derivative_residual not found")
    else:
        b = bs[0]
        defs = Defs(b)

        def variant_of_args(args):
            out = []
            for a in args:
                if a["k"] not in ("copy", "move"):
                    continue
                l, sp = strip_place(a["place"])
                # follow copies
                cur = a["place"]
                for _ in range(6):
                    dcs = [p for p in cur["p"] if isinstance(p, dict) and "dc" in p]
                    if dcs:
                        fl = [p for p in cur["p"] if isinstance(p, dict) and "f" in p]
                        out.append((dcs[0]["dc"], fl[0]["f"] if fl else None))
                        break
                    d = _single_def(defs, cur["l"])
                    if d and d[0] == "stmt" and d[4]["k"] == "use" and d[4]["op"]["k"] in ("copy", "move"):
                        cur = d[4]["op"]["place"]
                    else:
                        break
            return out
        derive_calls, cache_calls = {}, {}
        for bi, t in b.calls():
            p, tr, name = callee(t)
            if name and name.startswith("derive") and "State" in p:
                derive_calls.setdefault(name, []).append((bi, t))
            if name in CACHE_FNS:
                cache_calls.setdefault(name, []).append((bi, t))
        for variant, (dfn, cfn, nf) in DISPATCH.items():
            n_arms += 1
            iid = "dispatch|%s" % (variant or "Zeroth")
            dc = derive_calls.get(dfn, [])
            cc = cache_calls.get(cfn, [])
            where = b.file_line()
            msg = ""
            in_closure = None
            if not dc and len(cc) == 1:
                # the dual state may be built lazily inside the computation handed to the cache function (only on a miss)
                for a in cc[0][1]["args"]:
                    if a["k"] not in ("copy", "move") or not b.pty(a["place"])["k"].startswith("closure"):
                        continue
                    cb = F.body(b.pty(a["place"])["k"].split("closure:", 1)[1])
                    d = _single_def(defs, a["place"]["l"])
                    while d and d[0] == "stmt" and d[4]["k"] == "use" and d[4]["op"]["k"] in ("copy", "move"):
                        d = _single_def(defs, d[4]["op"]["place"]["l"])
                    if cb is None or not (d and d[0] == "stmt" and d[4]["k"] == "agg"):
                        continue
                    caps = d[4]["ops"]
                    inner = [(bj, t2) for bj, t2 in cb.calls() if callee(t2)[2] == dfn and "State" in callee(t2)[0]]
                    if len(inner) == 1:
                        cdefs = Defs(cb)
                        mapped = []
                        for x in inner[0][1]["args"][1:]:
                            # closure argument -> captured upvar -> operand of the closure aggregate in the parent
                            cur = x.get("place") if x.get("k") in ("copy", "move") else None
                            idx = None
                            for _ in range(6):
                                if cur is None:
                                    break
                                fl = [p_ for p_ in cur["p"] if isinstance(p_, dict) and "f" in p_]
                                if cur["l"] == 1 and fl:
                                    idx = fl[0]["f"]
                                    break
                                dd = _single_def(cdefs, cur["l"])
                                if dd and dd[0] == "stmt" and dd[4]["k"] == "use" and dd[4]["op"]["k"] in ("copy", "move"):
                                    cur = dd[4]["op"]["place"]
                                else:
                                    break
                            if idx is not None and idx < len(caps):
                                o = caps[idx]
                                # by-reference capture: `&v`
                                if o.get("k") in ("copy", "move"):
                                    dd = _single_def(defs, o["place"]["l"])
                                    if dd and dd[0] == "stmt" and dd[4]["k"] == "ref":
                                        o = {"k": "copy", "place": dd[4]["place"]}
                                mapped.append(o)
                        in_closure = (inner[0], mapped)
            ok = (len(dc) == 1 or in_closure is not None) and len(cc) == 1
            if ok and in_closure is not None:
                where = cc[0][1]["span"]
                va_d = variant_of_args(in_closure[1])
                va_c = variant_of_args(cc[0][1]["args"][1:])
                want = [(variant, i) for i in range(nf)]
                if va_d != want or va_c != want:
                    ok = False
                    msg = "argument fields of %s%s / %s%s differ from the fields of PartialDerivative::%s in order %s" % (dfn, va_d, cfn, va_c, variant, want)
            elif ok:
                where = cc[0][1]["span"]
                va_d = variant_of_args(dc[0][1]["args"][1:])
                va_c = variant_of_args(cc[0][1]["args"][1:])
                want = [(variant, i) for i in range(nf)]
                if va_d != want or va_c != want:
                    ok = False
                    msg = "argument fields of %s%s / %s%s differ from the fields of PartialDerivative::%s in order %s" % (dfn, va_d, cfn, va_c, variant, want)
                # closure passed to the cache fn must capture the state built by this derive call
                dest = dc[0][1]["dest"]["l"]
                clos = [a for a in cc[0][1]["args"] if a["k"] in ("copy", "move") and b.pty(a["place"])["k"].startswith("closure")]
                cap_ok = False
                for a in clos:
                    d = _single_def(defs, a["place"]["l"])
                    while d and d[0] == "stmt" and d[4]["k"] == "use" and d[4]["op"]["k"] in ("copy", "move"):
                        d = _single_def(defs, d[4]["op"]["place"]["l"])
                    if d and d[0] == "stmt" and d[4]["k"] == "agg":
                        for o in d[4]["ops"]:
                            if o["k"] in ("copy", "move"):
                                l0 = o["place"]["l"]
                                dd = _single_def(defs, l0)
                                if l0 == dest or (dd and dd[0] == "stmt" and dd[4]["k"] == "ref" and dd[4]["place"]["l"] == dest):
                                    cap_ok = True
                if ok and not cap_ok:
                    ok = False
                    msg = "the computation passed to %s does not capture the state produced by %s" % (cfn, dfn)
            else:
                msg = "expected exactly one call of %s and of %s (found %d / %d)" % (dfn, cfn, len(dc), len(cc))
            if ok:
                r.inst(iid, where, "ok", derive=dfn, cache=cfn)
            else:
                r.inst(iid, where, "violation", derive=dfn, cache=cfn)
                r.fail("dispatch|%s" % (variant or "Zeroth"), where, "get_or_compute_derivative_residual: " + msg)
    r.floor("dispatch arms", n_arms, 5)

    # ---------------- seeding in derive2_mixed: parameter k seeds derivative<k>()
    bs = [b for b in F.bodies if b.path.endswith("State::<E>::derive2_mixed")]
    n_seed = 0
    if not bs:
        r.fail("missing|derive2_mixed", "-", "derive2_mixed not found")
    else:
        b = bs[0]
        defs = Defs(b)
        dom = dominators(b)
        dparams = [l for l in range(1, b["arg_count"] + 1) if b.lty(l)["s"].endswith("Derivative")]
        # switches on the discriminant of a Derivative parameter
        sw = {}
        for bi, blk in enumerate(b.blocks):
            t = blk["term"]
            if t["k"] == "switch" and t["op"]["k"] in ("copy", "move"):
                d = _single_def(defs, t["op"]["place"]["l"])
                if d and d[0] == "stmt" and d[4]["k"] == "discr" and d[4]["place"]["l"] in dparams and not d[4]["place"]["p"]:
                    sw[bi] = dparams.index(d[4]["place"]["l"]) + 1
        for bi, t in b.calls():
            p, tr, name = callee(t)
            if name in ("derivative1", "derivative2") and p.startswith("num_dual::"):
                n_seed += 1
                doms = [s for s in sw if s in dom.get(bi, ()) and s != bi]
                # nearest dominating switch = the one dominated by all others
                near = None
                for s in doms:
                    if all(o in dom[s] for o in doms):
                        near = s
                k = int(name[-1])
                iid = "seed|%s@param%s" % (name, sw.get(near))
                if near is None or sw[near] != k:
                    r.inst(iid, t["span"], "violation")
                    r.fail("seed|derive2_mixed|%s<-param%s" % (name, sw.get(near)), t["span"],
                           "derive2_mixed: %s() is applied under the match on Derivative parameter %s; eps%d would not be d/d(parameter %d) "
                           "as the cache keys assume" % (name, sw.get(near), k, k))
                else:
                    r.inst(iid, t["span"], "ok")
    r.floor("derive2_mixed seedings", n_seed, 6)
    r.exhaustive = True
    return [r]
