"""R66 OPTIONS-FAMILY — a `SolverOptions` value is interpreted by one solver family only.

C05 / C07 / C04 / C06: "for all solver option pairs" — `SolverOptions { max_iter, tol, verbosity }` carries *optional* values; every
solver family fills the gaps with its own defaults (`options.unwrap_or(MAX_ITER_TP, TOL_TP)`), and `max_iter` / `tol` mean
different things in different solvers (the Tp flash counts cycles of five substitution steps to 1e-8, the stability analysis single
minimisation steps to 1e-6, the pure-component solver Newton steps to 1e-12).  The code base is consistent about this: options
are forwarded between functions of one family, and a nested solver of another kind is called with `SolverOptions::default()`.
Handing the caller's options to such a nested solver ("forward the verbosity") type-checks and changes nothing with default
options; with `max_iter(5)` on the flash the stability analysis now gives up before the flash has started.

Rule: for every function with a parameter of type `SolverOptions`, the set of default pairs under which that parameter is
unwrapped — by the function itself, the closures written in it, or any function it is forwarded to, transitively — has at most
one element.

R66b PAIR-ROLES (bubble / dew points, "for all solver option pairs (inner, outer)"): in a function that takes a pair
`(SolverOptions, SolverOptions)` and unwraps its components field by field, (i) each (component, field) is unwrapped under one
default only, (ii) the `for` loop bounded by component k's `max_iter` is left on a comparison against component k's `tol`: a
comparison with the other component's tolerance that leaves the loop (`err_out < options_inner.tol.unwrap_or(..)` in the outer
loop) makes the user's outer tolerance a dead letter — with default options both are 1e-9 / 1e-10 and nothing is visible, and
(iii) a pair that is rebuilt from the components of another pair keeps their positions."""
from cfg import Defs, provenance, dominators
from facts import callee
from report import RuleResult


def _opt_params(b):
    return [l for l in range(1, b["arg_count"] + 1) if (b.lty(l) or {}).get("s", "").endswith("SolverOptions")]


def run(F):
    r = RuleResult("R66", "OPTIONS-FAMILY: a SolverOptions parameter is unwrapped under the defaults of one solver family only")
    own, fwd, where = {}, {}, {}
    for b in F.bodies:
        if b.is_closure() or not b.path.startswith(("feos_core::", "feos_dft::", "feos::")) or "::tests::" in b.path or "::python::" in b.path:
            continue
        ps = _opt_params(b)
        if not ps or "SolverOptions::" in b.path:
            continue
        own[b.path], fwd[b.path], where[b.path] = set(), {}, b.file_line()
        for x in [b] + [c for c in F.bodies if c.is_closure() and c.path.startswith(b.path + "::{closure#")]:
            defs = Defs(x)
            for bi, t in x.calls():
                nm = str(callee(t)[2])
                for i, a in enumerate(t["args"]):
                    if a.get("k") not in ("copy", "move") or not (x.opty(a) or {}).get("s", "").endswith("SolverOptions"):
                        continue
                    params, _ = provenance(x, defs, [a["place"]["l"]])
                    from_param = bool(set(params) & set(ps)) if x is b else (a["place"]["l"] == 1 or bool(params))
                    if not from_param:
                        continue
                    if nm == "unwrap_or" and i == 0:
                        own[b.path].add(tuple(str(c.get("uneval") or c.get("i") or c.get("f") or c.get("text")) if c.get("k") == "const" else "?"
                                              for c in t["args"][1:]))
                    else:
                        cb = F.callee_body(t)
                        if cb is not None and not cb.is_closure() and cb.path != b.path:
                            fwd[b.path][cb.path] = t["span"]
    D = {k: {(d, k) for d in v} for k, v in own.items()}          # (defaults, the function that applies them)
    changed = True
    while changed:
        changed = False
        for k in D:
            for c in fwd[k]:
                if c in D and not D[c] <= D[k]:
                    D[k] |= D[c]
                    changed = True
    n = 0
    for k in sorted(D):
        fams = {d for d, _ in D[k]}
        fn = k.split("::")[-1]
        iid = "optionsfamily|%s" % k.split("::", 1)[-1]
        if not fams:
            continue
        n += 1
        if len(fams) == 1:
            r.inst(iid, where[k], "ok", defaults=sorted(fams)[0], forwards_to=sorted(c.split("::")[-1] for c in fwd[k]))
            continue
        # name the forward that brings in the foreign defaults
        mine = own[k] or set()
        culprit = None
        for c, sp in fwd[k].items():
            if c in D and {d for d, _ in D[c]} - mine:
                culprit = (c, sp)
        r.inst(iid, culprit[1] if culprit else where[k], "violation")
        r.fail("optionsfamily|%s" % fn, culprit[1] if culprit else where[k],
               "%s: its SolverOptions parameter is unwrapped under %d different sets of defaults (%s)%s: max_iter / tol of one solver are "
               "handed to a nested solver of another kind that counts other steps to another tolerance — options that are fine for the "
               "outer solver make the inner one give up" % (
                   fn, len(fams), "; ".join("%s in %s" % ("/".join(x.split("::")[-1] for x in d), w.split("::")[-1]) for d, w in sorted(D[k])),
                   (", forwarded to %s" % culprit[0].split("::")[-1]) if culprit else ""))
    r.floor("options-taking functions with a single family of defaults", n, 18)
    _pairs(F, r)
    r.exhaustive = True
    return [r]


def _is_pair(ty):
    s = (ty or {}).get("s", "")
    return s.count("SolverOptions") == 2 and s.startswith("(")


def _back(x, defs, start, calls=("into_iter", "unwrap_or", "min", "max")):
    """backward closure of locals over copies / refs / casts / aggregates / arithmetic and argument 0.. of the named calls"""
    seen, work = set(), list(start)
    while work:
        l = work.pop()
        if l in seen:
            continue
        seen.add(l)
        for d in defs.of(l):
            if d[0] == "call":
                if str(callee(d[2])[2]) in calls:
                    work += [a["place"]["l"] for a in d[2]["args"] if a.get("k") in ("copy", "move")]
                continue
            rv = d[4]
            k = rv["k"]
            ops = []
            if k in ("use", "cast", "repeat"):
                ops = [rv["op"]]
            elif k in ("ref", "discr"):
                work.append(rv["place"]["l"])
            elif k == "unop":
                ops = [rv["a"]]
            elif k == "binop":
                ops = [rv["a"], rv["b"]]
            elif k == "agg":
                ops = rv["ops"]
            work += [o["place"]["l"] for o in ops if o.get("k") in ("copy", "move")]
    return seen


def _loops(b):
    dom = dominators(b)
    succs, preds = b.succs(), b.preds()
    loops = {}
    for u, ss in enumerate(succs):
        if u not in dom:
            continue
        for v in ss:
            if v in dom[u]:
                body, st = {v, u}, [u]
                while st:
                    y = st.pop()
                    if y == v:
                        continue
                    for q in preds[y]:
                        if q not in body and q in dom:
                            body.add(q)
                            st.append(q)
                loops.setdefault(v, set()).update(body)
    return loops


def _component(x, defs, local, pair_params, depth=0):
    """(parameter, component index) a SolverOptions-typed local is a copy of, or None"""
    if depth > 8:
        return None
    got = set()
    for d in defs.of(local):
        if d[0] != "stmt" or d[3]["p"]:
            return None
        rv = d[4]
        if rv["k"] == "ref":
            pl = rv["place"]
        elif rv["k"] in ("use", "cast") and rv["op"].get("k") in ("copy", "move"):
            pl = rv["op"]["place"]
        else:
            return None
        proj = [q for q in pl["p"] if q != "*"]
        if pl["l"] in pair_params and len(proj) == 1 and isinstance(proj[0], dict) and "f" in proj[0]:
            got.add((pl["l"], proj[0]["f"]))
        elif not proj:
            got.add(_component(x, defs, pl["l"], pair_params, depth + 1))
        else:
            return None
    return got.pop() if len(got) == 1 and None not in got else None


def _pairs(F, r):
    n_fn = n_loop = n_exit = 0
    for b in F.bodies:
        if b.is_closure() or not b.path.startswith(("feos_core::", "feos_dft::", "feos::")) or "::tests::" in b.path or "::python::" in b.path:
            continue
        pp = [l for l in range(1, b["arg_count"] + 1) if _is_pair(b.lty(l))]
        if not pp:
            continue
        defs = Defs(b)
        fn = b.path.split("::", 1)[-1]
        # (iii) rebuilt pairs keep positions
        for bi, si, st in b.stmts():
            rv = st["rv"]
            if rv["k"] == "agg" and not st["place"]["p"] and _is_pair(b.lty(st["place"]["l"])) and len(rv["ops"]) == 2:
                for pos, o in enumerate(rv["ops"]):
                    if o.get("k") not in ("copy", "move"):
                        continue
                    pl = o["place"]
                    proj = [q for q in pl["p"] if q != "*"]
                    c = None
                    if pl["l"] in pp and len(proj) == 1 and isinstance(proj[0], dict) and "f" in proj[0]:
                        c = (pl["l"], proj[0]["f"])
                    elif not proj:
                        c = _component(b, defs, pl["l"], pp)
                    if c is not None and c[1] != pos:
                        r.inst("pairroles|%s|rebuild" % fn, st.get("span") or b.file_line(), "violation")
                        r.fail("pairroles|%s|rebuild-swapped" % fn.split("::")[-1], st.get("span") or b.file_line(),
                               "%s: component %d of its (inner, outer) SolverOptions pair is placed at position %d of the pair it builds: "
                               "the inner-loop options steer the outer loop and vice versa" % (fn, c[1], pos))
        # field-wise unwraps
        unw = []   # (component, field name, default text, block, dest local, span)
        for bi, t in b.calls():
            if str(callee(t)[2]) != "unwrap_or" or not t["args"] or t["args"][0].get("k") not in ("copy", "move"):
                continue
            for d in defs.of(t["args"][0]["place"]["l"]):
                if d[0] != "stmt" or d[4]["k"] != "use" or d[4]["op"].get("k") not in ("copy", "move"):
                    continue
                pl = d[4]["op"]["place"]
                proj = [q for q in pl["p"] if q != "*"]
                if not proj or not isinstance(proj[-1], dict) or "f" not in proj[-1]:
                    continue
                fieldname = proj[-1].get("n") or str(proj[-1]["f"])
                if fieldname not in ("max_iter", "tol"):
                    continue
                if len(proj) == 2 and pl["l"] in pp and isinstance(proj[0], dict) and "f" in proj[0]:
                    c = (pl["l"], proj[0]["f"])
                elif len(proj) == 1:
                    c = _component(b, defs, pl["l"], pp)
                else:
                    c = None
                if c is None:
                    continue
                a1 = t["args"][1]
                dflt = str(a1.get("uneval") or a1.get("i") or a1.get("f") or a1.get("text")) if a1.get("k") == "const" else "?"
                unw.append((c, fieldname, dflt, bi, t["dest"]["l"], t["span"]))
        # `component.unwrap_or(MAX_ITER, TOL)` (the method of SolverOptions): fields .0 / .1 of the result are max_iter / tol
        def dtext(a1):
            return str(a1.get("uneval") or a1.get("i") or a1.get("f") or a1.get("text")) if a1.get("k") == "const" else "?"
        for bi, t in b.calls():
            if str(callee(t)[2]) != "unwrap_or" or len(t["args"]) != 3 or t["args"][0].get("k") not in ("copy", "move"):
                continue
            if not (b.opty(t["args"][0]) or {}).get("s", "").endswith("SolverOptions"):
                continue
            pl = t["args"][0]["place"]
            proj = [q for q in pl["p"] if q != "*"]
            if pl["l"] in pp and len(proj) == 1 and isinstance(proj[0], dict) and "f" in proj[0]:
                c = (pl["l"], proj[0]["f"])
            elif not proj:
                c = _component(b, defs, pl["l"], pp)
            else:
                c = None
            if c is None or t["dest"]["p"]:
                continue
            res = t["dest"]["l"]
            for bj, sj, st in b.stmts():
                rv = st["rv"]
                if rv["k"] != "use" or rv["op"].get("k") not in ("copy", "move") or rv["op"]["place"]["l"] != res or st["place"]["p"]:
                    continue
                pr = [q for q in rv["op"]["place"]["p"] if q != "*"]
                if len(pr) == 1 and isinstance(pr[0], dict) and pr[0].get("f") in (0, 1):
                    k = pr[0]["f"]
                    unw.append((c, ("max_iter", "tol")[k], dtext(t["args"][1 + k]), bj, st["place"]["l"], st.get("span") or t["span"]))
        if not unw:
            continue
        n_fn += 1
        by = {}
        for c, f, dflt, bi, dl, sp in unw:
            by.setdefault((c, f), {}).setdefault(dflt, sp)
        for (c, f), ds in sorted(by.items()):
            iid = "pairroles|%s|component%d.%s" % (fn, c[1], f)
            if len(ds) == 1:
                r.inst(iid, list(ds.values())[0], "ok", default=list(ds)[0].split("::")[-1])
            else:
                r.inst(iid, list(ds.values())[-1], "violation")
                r.fail("pairroles|%s|component%d.%s|defaults" % (fn.split("::")[-1], c[1], f), list(ds.values())[-1],
                       "%s: `%s` of component %d of the (inner, outer) options pair is unwrapped under %d different defaults (%s)" % (
                           fn, f, c[1], len(ds), ", ".join(x.split("::")[-1] for x in sorted(ds))))
        # (ii) loops bounded by component k's max_iter are left on component k's tol
        loops = _loops(b)
        owner = {}   # loop header -> component
        succs = b.succs()

        def innermost(bi):
            inside = [q for q in loops if bi in loops[q]]
            return min(inside, key=lambda q: len(loops[q])) if inside else None
        for h, body in loops.items():
            # the loop's own control: the iterator it advances (`for`) or the exit tests it evaluates itself (`while`)
            src = set()
            for bi in sorted(body):
                if innermost(bi) != h:
                    continue
                tt = b.blocks[bi]["term"]
                if tt["k"] == "call" and str(callee(tt)[2]) == "next" and tt["args"] and tt["args"][0].get("k") in ("copy", "move"):
                    src |= _back(b, defs, [tt["args"][0]["place"]["l"]])
                elif tt["k"] == "switch" and tt["op"].get("k") in ("copy", "move") and not all(q in body for q in succs[bi]):
                    src |= _back(b, defs, [tt["op"]["place"]["l"]], calls=("unwrap_or",))
            cs = {c for c, f, dflt, bi, dl, sp in unw if f == "max_iter" and dl in src}
            if len(cs) == 1:
                owner[h] = cs.pop()
                n_loop += 1
                r.inst("pairroles|%s|loop-of-component%d" % (fn, owner[h][1]), b.blocks[h].get("span") or b.file_line(), "ok", blocks=len(body))
            elif len(cs) > 1:
                r.inst("pairroles|%s|loop-of-two-components" % fn, b.file_line(), "violation")
                r.fail("pairroles|%s|loop-bounded-by-both" % fn.split("::")[-1], b.file_line(),
                       "%s: one loop is bounded by `max_iter` of both components of the (inner, outer) options pair" % fn)
        for c, f, dflt, ubi, dl, sp in unw:
            if f != "tol":
                continue
            for si, blk in enumerate(b.blocks):
                t = blk["term"]
                if t["k"] != "switch" or t["op"].get("k") not in ("copy", "move"):
                    continue
                if dl not in _back(b, defs, [t["op"]["place"]["l"]], calls=()):
                    continue
                inside = [h for h in owner if si in loops[h]]
                if not inside:
                    continue
                h = min(inside, key=lambda q: len(loops[q]))
                if all(s in loops[h] for s in succs[si]):
                    continue
                n_exit += 1
                iid = "pairroles|%s|exit-of-loop%d-on-tol%d" % (fn, owner[h][1], c[1])
                if owner[h] == c:
                    r.inst(iid, sp, "ok")
                else:
                    r.inst(iid, sp, "violation")
                    r.fail("pairroles|%s|loop%d-left-on-tol%d" % (fn.split("::")[-1], owner[h][1], c[1]), sp,
                           "%s: the loop bounded by `max_iter` of component %d of the (inner, outer) options pair is left on a comparison "
                           "against `tol` of component %d: the tolerance the caller set for this loop is never consulted (invisible with "
                           "default options)" % (fn, owner[h][1], c[1]))
    r.floor("R66b functions unwrapping an (inner, outer) options pair", n_fn, 1)
    r.floor("R66b loops bounded by a component's max_iter", n_loop, 2)
    r.floor("R66b loop exits on a component's tol", n_exit, 2)
