"""R66 OPTIONS-FAMILY — a `SolverOptions` value is interpreted by one solver family only.

C05 / C07 / C04 / C06: "for all solver option pairs" — `SolverOptions { max_iter, tol, verbosity }` carries *optional* values; every
solver family fills the gaps with its own defaults (`options.unwrap_or(MAX_ITER_TP, TOL_TP)`), and `max_iter` / `tol` mean
different things in different solvers (the Tp flash counts cycles of five substitution steps to 1e-8, the stability analysis single
minimisation steps to 1e-6, the pure-component solver Newton steps to 1e-12).  The code base is consistent about this: options
are forwarded between functions of one family, and a nested solver of another kind is called with `SolverOptions::default()`.
Handing the caller's options to such a nested solver ("forward the verbosity") type-checks and changes nothing with default
options; with `max_iter(5)` on the flash the stability analysis now gives up before the flash has started.

Rule: for every function with a parameter of type `SolverOptions`, the set of default pairs under which that parameter is
unwrapped — by the function itself, the closures written in it, or any function it is forwarded to, transitively — has at most
one element.  (Pairs `(SolverOptions, SolverOptions)` for outer / inner loops are different parameters and not covered.)"""
from cfg import Defs, provenance
from facts import callee
from report import RuleResult


def _opt_params(b):
    return [l for l in range(1, b["arg_count"] + 1) if (b.lty(l) or {}).get("s", "").endswith("SolverOptions")]


def run(F):
    r = RuleResult("R66", "OPTIONS-FAMILY: a SolverOptions parameter is unwrapped under the defaults of one solver family only")
    own, fwd, where = {}, {}, {}
    for b in F.bodies:
        if b.is_closure() or not b.path.startswith(("feos_core::", "feos_dft::", "feos::")) or "::tests::" in b.path or "::python::" in b.path:
            continue
        ps = _opt_params(b)
        if not ps or "SolverOptions::" in b.path:
            continue
        own[b.path], fwd[b.path], where[b.path] = set(), {}, b.file_line()
        for x in [b] + [c for c in F.bodies if c.is_closure() and c.path.startswith(b.path + "::{closure#")]:
            defs = Defs(x)
            for bi, t in x.calls():
                nm = str(callee(t)[2])
                for i, a in enumerate(t["args"]):
                    if a.get("k") not in ("copy", "move") or not (x.opty(a) or {}).get("s", "").endswith("SolverOptions"):
                        continue
                    params, _ = provenance(x, defs, [a["place"]["l"]])
                    from_param = bool(set(params) & set(ps)) if x is b else (a["place"]["l"] == 1 or bool(params))
                    if not from_param:
                        continue
                    if nm == "unwrap_or" and i == 0:
                        own[b.path].add(tuple(str(c.get("uneval") or c.get("i") or c.get("f") or c.get("text")) if c.get("k") == "const" else "?"
                                              for c in t["args"][1:]))
                    else:
                        cb = F.callee_body(t)
                        if cb is not None and not cb.is_closure() and cb.path != b.path:
                            fwd[b.path][cb.path] = t["span"]
    D = {k: {(d, k) for d in v} for k, v in own.items()}          # (defaults, the function that applies them)
    changed = True
    while changed:
        changed = False
        for k in D:
            for c in fwd[k]:
                if c in D and not D[c] <= D[k]:
                    D[k] |= D[c]
                    changed = True
    n = 0
    for k in sorted(D):
        fams = {d for d, _ in D[k]}
        fn = k.split("::")[-1]
        iid = "optionsfamily|%s" % k.split("::", 1)[-1]
        if not fams:
            continue
        n += 1
        if len(fams) == 1:
            r.inst(iid, where[k], "ok", defaults=sorted(fams)[0], forwards_to=sorted(c.split("::")[-1] for c in fwd[k]))
            continue
        # name the forward that brings in the foreign defaults
        mine = own[k] or set()
        culprit = None
        for c, sp in fwd[k].items():
            if c in D and {d for d, _ in D[c]} - mine:
                culprit = (c, sp)
        r.inst(iid, culprit[1] if culprit else where[k], "violation")
        r.fail("optionsfamily|%s" % fn, culprit[1] if culprit else where[k],
               "%s: its SolverOptions parameter is unwrapped under %d different sets of defaults (%s)%s: max_iter / tol of one solver are "
               "handed to a nested solver of another kind that counts other steps to another tolerance — options that are fine for the "
               "outer solver make the inner one give up" % (
                   fn, len(fams), "; ".join("%s in %s" % ("/".join(x.split("::")[-1] for x in d), w.split("::")[-1]) for d, w in sorted(D[k])),
                   (", forwarded to %s" % culprit[0].split("::")[-1]) if culprit else ""))
    r.floor("options-taking functions with a single family of defaults", n, 18)
    r.exhaustive = True
    return [r]
