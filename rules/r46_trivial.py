"""R46 TRIVIAL-PREDICATE — "the two phases are the same" is decided only by `PhaseEquilibrium::is_trivial_solution`.

Whether a trial phase has collapsed onto the feed, or two coexisting phases onto each other, is decided in one reviewed
place that compares the *partial densities* (composition and density together).  A local re-implementation that compares
mole fractions only is necessary but not sufficient: for a pure fluid every trial phase has composition [1], so every
trial is declared trivial and no state is ever reported unstable (C07); two phases of equal composition but different
density (azeotrope, pure VLE) would be declared identical (C04/C05).  Rule: every trivial verdict — a construction of
`EosError::TrivialSolution`, and the `(None, _)` return of `minimize_tpd` — is reachable only through the true edge of a
branch on the result of `is_trivial_solution` (cut-set: with those edges removed the verdict is unreachable)."""
import boolsum
from cfg import Defs, reachable
from facts import callee
from report import RuleResult


def _trivial_true_edges(F, b, defs):
    edges = set()
    for bi, blk in enumerate(b.blocks):
        t = blk["term"]
        if t["k"] != "switch" or t["op"].get("k") not in ("copy", "move"):
            continue
        # condition derives from an is_trivial_solution call (possibly negated)
        l = t["op"]["place"]["l"]
        neg = False
        src = None
        for _ in range(6):
            ds = defs.of(l)
            if len(ds) != 1:
                break
            d = ds[0]
            if d[0] == "call":
                if callee(d[2])[2] == "is_trivial_solution":
                    src = d
                else:
                    # a thin wrapper (`fn is_trivial(&self) -> bool { Self::is_trivial_solution(self.vapor(), self.liquid()) }`):
                    # its summary over the atom is_trivial_solution is the atom itself (or its negation)
                    lit = boolsum.as_literal(boolsum.truth_table(F, F.callee_body(d[2]), ("is_trivial_solution",)), "is_trivial_solution")
                    if lit:
                        src = d
                        if lit < 0:
                            neg = not neg
                break
            rv = d[4]
            if rv["k"] == "unop" and rv["op"] == "Not" and rv["a"].get("k") in ("copy", "move"):
                neg = not neg
                l = rv["a"]["place"]["l"]
            elif rv["k"] in ("use", "cast") and rv["op"].get("k") in ("copy", "move"):
                l = rv["op"]["place"]["l"]
            else:
                break
        if src is None:
            continue
        tg = dict((v, blk_) for v, blk_ in t["targets"])
        false_t = tg.get("0")
        true_t = t["otherwise"] if "0" in tg else None
        if true_t is None:
            continue
        edges.add((bi, false_t if neg else true_t))
    return edges


def run(F):
    r = RuleResult("R46", "TRIVIAL-PREDICATE: trivial-solution verdicts are taken only under PhaseEquilibrium::is_trivial_solution")
    n = 0
    for b in F.bodies:
        if not b.path.startswith("feos_core::") or "::tests::" in b.path:
            continue
        verdict_blocks = []
        for bi, blk in enumerate(b.blocks):
            if blk.get("cleanup"):
                continue
            for st in blk["stmts"]:
                rv = st["rv"]
                if rv["k"] == "agg" and str(rv["kind"].get("adt", "")).endswith("EosError") and rv["kind"].get("variant") == "TrivialSolution":
                    verdict_blocks.append((bi, st.get("span", b.file_line()), "Err(TrivialSolution)"))
                if b.path.endswith("State<E>>::minimize_tpd") and st["place"]["l"] == 0 and rv["k"] == "agg" and rv["kind"].get("variant") == "Ok":
                    pass
        if b.path.endswith("State<E>>::minimize_tpd"):
            # Ok((None, i)): the tuple's first operand is a None aggregate
            defs0 = Defs(b)
            for bi, blk in enumerate(b.blocks):
                for st in blk["stmts"]:
                    rv = st["rv"]
                    if rv["k"] == "agg" and rv["kind"].get("t") == "tuple" and len(rv["ops"]) == 2 and rv["ops"][0].get("k") in ("copy", "move"):
                        for d in defs0.of(rv["ops"][0]["place"]["l"]):
                            if d[0] == "stmt" and d[4]["k"] == "agg" and d[4]["kind"].get("variant") == "None":
                                verdict_blocks.append((bi, st.get("span", b.file_line()), "Ok((None, _))"))
        if not verdict_blocks:
            continue
        defs = Defs(b)
        edges = _trivial_true_edges(F, b, defs)
        cut = reachable(b, removed_edges=frozenset(edges))
        for bi, span, what in verdict_blocks:
            n += 1
            fn = b.path.split("::{closure")[0]
            iid = "trivial|%s|%s@%s" % (fn, what, span.rsplit(":", 2)[-2])
            if bi in cut:
                r.inst(iid, span, "violation")
                r.fail("trivial|%s|%s" % (fn, what), span,
                       "%s: the verdict %s can be reached without the true edge of `PhaseEquilibrium::is_trivial_solution(..)`: identity of two phases "
                       "is decided by a local test (e.g. mole fractions only), which declares phases of equal composition but different density identical" % (fn, what))
            else:
                r.inst(iid, span, "ok")
    r.floor("trivial-solution verdicts", n, 5)
    r.exhaustive = True
    return [r]
