"""R61 GUESS-NOT-RETURNED — what an equilibrium solver returns has been through its iteration; the guess itself never is the result.

C12: "the guess is only a starting point; the convergence test is on the equilibrium residual".  R4 makes sure that the
*iteration routines* build a success value only behind convergence evidence.  The entry points that accept a guess
(`PhaseEquilibrium::pure_t / pure_p`, `State::tp_flash`, bubble / dew points) sit in front of them: they re-initialise the guess
(`init_pure_state`, `update_pressure`, ..) and hand it to the iteration.  A shortcut in such an entry point — "the guess is
already at the requested temperature, return it" — returns a value no convergence test has seen.  Rule: in every function of
the phase-equilibrium module that takes a guess (`Option<&PhaseEquilibrium>` / `&PhaseEquilibrium` besides `self`) and returns
an equilibrium, the value written to the return place does not derive from the guess parameter except through a call of an
iteration routine (a function whose success is guarded by R4, or another guess-taking entry point, which is checked itself)."""
import os
import tomllib

from cfg import Defs
from facts import callee
from report import RuleResult

HERE = os.path.dirname(os.path.abspath(__file__))


def _guess_params(b):
    out = []
    for l in range(1, b["arg_count"] + 1):
        s = b.lty(l)["s"]
        if "PhaseEquilibrium<" in s and s.startswith(("std::option::Option<&", "&")) and not (l == 1 and b.lname(l) == "self"):
            out.append(l)
    return out


def run(F):
    r = RuleResult("R61", "GUESS-NOT-RETURNED: a guess reaches the returned equilibrium only through an iteration routine")
    with open(os.path.join(HERE, "..", "tables", "r04.toml"), "rb") as fh:
        verdict = [e["fn"].split("::")[-1] for e in tomllib.load(fh)["verdict"]]
    entries = {b.path: b for b in F.bodies if not b.is_closure() and b.crate == "feos_core" and "phase_equilibria" in b.path
               and "::tests::" not in b.path and _guess_params(b) and "PhaseEquilibrium<" in (b.lty(0) or {}).get("s", "")}
    iterate = set(verdict) | {"tp_flash_", "iterate_bubble_dew", "bubble_dew", "iterate_pure_t"}
    # entry points: guess-taking functions that hand on to an iteration routine (a re-initialiser such as `init_pure_state` is not
    # one) and are not themselves an iteration routine checked by R4 (`pure_p` iterates in its own body)
    def _calls_iteration(b_):
        for x_ in [b_] + [c for c in F.bodies if c.is_closure() and (c.d.get("parent") or "") == b_.path]:
            for _bi, t_ in x_.calls():
                if str(callee(t_)[2]) in iterate or (F.callee_body(t_) is not None and F.callee_body(t_).path in entries and F.callee_body(t_).path != b_.path):
                    return True
        return False
    entries = {p_: b_ for p_, b_ in entries.items() if p_.split("::")[-1] not in verdict}
    entries = {p_: b_ for p_, b_ in entries.items() if _calls_iteration(b_)}
    cutters = iterate | {p.split("::")[-1] for p in entries} | {"from_residual"}
    n = 0
    for path, b in sorted(entries.items()):
        bodies = [b] + [c for c in F.bodies if c.is_closure() and c.path.startswith(b.path + "::{closure#")]
        # forward taint from the guess parameter(s), per body; closures: captured guess = upvar whose name is the parameter's name
        gnames = {b.lname(l) for l in _guess_params(b)}
        leak = None
        ret_taint = {}          # closure path -> returns tainted value
        param_taint = set()     # closures whose parameter receives a tainted value (`guess.and_then(|init| ..)`)
        for _round in range(3):
            for x in bodies[::-1]:
                defs = Defs(x)
                tainted = set()
                if x is b:
                    tainted |= set(_guess_params(b))
                elif x.path in param_taint:
                    tainted |= set(range(2, x["arg_count"] + 1))

                def op_t(o):
                    if o.get("k") not in ("copy", "move"):
                        return False
                    pl = o["place"]
                    if pl["l"] in tainted:
                        return True
                    nm = [p.get("n") for p in pl["p"] if isinstance(p, dict) and "f" in p]
                    return x.is_closure() and pl["l"] == 1 and bool(nm) and nm[0] in gnames
                changed = True
                while changed:
                    changed = False
                    for bi, si, st in x.stmts():
                        rv = st["rv"]
                        k = rv["k"]
                        ops = [rv["op"]] if k in ("use", "cast") else rv["ops"] if k == "agg" else []
                        if k in ("ref", "discr"):
                            ops = [{"k": "copy", "place": rv["place"]}]
                        if k == "agg" and rv["kind"].get("t") == "closure":
                            continue
                        if any(op_t(o) for o in ops) and k != "discr" and st["place"]["l"] not in tainted:
                            tainted.add(st["place"]["l"])
                            changed = True
                    for bi, t in x.calls():
                        nm = str(callee(t)[2])
                        import boolsum
                        clos = [boolsum.closure_def_of_type(x.opty(a)) for a in t["args"] if a.get("k") in ("copy", "move")]
                        clos = [c_ for c_ in clos if c_]
                        if clos and t["args"] and op_t(t["args"][0]):
                            param_taint.update(clos)      # the closure is applied to the (tainted) receiver's payload
                        if nm in ("call", "call_mut", "call_once") and clos and boolsum.closure_def_of_type(x.opty(t["args"][0])) in clos:
                            # a local closure applied to arguments: its parameters receive them, its result is what it returns
                            cdef = boolsum.closure_def_of_type(x.opty(t["args"][0]))
                            if any(op_t(a) for a in t["args"][1:]):
                                param_taint.add(cdef)
                            hit = bool(ret_taint.get(cdef))
                        elif nm in ("and_then", "map", "then", "then_some") and clos:
                            # the result is what the closure returns, not the receiver
                            hit = any(ret_taint.get(c_) for c_ in clos)
                        else:
                            hit = any(op_t(a) for a in t["args"]) or any(ret_taint.get(c_) for c_ in clos)
                        if not hit or nm in cutters:
                            continue
                        if t["dest"]["l"] not in tainted and not t["dest"]["p"]:
                            tainted.add(t["dest"]["l"])
                            changed = True
                if x.is_closure():
                    ret_taint[x.path] = 0 in tainted
                elif 0 in tainted:
                    # find a witness: the statement / call writing a tainted value to the return place
                    for bi, si, st in x.stmts():
                        if st["place"]["l"] == 0:
                            leak = st.get("span", x.file_line())
                    for bi, t in x.calls():
                        if t["dest"]["l"] == 0:
                            leak = t["span"]
                    leak = leak or x.file_line()
        n += 1
        fn = path.split("::")[-1]
        iid = "guessreturn|%s" % fn
        if leak:
            r.inst(iid, leak, "violation")
            r.fail(iid, leak,
                   "%s: the returned equilibrium can be the initial guess itself (or a re-initialised copy of it) without passing through an "
                   "iteration routine: a guess that is not a converged solution is reported as the result" % fn)
        else:
            r.inst(iid, b.file_line(), "ok")
    r.floor("guess-taking equilibrium entry points", n, 4)
    r.exhaustive = True
    return [r]
