"""R8 TOPORDER — a derivative extracted from a concrete dual value is its top-order part.

R8a (census): every *read* projection chain from a num_dual value down to a non-dual scalar takes, at every
step, the top-order part of that step's type (Dual.eps, Dual2.v2, HyperDual.eps1eps2, Dual3.v3); reads of lower
parts are allowed only for (function, chain) pairs listed with a reason in tables/r08.toml
(cache by-products are judged by R7).
R8b (positional): in FunctionalContribution::{first,second}_partial_derivatives the part assigned to the k-th
output array parameter has derivative order k."""
import os
import tomllib

from cfg import Defs, strip_place, roots
from facts import callee
from report import RuleResult

TOP = {"num_dual::Dual": "eps", "num_dual::Dual2": "v2", "num_dual::HyperDual": "eps1eps2", "num_dual::Dual3": "v3",
       "num_dual::DualVec": "eps", "num_dual::Dual2Vec": "v2", "num_dual::HyperDualVec": "eps1eps2", "num_dual::HyperHyperDual": "eps1eps2eps3"}
ORDER = {"re": 0, "eps": 1, "eps1": 1, "eps2": 1, "v1": 1, "v2": 2, "eps1eps2": 2, "v3": 3}
TABLE = os.path.join(os.path.dirname(os.path.dirname(os.path.abspath(__file__))), "tables", "r08.toml")


def read_places(b):
    for bi, si, st in b.stmts():
        rv = st["rv"]
        ops = []
        k = rv["k"]
        if k in ("use", "cast", "repeat"):
            ops = [rv["op"]]
        elif k == "unop":
            ops = [rv["a"]]
        elif k == "binop":
            ops = [rv["a"], rv["b"]]
        elif k == "agg":
            ops = rv["ops"]
        elif k == "ref":
            if not rv["mut"]:
                ops = [{"k": "copy", "place": rv["place"]}]
        for o in ops:
            if o and o.get("k") in ("copy", "move"):
                yield o["place"], st["span"]
    for bi, t in b.calls():
        for o in t["args"]:
            if o.get("k") in ("copy", "move"):
                yield o["place"], t["span"]


def fn_key(b):
    """closure bodies are attributed to their parent function"""
    return b.d.get("parent") if b.is_closure() else b.path


def run(F):
    with open(TABLE, "rb") as fh:
        tab = tomllib.load(fh)
    allow = {}
    for e in tab.get("allow", []):
        allow[(e["fn"], e["chain"])] = e["reason"]
    used = set()
    r = RuleResult("R8", "TOPORDER: derivatives are read from the top-order part of the dual value")
    n = 0
    for b in F.bodies:
        if "::cache::Cache::" in b.path:
            continue
        for pl, span in read_places(b):
            chain = [p for p in pl["p"] if isinstance(p, dict) and "f" in p and p.get("o") and p["o"].startswith("num_dual::")]
            if not chain:
                continue
            # only chains that end in a non-dual scalar are extractions (nested .re/.eps yielding the generic D keep all user derivatives)
            final_ty = b.ty(chain[-1]["ty"])
            if final_ty["dual"]:
                continue
            n += 1
            names = ".".join(p["n"] for p in chain)
            top = all(TOP.get(p["o"]) == p["n"] for p in chain)
            fk = fn_key(b)
            iid = "%s|%s" % (fk, names)
            if top:
                r.inst(iid, span, "ok", chain=names)
                continue
            hit = None
            for (fn, ch), reason in allow.items():
                if fk.endswith(fn) and ch == names:
                    hit = (fn, ch)
            if hit:
                used.add(hit)
                r.inst(iid, span, "exempt", chain=names, reason=allow[hit])
            else:
                r.inst(iid, span, "violation", chain=names)
                r.fail("%s|reads|%s" % (fk, names), span,
                       "%s reads part `%s` of a %s value where the top-order part `%s` is the derivative that the seeding produces "
                       "(a lower part is a different, lower-order derivative)" % (
                           fk, names, chain[-1]["o"], ".".join(TOP.get(p["o"], "?") for p in chain)))
    for k in allow:
        if k not in used:
            r.notes.append("table entry not matched on this tree/config: %s %s" % k)
    r.floor("part extraction sites", n, tab["floors"]["sites"])

    # ---------------- R8b positional pairing in first/second_partial_derivatives
    n_b = 0
    for fname in ("first_partial_derivatives", "second_partial_derivatives"):
        bs = [b for b in F.bodies if not b.is_closure() and b.path.endswith("FunctionalContribution::" + fname)]
        if not bs:
            r.fail("missing|" + fname, "-", "FunctionalContribution::%s not found" % fname)
            continue
        b = bs[0]
        defs = Defs(b)
        # output params in order: ArrayViewMut-typed parameters
        outs = [l for l in range(1, b["arg_count"] + 1) if "ViewRepr<&mut" in b.lty(l)["s"]]
        clos = {c.path: c for c in F.closures_of(b.path)}
        for bi, t in b.calls():
            p, tr, name = callee(t)
            if name != "assign":
                continue
            dst_roots = roots(b, defs, t["args"][0]["place"]["l"]) if t["args"][0]["k"] in ("copy", "move") else set()
            dst_roots = through_calls(b, defs, dst_roots)
            dst = [o for o in outs if o in dst_roots]
            part = source_part(b, defs, clos, t["args"][1])
            n_b += 1
            iid = "%s|assign|param%s<-%s" % (fname, [outs.index(d) for d in dst], part)
            if len(dst) != 1 or part is None:
                r.inst(iid, t["span"], "violation")
                r.fail("%s|assign|unresolved" % fname, t["span"], "%s: cannot resolve destination parameter / source part of an assign()" % fname)
                continue
            k = outs.index(dst[0])
            if ORDER.get(part) != k:
                r.inst(iid, t["span"], "violation")
                r.fail("%s|assign|out%d<-%s" % (fname, k, part), t["span"],
                       "%s assigns part `%s` (derivative order %s) to output parameter #%d `%s`, which holds derivative order %d"
                       % (fname, part, ORDER.get(part), k, b.lname(dst[0]), k))
            else:
                r.inst(iid, t["span"], "ok")
    r.floor("partial-derivative assigns", n_b, 6)
    r.exhaustive = True
    return [r]


def through_calls(b, defs, rs, depth=6):
    """extend roots through view-producing calls (index_axis_mut(...) of a root)"""
    out = set(rs)
    frontier = set(rs)
    for _ in range(depth):
        new = set()
        for l in frontier:
            for d in defs.of(l):
                if d[0] == "call":
                    t = d[2]
                    name = callee(t)[2]
                    if name in ("index_axis_mut", "index_axis", "view_mut", "view", "reborrow", "deref_mut", "deref", "slice_mut", "borrow_mut",
                                "outer_iter_mut", "axis_iter_mut", "rows_mut", "lanes_mut", "iter_mut", "enumerate", "into_iter", "next", "zip"):
                        # (iterating over the rows of an output: `for (i, mut row) in out.outer_iter_mut().enumerate()`)
                        a0 = t["args"][0]
                        if a0["k"] in ("copy", "move"):
                            new |= roots(b, defs, a0["place"]["l"])
        new -= out
        if not new:
            break
        out |= new
        frontier = new
    return out


def source_part(b, defs, clos, op):
    """the dual part read by the closure of `x.mapv(closure)` that produced the assign() source"""
    if op["k"] not in ("copy", "move"):
        return None
    for l in roots(b, defs, op["place"]["l"]):
        for d in defs.of(l):
            if d[0] != "call":
                continue
            t = d[2]
            if callee(t)[2] not in ("mapv", "map"):
                continue
            for a in t["args"][1:]:
                ty = b.opty(a)
                if ty and ty["k"].startswith("closure:"):
                    c = clos.get(ty["k"][len("closure:"):])
                    if c is None:
                        continue
                    parts = set()
                    for pl, _ in read_places(c):
                        for p in pl["p"]:
                            if isinstance(p, dict) and "f" in p and p.get("o", "") and p["o"].startswith("num_dual::"):
                                parts.add(p["n"])
                    if len(parts) == 1:
                        return parts.pop()
    return None
