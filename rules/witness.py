"""E3 / W — type-level witnesses: compile-pass and compile_fail doctests against /repo's feos-core (thorough tier).
The witness crate path-depends on the analysed tree, so every run re-type-checks the current source."""
import os
import re
import shutil
import subprocess

from report import RuleResult
import facts

SRC = os.path.join(facts.VERIF, "engines", "witness")


def run(F, want=None):
    r = RuleResult("W", "type-level witnesses (compile_fail doctests with compiling twins)")
    wd = os.path.join(facts.CACHE, "witness-%s" % (F.treehash or "x"))
    os.makedirs(os.path.join(wd, "src"), exist_ok=True)
    toml = open(os.path.join(SRC, "Cargo.toml.in")).read().replace("@REPO@", F.repo)
    open(os.path.join(wd, "Cargo.toml"), "w").write(toml)
    shutil.copy(os.path.join(SRC, "src", "lib.rs"), os.path.join(wd, "src", "lib.rs"))
    lock = os.path.join(F.repo, "Cargo.lock")
    if os.path.exists(lock):
        shutil.copy(lock, os.path.join(wd, "Cargo.lock"))
    env = dict(os.environ, CARGO_NET_OFFLINE="true", CARGO_TARGET_DIR=os.path.join(facts.CACHE, "witness-target"), RUSTFLAGS="-Awarnings", RUSTDOCFLAGS="-Awarnings")
    p = subprocess.run(["cargo", "+nightly", "test", "--doc", "--offline"], cwd=wd, env=env, stdout=subprocess.PIPE, stderr=subprocess.STDOUT, text=True)
    out = p.stdout
    shutil.rmtree(wd, ignore_errors=True)
    tests = re.findall(r"^test src/lib\.rs - (\w+) \(line (\d+)\)( - compile fail)? \.\.\. (\w+)", out, re.M)
    if not tests:
        r.fail("witness|no-output", "-", "the witness crate produced no doctest results (feos-core does not build?): %s" % out[-1500:])
        return [r]
    by_name = {}
    for name, line, cf, res in tests:
        by_name.setdefault(name, []).append((bool(cf), res))
    for name, items in sorted(by_name.items()):
        if want and not any(name.startswith(w) for w in want):
            continue
        for cf, res in items:
            iid = "witness|%s|%s" % (name, "compile_fail" if cf else "twin")
            if res == "ok":
                r.inst(iid, "engines/witness/src/lib.rs", "ok")
            else:
                r.inst(iid, "engines/witness/src/lib.rs", "violation")
                if cf:
                    r.fail("witness|%s|now-compiles" % name, "engines/witness/src/lib.rs",
                           "witness %s: code that must not type-check outside feos-core now compiles (visibility widened)" % name)
                else:
                    r.fail("witness|%s|twin-broken" % name, "engines/witness/src/lib.rs",
                           "witness %s: the compiling twin no longer compiles — the witness would pass vacuously (API changed; re-confirm)" % name)
    r.floor("witness doctests", len(r.instances), 2)
    r.exhaustive = True
    return [r]
