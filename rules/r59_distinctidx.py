"""R59 DISTINCT-INDEX — an array literal assembled from the elements of one vector uses every index once.

`arr1(&[rho[0], rho[1]])`, `[x[0], x[1], x[2]]`, `SVector::from([t, rho[0], rho[1]])`: when the elements of a literal are
constant-index reads of one and the same vector, a repeated index (`[rho[0], rho[0]]`) is a copy / paste slip that type-checks,
keeps the shape and silently evaluates the model for a fictitious composition (seed C06e: the pressure condition of the
binary critical point at given p).  Rule: in such literals the constant indices are pairwise distinct."""
from cfg import Defs
from facts import callee
from report import RuleResult


def _elem(b, defs, op, depth=0):
    """(base root local, constant index) of an operand that is a constant-index read of a vector, else None"""
    if op.get("k") not in ("copy", "move") or depth > 8:
        return None
    pl = op["place"]
    if depth > 0 and b.lname(pl["l"]) and not [p for p in pl["p"] if p != "*"]:
        return None       # a named binding (`let [c0, c1, c2, c3] = ..; [c2, c3.clone(), c3]`): using a name twice is deliberate
    cidx = [p for p in pl["p"] if isinstance(p, dict) and "cidx" in p]
    if cidx:
        return (_root(b, defs, pl["l"]), int(cidx[-1]["cidx"]))
    if [p for p in pl["p"] if p != "*"]:
        return None
    ds = defs.of(pl["l"])
    if len(ds) != 1:
        return None
    d = ds[0]
    if d[0] == "call":
        t = d[2]
        if callee(t)[2] in ("index", "index_mut", "get") and len(t["args"]) == 2:
            i = t["args"][1]
            idx = None
            if i.get("k") == "const" and str(i.get("bits", "")).isdigit():
                idx = int(i["bits"])
            if idx is None:
                return None
            a0 = t["args"][0]
            if a0.get("k") in ("copy", "move"):
                return (_root(b, defs, a0["place"]["l"]), idx)
        if callee(t)[2] in ("clone", "deref", "into", "from", "to_owned") and t["args"]:
            return _elem(b, defs, t["args"][0], depth + 1)
        return None
    rv = d[4]
    if rv["k"] in ("use", "cast"):
        return _elem(b, defs, rv["op"], depth + 1)
    if rv["k"] == "ref":
        return _elem(b, defs, {"k": "copy", "place": rv["place"]}, depth + 1)
    return None


def _root(b, defs, l, depth=0):
    for _ in range(8):
        ds = defs.of(l)
        if len(ds) != 1 or ds[0][0] != "stmt":
            return l
        rv = ds[0][4]
        if rv["k"] in ("use", "cast") and rv["op"].get("k") in ("copy", "move") and not [p for p in rv["op"]["place"]["p"] if p != "*"]:
            l = rv["op"]["place"]["l"]
        elif rv["k"] == "ref" and not [p for p in rv["place"]["p"] if p != "*"]:
            l = rv["place"]["l"]
        elif rv["k"] in ("ref", "use") and (rv.get("place") or rv.get("op", {}).get("place")):
            # a field / captured variable: identified by its owner and field path (`&(*_1).rho` is the same vector each time)
            pl = rv.get("place") or rv["op"]["place"]
            fl = tuple(p["f"] for p in pl["p"] if isinstance(p, dict) and "f" in p)
            if fl and not [p for p in pl["p"] if isinstance(p, dict) and "f" not in p]:
                return ("field", pl["l"], fl)
            return l
        else:
            return l
    return l


def run(F, scopes=("feos_core::", "feos_dft::", "feos::")):
    r = RuleResult("R59", "DISTINCT-INDEX: array literals built from constant-index reads of one vector use distinct indices")
    n = 0
    for b in F.bodies:
        if not b.path.startswith(tuple(scopes)) or "::tests::" in b.path or "::test::" in b.path or b.get("exp"):
            continue
        defs = None
        for bi, si, st in b.stmts():
            rv = st["rv"]
            if not (rv["k"] == "agg" and rv["kind"].get("t") == "array" and len(rv["ops"]) >= 2) or st.get("exp"):
                continue
            defs = defs or Defs(b)
            els = [None if (o.get("k") in ("copy", "move") and b.lname(o["place"]["l"]) and not o["place"]["p"]) else _elem(b, defs, o, 0) for o in rv["ops"]]
            got = [e for e in els if e is not None]
            if len(got) < 2:
                continue
            bases = {}
            for e in got:
                bases.setdefault(e[0], []).append(e[1])
            for base, idxs in bases.items():
                if len(idxs) < 2:
                    continue
                n += 1
                fn = b.path.split("::{closure")[0]
                bname = (b.lname(base) if isinstance(base, int) else None) or "vector"
                iid = "distinctidx|%s|%s" % (fn, bname)
                if len(set(idxs)) < len(idxs):
                    r.inst(iid, st.get("span", b.file_line()), "violation", indices=idxs)
                    r.fail(iid, st.get("span", b.file_line()),
                           "%s: an array literal is assembled from `%s` with the indices %s — one element is used twice and another one not at all" % (
                               fn, bname, idxs))
                else:
                    r.inst(iid, st.get("span", b.file_line()), "ok", indices=idxs)
    r.floor("array literals assembled from one vector", n, 4)
    r.exhaustive = True
    return [r]
