"""MIR pretty printer for the JSON facts (debugging aid): python3 rules/mirpp.py <path-suffix> [config]"""
import json
import sys


def P(pl):
    s = '_%d' % pl['l']
    for p in pl['p']:
        if p == '*':
            s = '(*%s)' % s
        elif isinstance(p, dict) and 'f' in p:
            s += '.%s' % (p['n'] if p['n'] is not None else p['f'])
        elif isinstance(p, dict) and 'dc' in p:
            s = '(%s as %s)' % (s, p['dc'])
        elif isinstance(p, dict) and 'idx' in p:
            s += '[_%d]' % p['idx']
        elif isinstance(p, dict) and 'cidx' in p:
            s += '[%d]' % p['cidx']
        else:
            s += '[?]'
    return s


def O(o):
    if o['k'] == 'const':
        if 'fn' in o:
            return 'fn ' + o['fn'].get('path', '?')
        if 'uneval' in o and 'bits' not in o:
            return 'const ' + o['uneval'] + str(o.get('uneval_args', ''))
        return 'const ' + (o.get('f') or o.get('text', ''))[:60]
    if o['k'] == 'other':
        return 'other'
    return o['k'] + ' ' + P(o['place'])


def RV(rv):
    k = rv['k']
    if k == 'use':
        return O(rv['op'])
    if k == 'ref':
        return '&' + ('mut ' if rv['mut'] else '') + P(rv['place'])
    if k == 'agg':
        kd = rv['kind']
        nm = (kd.get('adt', '') + '::' + kd.get('variant', '')) if kd['t'] == 'adt' else (kd['t'] + (' ' + kd.get('def', '') if kd['t'] == 'closure' else ''))
        return 'agg %s(%s)' % (nm, ', '.join(O(o) for o in rv['ops']))
    if k == 'binop':
        return '%s(%s, %s)' % (rv['op'], O(rv['a']), O(rv['b']))
    if k == 'unop':
        return '%s(%s)' % (rv['op'], O(rv['a']))
    if k == 'discr':
        return 'discr(' + P(rv['place']) + ')'
    if k == 'cast':
        return 'cast(%s)' % O(rv['op'])
    return k + ' ' + json.dumps(rv)[:80]


def dump(b, out=sys.stdout, cleanup=False):
    w = out.write
    w('fn %s  [%s]\n' % (b.path, b.file_line()))
    for i, l in enumerate(b.locals):
        w('  let _%d: %s%s\n' % (i, b.lty(i)['s'][:110], ('  // ' + l['name']) if l.get('name') else ''))
    for bi, blk in enumerate(b.blocks):
        if blk['cleanup'] and not cleanup:
            continue
        w('bb%d:\n' % bi)
        for st in blk['stmts']:
            w('    %s = %s   // %s\n' % (P(st['place']), RV(st['rv']), st['span'].split('/')[-1]))
        t = blk['term']
        if t['k'] == 'call':
            f = t['fn']
            nm = f.get('path') or ('indirect ' + O(f['indirect']))
            extra = ''
            if f.get('trait'):
                extra = ' <self=%s>' % b.ty(f['self_ty'])['s'][:50] if 'self_ty' in f else ''
            if f.get('resolved'):
                extra += ' => ' + f['resolved']
            w('    %s = call %s%s (%s) -> %s   // %s\n' % (P(t['dest']), nm, extra, ', '.join(O(a) for a in t['args']), t['target'], t['span'].split('/')[-1]))
        elif t['k'] == 'switch':
            w('    switch %s %s otherwise %s\n' % (O(t['op']), t['targets'], t['otherwise']))
        else:
            w('    %s %s\n' % (t['k'], t.get('target', '')))


if __name__ == '__main__':
    import facts
    F = facts.load(sys.argv[2] if len(sys.argv) > 2 else 'full')
    for b in F.bodies:
        if b.path.endswith(sys.argv[1]):
            dump(b)
