"""R51 GEOMETRY-VOLUME — `Axis::volume` and the integration weights of the same geometry carry the same prefactor and power.

C16: "the reported system volume equals the integral of one over the grid with the grid's own integration weights".
Every integral of a profile is sum_k w_k f_k with the weights built by the constructor of the axis (`new_cartesian`,
`new_spherical`, `new_polar`), while `Axis::volume` computes prefactor(geometry) * length^dimension(geometry) separately.
Whether sum_k w_k telescopes to exactly that closed form is algebra (not decided here); but the two are written from the
same formula, w_k = C * L^d * g(k) with a dimensionless g, so a necessary condition that is visible in the code is

  for every geometry G: the product of the floating-point constants that multiply the weight expression of G's constructor
  equals the constant `volume()` selects for G, and the number of length factors in the weight expression equals
  `Geometry::dimension()` of G.

(4*pi/3 * dr^3 * (3k^2+3k+1) against 4*pi/3 * L^3; pi * L^2 * e^(..) * g(k) against the Cylindrical arm.)  Constants are
compared by value, so `4.0 * FRAC_PI_3` and `4.0 / 3.0 * PI` agree."""
from cfg import Defs
from facts import callee
from report import RuleResult

AXIS = "feos_dft::geometry::Axis"


def _fval(op):
    if op.get("k") == "const" and op.get("f") is not None:
        try:
            return float(op["f"])
        except ValueError:
            return None
    return None


def _arm_constants(b, field_name):
    """switch on the discriminant of `<place>.field_name`: {variant index: {local: constant value assigned in that arm}}"""
    out = {}
    for bi, blk in enumerate(b.blocks):
        t = blk["term"]
        if t["k"] != "switch" or t["op"].get("k") not in ("copy", "move"):
            continue
        dl = t["op"]["place"]["l"]
        is_geo = False
        for bj, si, st in b.stmts():
            if st["place"]["l"] == dl and st["rv"]["k"] == "discr":
                pl = st["rv"]["place"]
                names = [p.get("n") for p in pl["p"] if isinstance(p, dict)]
                if field_name is None or field_name in names:
                    is_geo = True
        if not is_geo:
            continue
        for v, tgt in t["targets"]:
            env = {}
            for st in b.blocks[tgt]["stmts"]:
                if st["place"]["p"]:
                    continue
                rv = st["rv"]
                val = None
                if rv["k"] == "use":
                    val = _fval(rv["op"])
                    if val is None and rv["op"].get("k") == "const" and rv["op"].get("i") is not None:
                        val = int(rv["op"]["i"])
                    if val is None and rv["op"].get("k") in ("copy", "move"):
                        val = env.get(rv["op"]["place"]["l"])
                elif rv["k"] == "binop" and rv["op"] in ("Mul", "Div"):
                    xs = []
                    for o in (rv["a"], rv["b"]):
                        x = _fval(o)
                        if x is None and o.get("k") in ("copy", "move"):
                            x = env.get(o["place"]["l"])
                        xs.append(x)
                    if None not in xs:
                        val = xs[0] * xs[1] if rv["op"] == "Mul" else xs[0] / xs[1]
                if val is not None:
                    env[st["place"]["l"]] = val
            out[int(v)] = env
        return out
    return out


class _Factors:
    """multiplicative factorisation of a float expression: constant product, number of length factors"""

    def __init__(self, b, length_locals, length_upvars=(), F=None, vidx=None, parent=None):
        self.F = F
        self.vidx = vidx
        self.parent = parent
        self.b = b
        self.defs = Defs(b)
        self.len_locals = length_locals
        self.len_upvars = set(length_upvars)
        self.const = 1.0
        self.degree = 0
        self.opaque = 0

    def is_length_place(self, pl):
        names = [p.get("n") for p in pl["p"] if isinstance(p, dict) and "f" in p]
        if pl["l"] == 1 and self.b.is_closure() and names:
            return names[0] in self.len_upvars
        return not names and pl["l"] in self.len_locals

    def visit(self, op, sign=1, depth=0):
        v = _fval(op)
        if v is not None:
            self.const = self.const * v if sign > 0 else self.const / v
            return
        if op.get("k") not in ("copy", "move") or depth > 40:
            self.opaque += 1
            return
        pl = op["place"]
        if self.is_length_place(pl):
            self.degree += sign
            return
        names = [p.get("n") for p in pl["p"] if isinstance(p, dict) and "f" in p]
        if pl["l"] == 1 and self.b.is_closure() and names and self.parent is not None:
            # a factor computed once in the enclosing function and captured (`let area0 = e^(..) * PI * l * l;`): factorise its
            # definition there
            pb, plens = self.parent
            for l2 in range(len(pb.locals)):
                if pb.lname(l2) == names[0] and Defs(pb).of(l2):
                    sub = _Factors(pb, plens, (), self.F, self.vidx)
                    sub.visit({"k": "copy", "place": {"l": l2, "p": []}}, 1, depth + 1)
                    self.const = self.const * sub.const if sign > 0 else self.const / sub.const
                    self.degree += sign * sub.degree
                    self.opaque += sub.opaque
                    return
        if [p for p in pl["p"] if p != "*"]:
            self.opaque += 1
            return
        ds = self.defs.of(pl["l"])
        if len(ds) != 1:
            self.opaque += 1          # joined value (match arms): the position-dependent, dimensionless part
            return
        d = ds[0]
        if d[0] == "call":
            t = d[2]
            name = callee(t)[2]
            cb = self.F.callee_body(t) if self.F is not None else None
            if cb is not None and "geometry::Geometry::" in cb.path and (cb.lty(0) or {}).get("s") == "f64" and self.vidx is not None:
                # a per-geometry constant provided by a method of Geometry (`geometry.unit_volume()`), for the geometry this
                # constructor stores
                arms = _arm_constants(cb, None).get(self.vidx, {})
                fl = [x for x in arms.values() if isinstance(x, float)]
                if fl:
                    self.const = self.const * fl[-1] if sign > 0 else self.const / fl[-1]
                    return
            if name == "powi" and len(t["args"]) == 2 and t["args"][1].get("i") is not None:
                n = int(t["args"][1]["i"])
                sub = _Factors(self.b, self.len_locals, self.len_upvars, self.F, self.vidx)
                sub.defs = self.defs
                sub.visit(t["args"][0], 1, depth + 1)
                self.const *= sub.const ** (n * sign)
                self.degree += sub.degree * n * sign
                self.opaque += sub.opaque
            else:
                self.opaque += 1
            return
        rv = d[4]
        if rv["k"] == "binop" and rv["op"] == "Mul":
            self.visit(rv["a"], sign, depth + 1)
            self.visit(rv["b"], sign, depth + 1)
        elif rv["k"] == "binop" and rv["op"] == "Div":
            self.visit(rv["a"], sign, depth + 1)
            self.visit(rv["b"], -sign, depth + 1)
        elif rv["k"] in ("use", "cast") and rv["op"].get("k") in ("copy", "move") and rv["k"] == "use":
            self.visit(rv["op"], sign, depth + 1)
        elif rv["k"] == "use":
            self.visit(rv["op"], sign, depth + 1)
        else:
            self.opaque += 1


def _length_locals(b):
    """locals of a constructor whose value is a length: derived from the parameter named `length` by to_reduced, +/- offsets
    and division by the number of points"""
    start = {l for l in range(1, b["arg_count"] + 1) if (b.lname(l) or "") == "length"}
    derived = set(start)
    changed = True
    while changed:
        changed = False
        for bi, si, st in b.stmts():
            if st["place"]["p"] or st["place"]["l"] in derived:
                continue
            rv = st["rv"]
            ops = []
            if rv["k"] in ("use", "cast"):
                ops = [rv["op"]]
            elif rv["k"] == "ref":
                ops = [{"k": "copy", "place": rv["place"]}]
            elif rv["k"] == "binop" and rv["op"] in ("Add", "Sub", "Div"):
                ops = [rv["a"]]           # l + offset, l / n: still a length; (n / l is not)
                if rv["op"] in ("Add", "Sub"):
                    ops.append(rv["b"])
            if any(o.get("k") in ("copy", "move") and not [p for p in o["place"]["p"] if p != "*"] and o["place"]["l"] in derived for o in ops):
                derived.add(st["place"]["l"])
                changed = True
        for bi, t in b.calls():
            if t["dest"]["p"] or t["dest"]["l"] in derived:
                continue
            if callee(t)[2] in ("to_reduced", "into_value", "div", "add", "sub", "clone") and t["args"] and t["args"][0].get("k") in ("copy", "move") \
                    and t["args"][0]["place"]["l"] in derived and not [p for p in t["args"][0]["place"]["p"] if p != "*"]:
                derived.add(t["dest"]["l"])
                changed = True
            # a grid of positions between two lengths is an array of lengths
            if callee(t)[2] in ("linspace", "range", "view", "deref", "borrow") and any(
                    a.get("k") in ("copy", "move") and a["place"]["l"] in derived and not [p for p in a["place"]["p"] if p != "*"] for a in t["args"]):
                derived.add(t["dest"]["l"])
                changed = True
    return derived


def _weights_of(F, b):
    """(variant index of the Geometry stored, _Factors of the element expression of the integration weights)"""
    import boolsum
    defs = Defs(b)
    for bi, si, st in b.stmts():
        rv = st["rv"]
        if not (rv["k"] == "agg" and rv["kind"].get("adt") == AXIS):
            continue
        fields = rv["kind"].get("fields", [])
        if "geometry" not in fields or "integration_weights" not in fields:
            continue
        gop = rv["ops"][fields.index("geometry")]
        wop = rv["ops"][fields.index("integration_weights")]
        vidx = None
        if gop.get("k") in ("copy", "move"):
            work, seen_ = [gop["place"]["l"]], set()
            while work:
                x = work.pop()
                if x in seen_:
                    continue
                seen_.add(x)
                for d in defs.of(x):
                    if d[0] == "stmt" and d[4]["k"] == "agg" and "vidx" in d[4]["kind"]:
                        vidx = d[4]["kind"]["vidx"]
                    elif d[0] == "stmt" and d[4]["k"] == "use" and d[4]["op"].get("k") in ("copy", "move"):
                        work.append(d[4]["op"]["place"]["l"])
        elif gop.get("k") == "const":
            vidx = gop.get("vidx")
        lens = _length_locals(b)
        len_names = {b.lname(l) for l in lens if b.lname(l)}
        # producer of the weights array
        l = wop["place"]["l"] if wop.get("k") in ("copy", "move") else None
        for _ in range(6):
            ds = defs.of(l) if l is not None else []
            if len(ds) != 1:
                return vidx, None
            d = ds[0]
            if d[0] == "stmt":
                if d[4]["k"] == "use" and d[4]["op"].get("k") in ("copy", "move"):
                    l = d[4]["op"]["place"]["l"]
                    continue
                return vidx, None
            t = d[2]
            name = callee(t)[2]
            if name == "from_elem" and len(t["args"]) == 2:
                f = _Factors(b, lens, (), F, vidx)
                f.visit(t["args"][1])
                return vidx, f
            if name in ("mapv", "mapv_into", "map") and len(t["args"]) == 2 and t["args"][0].get("k") in ("copy", "move") \
                    and (b.opty(t["args"][0]) or {}).get("s", "").find("ndarray") >= 0:
                # weights written as a function of the grid positions: `grid.mapv(|r| 4 pi r^2 dr)` — the element is a length
                cb = F.body(boolsum.closure_def_of_type(b.opty(t["args"][1])) or "")
                if cb is None:
                    return vidx, None
                recv = {t["args"][0]["place"]["l"]}
                for d2 in defs.of(t["args"][0]["place"]["l"]):
                    if d2[0] == "stmt" and d2[4]["k"] == "ref":
                        recv.add(d2[4]["place"]["l"])
                elem_is_length = bool(recv & lens)
                f = _Factors(cb, {2} if elem_is_length else set(), len_names, F, vidx, (b, lens))
                f.visit({"k": "copy", "place": {"l": 0, "p": []}})
                return vidx, f
            if name in ("from_shape_fn", "map") and len(t["args"]) == 2:
                cb = F.body(boolsum.closure_def_of_type(b.opty(t["args"][1])) or "")
                if cb is None:
                    return vidx, None
                f = _Factors(cb, set(), len_names, F, vidx, (b, lens))
                f.visit({"k": "copy", "place": {"l": 0, "p": []}})
                return vidx, f
            if name in ("collect", "from_iter", "from_vec", "from", "into") and t["args"] and t["args"][0].get("k") in ("copy", "move"):
                l = t["args"][0]["place"]["l"]
                continue
            return vidx, None
    return None, None


def run(F):
    r = RuleResult("R51", "GEOMETRY-VOLUME: Axis::volume and the integration weights of each geometry agree in constant prefactor and power of the length")
    vb = F.body("feos_dft::geometry::Axis::volume")
    db = F.body("feos_dft::geometry::Geometry::dimension")
    if vb is None or db is None:
        r.fail("missing|Axis::volume", "-", "Axis::volume or Geometry::dimension not found")
        return [r]
    pre = {}
    arms = _arm_constants(vb, "geometry")
    if not arms:
        # the per-geometry constant may be provided by a method of Geometry that volume() calls on `self.geometry`
        for bi, t in vb.calls():
            cb = F.callee_body(t)
            if cb is not None and "geometry::Geometry::" in cb.path and (cb.lty(0) or {}).get("s") == "f64":
                arms = _arm_constants(cb, None)
    for v, env in arms.items():
        fl = [x for x in env.values() if isinstance(x, float)]
        pre[v] = fl[-1] if fl else None
    dim = {}
    for v, env in _arm_constants(db, None).items():
        il = [x for x in env.values() if isinstance(x, int)]
        dim[v] = il[-1] if il else None
    # the exponent of volume() must be dimension()
    uses_dim = any(callee(t)[2] == "dimension" for bi, t in vb.calls()) and any(callee(t)[2] == "powi" for bi, t in vb.calls())
    if not uses_dim:
        r.fail("volume|exponent", vb.file_line(), "Axis::volume no longer raises the length to Geometry::dimension()")
    n = 0
    seen = set()
    for b in F.bodies:
        if b.is_closure() or not b.path.startswith(AXIS + "::new"):
            continue
        vidx, f = _weights_of(F, b)
        if vidx is None:
            continue
        fn = b.path.split("::")[-1]
        iid = "geometry|%s" % fn
        if f is None or pre.get(vidx) is None or dim.get(vidx) is None:
            r.inst(iid, b.file_line(), "undecided")
            r.blind.append("%s: the element expression of the integration weights (or the volume arm) is not a product the rule can read" % fn)
            continue
        n += 1
        seen.add(vidx)
        ok_c = abs(f.const - pre[vidx]) <= 1e-12 * max(abs(pre[vidx]), 1.0)
        ok_d = f.degree == dim[vidx]
        if ok_c and ok_d:
            r.inst(iid, b.file_line(), "ok", prefactor=pre[vidx], power=dim[vidx])
            continue
        r.inst(iid, b.file_line(), "violation", weights_prefactor=f.const, volume_prefactor=pre[vidx], weights_power=f.degree, volume_power=dim[vidx])
        if not ok_c:
            r.fail("geometry|%s|prefactor" % fn, b.file_line(),
                   "%s builds integration weights with the constant prefactor %.12g, but Axis::volume multiplies length^%d by %.12g for the same geometry: "
                   "the reported volume is %.6g times the integral of 1 over the grid (excess quantities Omega + p*V, adsorption per volume are off by that factor)" % (
                       fn, f.const, dim[vidx], pre[vidx], pre[vidx] / f.const if f.const else float("nan")))
        if not ok_d:
            r.fail("geometry|%s|power" % fn, b.file_line(),
                   "%s builds integration weights proportional to length^%d, Geometry::dimension() says %d" % (fn, f.degree, dim[vidx]))
    r.floor("axis constructors compared with Axis::volume", n, 3, exact=True)
    r.exhaustive = True
    r.blind.append("that the position-dependent part of the weights sums to exactly 1 (telescoping) is algebra and not decided")
    return [r]
