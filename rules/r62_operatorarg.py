"""R62 OPERATOR-ARGUMENT — the second-derivative operator is applied to the perturbation itself.

C17: "the second-derivative operator used by the Newton solver and by the implicit-derivative routines equals the numerical
derivative of the functional derivative".  Both routines hand GMRES a closure `rhs(x)` that evaluates the linearised
Euler-Lagrange operator on a perturbation x:  x -> scale(x) + (dF'[x] - dI[dF'[x]]) rho.  The term dF'[x] is
`delta_functional_derivative(x, second_partial_derivatives)` — the second functional derivative contracted with the perturbation
*the solver passed in*.  R21 keeps the two copies of the closure in step; it compares multisets of operations and cannot see
which array an operation is applied to.  The rule pins that: in every closure that calls `delta_functional_derivative`, the
perturbation argument is the closure's own parameter — reached through borrows / copies / views only, not a scaled or otherwise
modified copy of it (a clone that is mutated before the call is the perturbation of a different quantity, e.g. of the segment
densities instead of the component densities)."""
from cfg import Defs
from facts import callee
from report import RuleResult

VIEWS = ("clone", "to_owned", "view", "deref", "borrow", "as_ref", "into", "reborrow", "into_dyn", "into_dimensionality", "unwrap")


def _mutated(b, l):
    """is local l (an owned array) mutably borrowed or assigned through after its definition?"""
    for bi, si, st in b.stmts():
        rv = st["rv"]
        if rv["k"] == "ref" and rv["place"]["l"] == l and rv.get("mut"):
            return True
        if st["place"]["l"] == l and st["place"]["p"]:
            return True
    return False


def _from_param(b, defs, op, params):
    """True / False / None (cannot tell)"""
    if op.get("k") not in ("copy", "move"):
        return False
    l = op["place"]["l"]
    for _ in range(12):
        if l in params:
            return True
        ds = defs.of(l)
        if len(ds) != 1:
            return False
        d = ds[0]
        if d[0] == "call":
            t = d[2]
            if str(callee(t)[2]) in VIEWS and t["args"] and t["args"][0].get("k") in ("copy", "move"):
                if _mutated(b, l):
                    return False
                l = t["args"][0]["place"]["l"]
                continue
            return False
        rv = d[4]
        if rv["k"] in ("use", "cast") and rv["op"].get("k") in ("copy", "move"):
            l = rv["op"]["place"]["l"]
        elif rv["k"] == "ref":
            if _mutated(b, rv["place"]["l"]) and rv["place"]["l"] not in params:
                return False
            l = rv["place"]["l"]
        else:
            return False
    return False


def run(F):
    r = RuleResult("R62", "OPERATOR-ARGUMENT: delta_functional_derivative is applied to the perturbation the linear solver passed in")
    n = 0
    for b in F.bodies:
        if not b.path.startswith("feos_dft::") or "::tests::" in b.path:
            continue
        hits = [(bi, t) for bi, t in b.calls() if str(callee(t)[2]) == "delta_functional_derivative" and len(t["args"]) >= 2]
        if not hits:
            continue
        defs = Defs(b)
        if b.is_closure():
            params = set(range(2, b["arg_count"] + 1))
        else:
            # a named function forwarding its own array parameter (a shared `rhs` helper)
            params = {l for l in range(2, b["arg_count"] + 1) if "ArrayBase<" in (b.lty(l) or {}).get("s", "")}
            if b.path.split("::")[-1] == "delta_functional_derivative":
                continue
        for bi, t in hits:
            n += 1
            fn = b.path.split("::{closure")[0].split("::")[-1]
            iid = "operatorarg|%s" % fn
            ok = _from_param(b, defs, t["args"][1], params)
            if ok and not b.is_closure():
                # the operator lives in a named helper (`newton_operator(delta_rho, ..)`): the closures / functions that call the helper
                # must pass their own parameter in that position
                which = [p_ for p_ in sorted(params) if _from_param(b, defs, t["args"][1], {p_})]
                for c in F.bodies:
                    if not c.path.startswith("feos_dft::"):
                        continue
                    for _bj, t2 in c.calls():
                        cb2 = F.callee_body(t2)
                        if cb2 is None or cb2.path != b.path or not which or which[0] - 1 >= len(t2["args"]):
                            continue
                        cparams = set(range(2, c["arg_count"] + 1)) if c.is_closure() else \
                            {l for l in range(2, c["arg_count"] + 1) if "ArrayBase<" in (c.lty(l) or {}).get("s", "")}
                        n += 1
                        if not _from_param(c, Defs(c), t2["args"][which[0] - 1], cparams):
                            ok = False
                            r.inst(iid + "|caller", t2["span"], "violation")
                            r.fail(iid + "|caller", t2["span"],
                                   "%s: the perturbation handed to %s is not the caller's own parameter (a scaled / modified copy)" % (
                                       c.path.split("::{closure")[0].split("::")[-1], fn))
            direct = _from_param(b, defs, t["args"][1], params)
            if ok:
                r.inst(iid, t["span"], "ok")
            elif not direct:
                r.inst(iid, t["span"], "violation")
                r.fail(iid, t["span"],
                       "%s: the second functional derivative is contracted with something other than the perturbation handed to the closure "
                       "(a scaled / modified copy): the linear operator is no longer the derivative of the functional derivative" % fn)
    r.floor("applications of delta_functional_derivative", n, 2)
    r.exhaustive = True
    return [r]
