"""R52 WEIGHT-CONSTANTS — the bulk weight constants are the Fourier-space weight functions evaluated at k = 0.

C16: for a uniform density the convolution with a weight function is the k = 0 Fourier mode times the density, and the
"bulk weighted densities" are the weight constants times the density.  The two agree for every functional because the
constants are not a second set of formulas: `WeightFunction::scalar_weight_constants(k)` / `vector_weight_constants(k)`
evaluate the very functions the FFT convolver uses (`fft_scalar_weight_functions` / `fft_vector_weight_functions`) at the
scalar k, and the bulk convolver asks for them at k = 0.  The rule pins that sharing:

  (a) the value returned by scalar_/vector_weight_constants is the result of the corresponding fft_* function applied to
      arrays built from the parameter k;
  (b) WeightFunctionInfo::weight_constants fills its matrix only from those two functions, with its own parameter k;
  (c) BulkConvolver::new requests weight_constants at `Zero::zero()` (and the normalisation in WeightFunction::new_scaled
      at `T::zero()`)."""
from cfg import Defs, provenance
from facts import callee
from report import RuleResult

WF = "feos_dft::weight_functions::"
TRANSPARENT = ("arr0", "arr1", "index_axis_move", "branch", "unwrap", "clone", "deref", "to_owned", "borrow", "as_ref", "into", "from")


def _ret_call(b, defs):
    """the (non-transparent) call whose result is returned"""
    work, seen = [0], set()
    while work:
        l = work.pop()
        if l in seen:
            continue
        seen.add(l)
        for d in defs.of(l):
            if d[0] == "call":
                t = d[2]
                if callee(t)[2] in ("index_axis_move", "clone", "into", "to_owned") and t["args"] and t["args"][0].get("k") in ("copy", "move"):
                    work.append(t["args"][0]["place"]["l"])
                else:
                    return t
            elif d[4]["k"] == "use" and d[4]["op"].get("k") in ("copy", "move"):
                work.append(d[4]["op"]["place"]["l"])
    return None


def _from_param(b, defs, op, param):
    if op.get("k") not in ("copy", "move"):
        return False
    params, _ = provenance(b, defs, [op["place"]["l"]], call_names=("deref", "clone", "borrow", "as_ref"), all_args_names=("arr0", "arr1"))
    if param in params:
        return True
    # arr1(&[k]): the array literal is an aggregate of k
    work, seen = [op["place"]["l"]], set()
    while work and len(seen) < 60:
        l = work.pop()
        if l in seen:
            continue
        seen.add(l)
        if l == param:
            return True
        for d in defs.of(l):
            if d[0] == "call":
                if callee(d[2])[2] in ("arr0", "arr1", "deref", "clone", "borrow", "as_ref", "as_slice", "into"):
                    work += [a["place"]["l"] for a in d[2]["args"] if a.get("k") in ("copy", "move")]
            else:
                rv = d[4]
                if rv["k"] in ("use", "cast") and rv["op"].get("k") in ("copy", "move"):
                    work.append(rv["op"]["place"]["l"])
                elif rv["k"] == "ref":
                    work.append(rv["place"]["l"])
                elif rv["k"] == "agg":
                    work += [o["place"]["l"] for o in rv["ops"] if o.get("k") in ("copy", "move")]
    return False


def _is_zero(b, defs, op):
    if op.get("k") == "const":
        return str(op.get("f")) in ("0e0", "0") or str(op.get("text", "")).startswith("0")
    if op.get("k") in ("copy", "move"):
        for d in defs.of(op["place"]["l"]):
            if d[0] == "call" and callee(d[2])[2] == "zero":
                return True
    return False


def run(F):
    r = RuleResult("R52", "WEIGHT-CONSTANTS: bulk weight constants are the Fourier weight functions evaluated at k = 0")
    n = 0
    pairs = (("scalar_weight_constants", "fft_scalar_weight_functions"), ("vector_weight_constants", "fft_vector_weight_functions"))
    for outer, inner in pairs:
        bs = [b for b in F.bodies if b.path.startswith(WF) and b.path.endswith("::" + outer) and not b.is_closure()]
        iid = "weightconst|%s" % outer
        if not bs:
            r.inst(iid, "-", "violation")
            r.fail(iid + "|missing", "-", "WeightFunction::%s not found" % outer)
            continue
        b = bs[0]
        defs = Defs(b)
        t = _ret_call(b, defs)
        k_param = next((l for l in range(1, b["arg_count"] + 1) if b.lname(l) == "k"), 2)
        ok = t is not None and callee(t)[2] == inner
        if ok:
            # every array argument (k_abs, k) is built from the parameter k; the Lanczos factor is None
            arr_args = t["args"][1:-1]
            ok = all(_from_param(b, defs, a, k_param) for a in arr_args)
        n += 1
        if ok:
            r.inst(iid, b.file_line(), "ok", forwards_to=inner)
        else:
            r.inst(iid, b.file_line(), "violation")
            r.fail(iid, b.file_line(),
                   "WeightFunction::%s no longer returns %s evaluated at its argument k: the bulk weight constants become a second set of formulas "
                   "that need not equal the k = 0 mode of the convolution (a uniform profile is then not a solution)" % (outer, inner))
    # (b)
    wb = [b for b in F.bodies if b.path.startswith(WF) and b.path.endswith("::weight_constants") and not b.is_closure()]
    if not wb:
        r.fail("weightconst|weight_constants|missing", "-", "WeightFunctionInfo::weight_constants not found")
    else:
        b = wb[0]
        k_param = next((l for l in range(1, b["arg_count"] + 1) if b.lname(l) == "k"), 2)
        n_src = 0
        bad = []
        # the body and the closures written in it (the rows may be filled in `for_each` / chained iterators)
        for x in [b] + [c for c in F.bodies if c.is_closure() and (c.d.get("parent") or "") == b.path]:
            defs = Defs(x)
            for bi, t in x.calls():
                nm = callee(t)[2]
                if nm not in ("scalar_weight_constants", "vector_weight_constants"):
                    continue
                n_src += 1
                a = t["args"][1] if len(t["args"]) == 2 else None
                ok_ = False
                if a is not None and x is b:
                    ok_ = _from_param(b, defs, a, k_param)
                elif a is not None and a.get("k") in ("copy", "move"):
                    # inside a closure: the argument is the captured `k`
                    pl = a["place"]
                    for _ in range(5):
                        nm_ = [p.get("n") for p in pl["p"] if isinstance(p, dict) and "f" in p]
                        if pl["l"] == 1 and nm_:
                            ok_ = nm_[0] == "k"
                            break
                        ds = defs.of(pl["l"])
                        if len(ds) == 1 and ds[0][0] == "stmt" and ds[0][4]["k"] in ("use", "cast") and ds[0][4]["op"].get("k") in ("copy", "move"):
                            pl = ds[0][4]["op"]["place"]
                        elif len(ds) == 1 and ds[0][0] == "stmt" and ds[0][4]["k"] == "ref":
                            pl = ds[0][4]["place"]
                        else:
                            break
                if not ok_:
                    bad.append(t["span"])
        n += n_src
        iid = "weightconst|weight_constants"
        if bad:
            r.inst(iid, bad[0], "violation")
            r.fail(iid + "|k", bad[0], "WeightFunctionInfo::weight_constants evaluates a weight function at something other than its parameter k")
        else:
            r.inst(iid, b.file_line(), "ok", sources=n_src)
        r.floor("weight-constant sources in WeightFunctionInfo::weight_constants", n_src, 2)
    # (c)
    for suffix, callee_name, what in (("convolver::BulkConvolver::<T>::new", "weight_constants", "BulkConvolver::new"),
                                      ("weight_functions::WeightFunction::<T>::new_scaled", "scalar_weight_constants", "WeightFunction::new_scaled")):
        bs = [b for b in F.bodies if b.path.startswith("feos_dft::") and (b.path.endswith(suffix) or (b.d.get("parent") or "").endswith(suffix))]
        hits = []
        for b in bs:
            defs = Defs(b)
            for bi, t in b.calls():
                if callee(t)[2] == callee_name and len(t["args"]) >= 2:
                    hits.append((b, t, _is_zero(b, defs, t["args"][1])))
        iid = "weightconst|%s|k=0" % what
        if not hits:
            r.inst(iid, "-", "violation")
            r.fail(iid + "|missing", "-", "%s no longer obtains its constants from %s" % (what, callee_name))
            continue
        n += len(hits)
        badh = [h for h in hits if not h[2]]
        if badh:
            r.inst(iid, badh[0][1]["span"], "violation")
            r.fail(iid, badh[0][1]["span"], "%s asks for the weight constants at a wave number that is not zero" % what)
        else:
            r.inst(iid, hits[0][1]["span"], "ok")
    r.floor("weight-constant obligations", n, 6)
    r.exhaustive = True
    return [r]
