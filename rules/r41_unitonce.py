"""R41 UNIT-ONCE — a predicted value of an estimator data set is converted into the target's unit exactly once.

Every data set stores its targets as plain f64 in an implied unit (`self.unit`) and `predict` returns plain f64 in the same
unit: `(p / self.unit).into_value()` or `x.convert_to(self.unit)`, or — for values assembled in reduced units —
`reduced / self.unit.to_reduced()`.  A quantity that has already been divided by `self.unit` and is then (after `ln`, `exp`,
sums ...) divided by the unit again is converted twice and is off by the constant factor of the unit (1.38e7 for Pa).
Rule (taint analysis over `predict` and its closures, captures included): values derived from a division by / conversion
to `self.unit` must not flow into another division by (anything derived from) `self.unit`."""
from cfg import Defs
from facts import callee
from report import RuleResult


def _unit_derived(b, defs, op, upunit, depth=0, seen=None):
    """operand derives from the field `unit` of self (directly, via to_reduced / clone / copies, or a captured copy)"""
    seen = seen if seen is not None else set()
    if op.get("k") not in ("copy", "move") or depth > 12:
        return False
    pl = op["place"]
    if any(isinstance(p, dict) and p.get("n") == "unit" for p in pl["p"]):
        return True
    l = pl["l"]
    if b.is_closure() and l == 1:
        f = [p["f"] for p in pl["p"] if isinstance(p, dict) and "f" in p]
        return bool(f) and f[0] in upunit
    if l in seen:
        return False
    seen.add(l)
    for d in defs.of(l):
        if d[0] == "call":
            if callee(d[2])[2] in ("to_reduced", "clone", "deref", "into_value", "borrow", "as_ref") and d[2]["args"]:
                if _unit_derived(b, defs, d[2]["args"][0], upunit, depth + 1, seen):
                    return True
        else:
            rv = d[4]
            if rv["k"] in ("use", "cast") and _unit_derived(b, defs, rv["op"], upunit, depth + 1, seen):
                return True
            if rv["k"] == "ref" and _unit_derived(b, defs, {"k": "copy", "place": rv["place"]}, upunit, depth + 1, seen):
                return True
    return False


def _analyse(F, b, up_taint, up_unit, findings, stats):
    defs = Defs(b)
    tainted = set()

    def op_t(o):
        if o.get("k") not in ("copy", "move"):
            return False
        pl = o["place"]
        if b.is_closure() and pl["l"] == 1:
            f = [p["f"] for p in pl["p"] if isinstance(p, dict) and "f" in p]
            return bool(f) and f[0] in up_taint
        return pl["l"] in tainted

    changed = True
    rounds = 0
    while changed and rounds < 30:
        rounds += 1
        changed = False
        for bi, si, st in b.stmts():
            rv = st["rv"]
            k = rv["k"]
            ops = [rv["op"]] if k in ("use", "cast", "repeat") else [rv["a"], rv["b"]] if k == "binop" else [rv["a"]] if k == "unop" else rv["ops"] if k == "agg" else []
            if k == "ref":
                ops = [{"k": "copy", "place": rv["place"]}]
            if any(op_t(o) for o in ops) and st["place"]["l"] not in tainted:
                tainted.add(st["place"]["l"])
                changed = True
        for bi, t in b.calls():
            nm = callee(t)[2]
            args = t["args"]
            src = False
            if nm in ("div", "convert_to", "convert_into") and len(args) == 2 and _unit_derived(b, defs, args[1], up_unit):
                src = True
            if (src or any(op_t(a) for a in args)) and t["dest"]["l"] not in tainted:
                tainted.add(t["dest"]["l"])
                changed = True
    for bi, t in b.calls():
        nm = callee(t)[2]
        args = t["args"]
        if nm in ("div", "convert_to", "convert_into", "div_assign") and len(args) == 2 and _unit_derived(b, defs, args[1], up_unit):
            stats["conversions"] += 1
            if op_t(args[0]):
                findings.append((b, t["span"]))
    for bi, si, st in b.stmts():
        rv = st["rv"]
        if rv["k"] == "binop" and rv["op"] == "Div" and _unit_derived(b, defs, rv["b"], up_unit):
            stats["conversions"] += 1
            if op_t(rv["a"]):
                findings.append((b, st.get("span", b.file_line())))
    # closures created here
    for bi, si, st in b.stmts():
        rv = st["rv"]
        if rv["k"] == "agg" and rv["kind"].get("t") == "closure":
            cb = F.body(rv["kind"]["def"])
            if cb is None:
                continue
            ut = {i for i, o in enumerate(rv["ops"]) if op_t(o)}
            uu = {i for i, o in enumerate(rv["ops"]) if _unit_derived(b, defs, o, up_unit)}
            # a captured `self` gives access to self.unit through the field projection, handled by _unit_derived
            _analyse(F, cb, ut, uu, findings, stats)


def run(F):
    r = RuleResult("R41", "UNIT-ONCE: estimator predictions are converted into the target unit exactly once")
    n = 0
    stats = {"conversions": 0}
    for b in F.bodies:
        if b.is_closure() or not ("estimator::" in b.path and b.path.endswith("::predict")):
            continue
        n += 1
        findings = []
        _analyse(F, b, set(), set(), findings, stats)
        iid = "unit|%s" % b.path
        if findings:
            r.inst(iid, findings[0][1], "violation")
            r.fail(iid, findings[0][1],
                   "%s: a value that was already divided by / converted to `self.unit` is divided by the unit again: the prediction is off by the "
                   "constant factor of the unit (targets and predictions are no longer in the same implied unit)" % b.path)
        else:
            r.inst(iid, b.file_line(), "ok")
    if n == 0 and F.config == "full":
        r.fail("unit|missing", "-", "no estimator predict functions found")
    r.inst("unit|census", "-", "ok", predict_functions=n, unit_conversions=stats["conversions"], nontrivial=n > 0)
    if F.config == "full":
        r.floor("estimator predict functions", n, 8)
    r.exhaustive = True
    return [r]
