"""R2 SWEEP — implicit differentiation after a real-valued inner solve.

Where the converged real iterate is lifted back into D (R1a's reviewed exemption), the lift must be followed on
every path to the result by a loop over `0..<D as DualNum<f64>>::NDERIV` (the associated constant of the same D)
whose body calls the same Newton-step function with the lifted iterate passed mutably and the original dual
inputs (parameters), never the real-valued copies.  Both clones must satisfy it (sibling agreement)."""
from cfg import Defs, dominators, provenance, reachable
from facts import callee
from report import RuleResult
import r01_dualflow

FN = "association::Association::<P>::helmholtz_energy_density_cross_association"
STEP = "newton_step_cross_association"


def run(F):
    r = RuleResult("R2", "SWEEP: D::NDERIV implicit-differentiation sweeps follow the lift of the real iterate")
    bodies = [b for b in F.bodies if not b.is_closure() and b.path.endswith(FN)]
    shapes = {}
    for b in bodies:
        tag = b.path
        defs = Defs(b)
        dom = dominators(b)
        gd_name = [g["name"] for g in b["generics"] if any(bd.startswith("num_dual::DualNum") for bd in g["bounds"])]
        ta = r01_dualflow.Taint(F, b).run()
        # the lift: a call producing a dual value from a tainted one (mapv(.., From::from))
        lifts = [s for s in ta.sinks if s["kind"] == "call" and s["what"] == "mapv"]
        iid = "sweep|%s" % tag
        delegate_problems = []
        if not lifts:
            # lift and sweeps moved together into a private helper of the same impl (`monomer_fraction_derivatives(&x, delta_ab, ..)`):
            # judge the helper's body; at the call, the helper's dual parameters must receive this function's own dual inputs
            for s_ in ta.sinks:
                if s_["kind"] != "call":
                    continue
                t_ = b.blocks[s_["bi"]]["term"]
                hb = F.callee_body(t_)
                if hb is None or hb.is_closure() or hb.get("vis") == "Public" or hb.path.rsplit("::", 1)[0] != b.path.rsplit("::", 1)[0] \
                        or hb["arg_count"] != len(t_["args"]):
                    continue
                real = [i + 1 for i, a in enumerate(t_["args"]) if ta.op_tainted(a)]
                hta = r01_dualflow.Taint(F, hb, param_taint=frozenset(real)).run()
                hl = [x for x in hta.sinks if x["kind"] == "call" and x["what"] == "mapv"]
                if len(hl) != 1:
                    continue
                for i, a in enumerate(t_["args"], start=1):
                    if i in real or not (hb.lty(i) or {}).get("dual"):
                        continue
                    if a.get("k") not in ("copy", "move"):
                        delegate_problems.append("argument %d of %s is a constant" % (i, hb.path.split("::")[-1]))
                        continue
                    pr, stops = provenance(b, defs, [a["place"]["l"]])
                    if not pr or any(x.startswith("call:") for x in stops):
                        delegate_problems.append("argument %d of %s is not one of the function's own dual inputs" % (i, hb.path.split("::")[-1]))
                # the helper's result must be what the function goes on with: success of the function is dominated by the call
                oks_ = [bi for bi, si, st in b.stmts() if st["place"]["l"] == 0 and st["rv"]["k"] == "agg" and st["rv"]["kind"].get("variant") == "Ok"
                        and s_["bi"] in dom.get(bi, ())]
                if not oks_:
                    delegate_problems.append("no success return is dominated by the call of %s" % hb.path.split("::")[-1])
                b, ta, lifts = hb, hta, hl
                defs = Defs(b)
                dom = dominators(b)
                gd_name = [g["name"] for g in b["generics"] if any(bd.startswith("num_dual::DualNum") for bd in g["bounds"])]
                break
        if len(lifts) != 1:
            r.inst(iid, b.file_line(), "violation")
            r.fail("%s|lift-count" % tag, b.file_line(), "%s: expected exactly one lift of the real iterate into D, found %d" % (tag, len(lifts)))
            continue
        lift_bi = lifts[0]["bi"]
        lifted = b.blocks[lift_bi]["term"]["dest"]["l"]
        # the NDERIV range
        ranges = []
        for bi, si, st in b.stmts():
            rv = st["rv"]
            if rv["k"] == "agg" and rv["kind"].get("adt", "").endswith("ops::Range") and len(rv["ops"]) == 2:
                end = rv["ops"][1]
                start = rv["ops"][0]
                if end.get("k") == "const" and end.get("uneval", "").endswith("DualNum::NDERIV") and end.get("uneval_args", [None])[0] in gd_name \
                        and start.get("k") == "const" and start.get("bits") == "0":
                    ranges.append((bi, st["span"]))
        problems = []
        if len(ranges) != 1:
            problems.append("no loop over 0..<%s as DualNum<f64>>::NDERIV (found %d)" % ("/".join(gd_name), len(ranges)))
        else:
            rbi, rspan = ranges[0]
            if lift_bi not in dom.get(rbi, ()):
                problems.append("the NDERIV loop is not dominated by the lift")
            # success return dominated by the range
            oks = [bi for bi, si, st in b.stmts() if st["place"]["l"] == 0 and st["rv"]["k"] == "agg" and st["rv"]["kind"].get("variant") == "Ok"
                   and lift_bi in dom.get(bi, ())]
            if not oks or not all(rbi in dom.get(o, ()) for o in oks):
                problems.append("a success return after the lift is not dominated by the NDERIV loop")
            # loop body: blocks reachable from the Some edge of next() on this range, up to the back edge
            steps = []
            for bi, t in b.calls():
                p, tr, name = callee(t)
                if name == STEP and rbi in dom.get(bi, ()):
                    steps.append((bi, t))
            if len(steps) != 1:
                problems.append("expected one call of %s inside the sweep loop, found %d" % (STEP, len(steps)))
            else:
                sbi, st_ = steps[0]
                # must be inside the loop: can reach the range's next() again
                loop_heads = [bi for bi, t in b.calls() if callee(t)[2] == "next" and rbi in dom.get(bi, ())]
                if not any(h in reachable(b, start=sbi) for h in loop_heads):
                    problems.append("the Newton step after the lift is not inside the NDERIV loop")
                a0 = st_["args"][0]
                pr, stops = provenance(b, defs, [a0["place"]["l"]])
                base = ta.ref_bases(a0["place"]["l"])
                if lifted not in base:
                    problems.append("the sweep does not update the lifted iterate (arg 0 is %s)" % sorted(base))
                for i, a in enumerate(st_["args"][1:4], start=1):
                    if a.get("k") not in ("copy", "move"):
                        problems.append("sweep argument %d is a constant" % i)
                        continue
                    if ta.op_tainted(a) or not b.opty(a)["dual"]:
                        problems.append("sweep argument %d is real-valued / derived from real parts" % i)
                        continue
                    pr, stops = provenance(b, defs, [a["place"]["l"]])
                    if not pr or any(s_.startswith("call:") for s_ in stops):
                        problems.append("sweep argument %d is not one of the function's own dual inputs (%s)" % (i, sorted(stops)[:2]))
                if callee(st_)[0].rsplit("::", 1)[0] != b.path.rsplit("::", 1)[0]:
                    problems.append("the sweep calls a different implementation of %s" % STEP)
        problems += delegate_problems
        if problems:
            r.inst(iid, lifts[0]["where"], "violation", problems=problems)
            r.fail("%s|sweep" % tag, lifts[0]["where"], "%s: %s — derivatives of the association contribution would be wrong/missing" % (tag, "; ".join(problems)))
        else:
            r.inst(iid, lifts[0]["where"], "ok")
        shapes[tag] = len(problems)
    r.floor("cross-association solvers with a lift", len(bodies), 2 if "saftvrmie" in (F.meta.get("features") or []) or "all_models" in (F.meta.get("features") or []) else 1)
    r.exhaustive = True
    return [r]
