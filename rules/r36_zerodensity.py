"""R36 ZERO-DENSITY — no contribution divides by (takes the logarithm / a root / a negative power of) a quantity that vanishes
with the density, unless the site is a reviewed, guarded one.

The virial coefficients are the density derivatives of beta*A/V *at exactly rho = 0* (`StateHD::new_virial`, dual numbers with
real part 0).  An expression such as `zeta[2] / zeta[3]` is perfectly fine at every finite density and is `0/0 = NaN` there,
with NaN in every derivative part — the getters then return NaN while the limit of (Z-1)/rho is finite (C13: "finite and
equal the limit").  The rule re-uses the abstract interpreter of R3 with a different grading: the *vanishing order in the
density* at fixed T, V, x (`partial_density`, `moles`: order 1; temperature, volume, mole fractions: order 0; products add,
quotients subtract, sums take the smaller order — cancellation can only raise the true order, so a computed order >= 1
means every term vanishes).  Recorded as singular: division by / reciprocal / logarithm / square or cube root /
non-integer or negative power of a value of computed order >= 1, in any function evaluated for a residual contribution
(the obligations of R3).  Each singular site must be listed in tables/r36.toml (guarded by a reviewed real-part switch of
R1b/R1d, or a removable form such as x ln x that is evaluated through a guarded helper); an unlisted site is a violation."""
import os
import tomllib

import r03_homog as H
from report import RuleResult

HERE = os.path.dirname(os.path.abspath(__file__))


def _has_real_part_guard(F, root):
    """the function (or one of its closures) branches on a comparison / predicate of a real part: re() ... == / < const, is_nan()"""
    from cfg import Defs
    from facts import callee
    for b in F.bodies:
        if not (b.path == root or b.path.startswith(root + "::{closure")):
            continue
        defs = Defs(b)
        for blk in b.blocks:
            t = blk["term"]
            if t["k"] != "switch" or t["op"].get("k") not in ("copy", "move"):
                continue
            work = [t["op"]["place"]["l"]]
            seen = set()
            while work and len(seen) < 60:
                l = work.pop()
                if l in seen:
                    continue
                seen.add(l)
                for d in defs.of(l):
                    if d[0] == "call":
                        nm = callee(d[2])[2]
                        if nm in ("re", "is_nan"):
                            return True
                        for a in d[2]["args"]:
                            if a.get("k") in ("copy", "move"):
                                work.append(a["place"]["l"])
                    else:
                        rv = d[4]
                        ops = [rv["op"]] if rv["k"] in ("use", "cast") else [rv["a"], rv["b"]] if rv["k"] == "binop" else [rv["a"]] if rv["k"] == "unop" else []
                        if rv["k"] == "ref":
                            work.append(rv["place"]["l"])
                        for o in ops:
                            if o.get("k") in ("copy", "move"):
                                work.append(o["place"]["l"])
    return False


def run(F):
    r = RuleResult("R36", "ZERO-DENSITY: no unguarded singular operation on a quantity that vanishes with the density")
    with open(os.path.join(HERE, "..", "tables", "r36.toml"), "rb") as f:
        table = tomllib.load(f).get("guarded", [])
    eng = H.Engine(F)
    eng.mode = "order"
    eng.state_fields = {"partial_density": H.ONE, "moles": H.ONE}
    n_entry = 0
    for b in F.bodies:
        if b.is_closure():
            continue
        name = b["name"]
        tr = (b.get("impl_trait") or b.get("in_trait") or "")
        ret = b.lty(0)["s"]
        entry = False
        if ret.startswith("std::vec::Vec<(std::string::String, ") and b.lty(0)["dual"]:
            entry = True
        elif name == "residual_helmholtz_energy" and tr.endswith("Residual") and b.get("impl_trait"):
            entry = True
        elif name == "helmholtz_energy" and tr.endswith("FunctionalContribution") and not b.get("impl_trait"):
            entry = True
        if entry and any("StateHD<" in b.lty(l)["s"] for l in range(1, b["arg_count"] + 1)):
            n_entry += 1
            eng.analyse(b, H.state_args(b))
    seen = {}
    for fn, span, what, order in eng.singular:
        root = fn.split("::{closure")[0]
        key = (root, what.split(" ")[0])
        seen.setdefault(key, []).append((span, order, what))
    callers = {}
    for b_ in F.bodies:
        src = b_.path.split("::{closure")[0]
        for bi_, t_ in b_.calls():
            cb_ = F.callee_body(t_)
            if cb_ is not None and not cb_.is_closure():
                callers.setdefault(cb_.path, set()).add(src)
    for (root, kind), sites in sorted(seen.items()):
        rows = [t for t in table if root.endswith(t["fn"]) and t["kind"] == kind]
        if not rows and (F.body(root) is not None and F.body(root).get("vis") != "Public"):
            # the singular expression (with its guard) was extracted into a private helper: the review of the calling functions applies
            rows = [t for c in sorted(callers.get(root, ())) for t in table if c.endswith(t["fn"]) and t["kind"] == kind]
        iid = "singular|%s|%s" % (root, kind)
        guard_ok = True
        if rows and rows[0].get("requires_guard"):
            guard_ok = _has_real_part_guard(F, root)
        if rows and len(sites) <= rows[0].get("count", 1) and guard_ok:
            r.inst(iid, sites[0][0], "exempt", reason=rows[0]["why"], sites=len(sites))
        elif rows and not guard_ok:
            r.inst(iid, sites[-1][0], "violation", sites=len(sites))
            r.fail(iid + "|guard-lost", sites[-1][0],
                   "%s: the reviewed singular operation (%s a quantity vanishing with the density) is no longer protected by a branch on the real part "
                   "(`x.re() == 0.0` / `is_nan()`): the virial coefficients are NaN again" % (root, sites[-1][2]))
        else:
            r.inst(iid, sites[-1][0], "violation", sites=len(sites))
            r.fail(iid, sites[-1][0],
                   "%s: %s a quantity of vanishing order %s in the density (%d site(s)%s): at the zero-density state used for the virial "
                   "coefficients this is 0/0 or log 0 — NaN in every derivative — while the finite-density limit is finite; not a reviewed guarded site"
                   % (root, sites[-1][2], sites[-1][1], len(sites), (", %d reviewed" % rows[0].get("count", 1)) if rows else ""))
    r.inst("singular|census", "-", "ok", entry_points=n_entry, singular_sites=len(eng.singular), nontrivial=n_entry > 0)
    r.floor("contribution entry points analysed", n_entry, 23)
    r.exhaustive = True
    r.blind.append("values whose order the interpreter cannot determine (unknown) are never reported; DFT functionals are not covered")
    return [r]
