"""R35 RESIDUAL-OPERANDS — the residual norm of the Euler-Lagrange equation compares two independently computed fields.

`euler_lagrange_equation` returns res_norm = || density - rho_projected || (plus the bulk part); all DFT solvers take their
convergence evidence from it (R4).  The norm is meaningful only if `rho_projected` is what the functional derivative
produced: the residual may be masked for the *update* (`res[..] = 0` where the external potential is cut off), but the two
operands of the norm must not be copied into one another.  Rule: find the subtraction whose result flows into the returned
norm, take the two array operands (a parameter and a computed local), and require that no iterator chain zips a mutable
traversal of one of them with a traversal of the other (the shape of `rho_projected[i] = density[i]` for selected i), and
that neither is assigned from the other."""
from cfg import Defs
from facts import callee
from report import RuleResult
from r32_virial import _deep

MUT_ITERS = {"iter_mut", "outer_iter_mut", "lanes_mut", "axis_iter_mut", "indexed_iter_mut", "exact_chunks_mut", "as_slice_mut", "view_mut"}


def _roots(b, defs, op, mut_only=False):
    """named locals / parameters behind an operand (deep, through calls)"""
    if op.get("k") not in ("copy", "move"):
        return set(), set()
    seen, names, muts = set(), set(), set()
    work = [(op["place"]["l"], False)]
    while work and len(seen) < 400:
        l, viamut = work.pop()
        if (l, viamut) in seen:
            continue
        seen.add((l, viamut))
        if b.lname(l) or 1 <= l <= b["arg_count"]:
            names.add(l)
            if viamut:
                muts.add(l)
            continue
        for d in defs.of(l):
            if d[0] == "call":
                nm = callee(d[2])[2]
                for a in d[2]["args"]:
                    if a.get("k") in ("copy", "move"):
                        work.append((a["place"]["l"], viamut or nm in MUT_ITERS))
            else:
                rv = d[4]
                k = rv["k"]
                ops = []
                if k in ("use", "cast", "repeat"):
                    ops = [rv["op"]]
                elif k == "ref":
                    work.append((rv["place"]["l"], viamut or bool(rv.get("mut"))))
                elif k == "unop":
                    ops = [rv["a"]]
                elif k == "binop":
                    ops = [rv["a"], rv["b"]]
                elif k == "agg":
                    ops = rv["ops"]
                for o in ops:
                    if o.get("k") in ("copy", "move"):
                        work.append((o["place"]["l"], viamut))
    return names, muts


def run(F):
    r = RuleResult("R35", "RESIDUAL-OPERANDS: the Euler-Lagrange residual norm compares independently computed fields")
    bs = [b for b in F.bodies if b.path.endswith("DFTProfile::<D, F>::euler_lagrange_equation") and not b.is_closure()]
    if not bs:
        if F.config == "full":
            r.fail("residual|missing", "-", "DFTProfile::euler_lagrange_equation not found")
        return [r]
    b = bs[0]
    defs = Defs(b)
    # the norm: third component of the Ok tuple
    norm_local = None
    for bi, si, st in b.stmts():
        rv = st["rv"]
        if rv["k"] == "agg" and rv["kind"].get("t") == "tuple" and len(rv["ops"]) == 5:
            o = rv["ops"][2]
            if o.get("k") in ("copy", "move"):
                norm_local = o["place"]["l"]
    if norm_local is None:
        r.fail("residual|shape", b.file_line(), "euler_lagrange_equation: the returned 5-tuple was not found")
        return [r]
    # subtractions of arrays behind the norm
    pairs = []
    seen = set()
    work = [norm_local]
    while work and len(seen) < 300:
        l = work.pop()
        if l in seen:
            continue
        seen.add(l)
        for d in defs.of(l):
            if d[0] == "call":
                t = d[2]
                if callee(t)[2] == "sub" and len(t["args"]) == 2 and all("ndarray::ArrayBase" in ((b.opty(a) or {}).get("s") or "") for a in t["args"]):
                    ra, _ = _roots(b, defs, t["args"][0])
                    rb, _ = _roots(b, defs, t["args"][1])
                    pairs.append((ra, rb, t["span"]))
                # the norm may be computed by a private helper (`Self::residual_norm(density, &rho_projected, &res_bulk)`): the
                # subtraction is found inside and its operands are mapped back to the arguments of the call
                cb = F.callee_body(t)
                if cb is not None and not cb.is_closure() and cb.path.startswith("feos_dft::") and cb.get("vis") != "Public" and cb["arg_count"] == len(t["args"]):
                    cdefs = Defs(cb)
                    for _bj, t2 in cb.calls():
                        if callee(t2)[2] == "sub" and len(t2["args"]) == 2 and all("ndarray::ArrayBase" in ((cb.opty(a) or {}).get("s") or "") for a in t2["args"]):
                            pa, _ = _roots(cb, cdefs, t2["args"][0])
                            pb, _ = _roots(cb, cdefs, t2["args"][1])
                            pa = {x for x in pa if 1 <= x <= cb["arg_count"]}
                            pb = {x for x in pb if 1 <= x <= cb["arg_count"]}
                            if pa and pb and not (pa & pb):
                                ra, rb = set(), set()
                                for x in pa:
                                    ra |= _roots(b, defs, t["args"][x - 1])[0]
                                for x in pb:
                                    rb |= _roots(b, defs, t["args"][x - 1])[0]
                                pairs.append((ra, rb, t["span"]))
                for a in t["args"]:
                    if a.get("k") in ("copy", "move"):
                        work.append(a["place"]["l"])
            else:
                rv = d[4]
                k = rv["k"]
                ops = [rv["op"]] if k in ("use", "cast") else [rv["a"], rv["b"]] if k == "binop" else [rv["a"]] if k == "unop" else rv["ops"] if k == "agg" else []
                if k == "ref":
                    work.append(rv["place"]["l"])
                for o in ops:
                    if o.get("k") in ("copy", "move"):
                        work.append(o["place"]["l"])
    pairs = [(ra, rb, sp) for ra, rb, sp in pairs if ra and rb and not (ra & rb)]
    if not pairs:
        r.fail("residual|no-subtraction", b.file_line(), "euler_lagrange_equation: no array subtraction of two distinct fields feeds the returned residual norm")
        return [r]
    bodies = [b] + [c for c in F.bodies if c.path.startswith(b.path + "::{closure")]
    for ra, rb, sp in pairs:
        A, B = sorted(ra), sorted(rb)
        names = "%s - %s" % ("/".join(b.lname(x) or "_%d" % x for x in A), "/".join(b.lname(x) or "_%d" % x for x in B))
        bad = None
        for bi, t in b.calls():
            if callee(t)[2] not in ("zip", "and", "and_broadcast", "zip_mut_with", "assign", "clone_from") or len(t["args"]) < 2:
                continue
            n0, m0 = _roots(b, defs, t["args"][0])
            n1, m1 = _roots(b, defs, t["args"][1])
            for X, Y in ((ra, rb), (rb, ra)):
                if (m0 & X and n1 & Y) or (m1 & X and n0 & Y):
                    bad = t["span"]
        # direct assignment of one from the other
        for bi, si, st in b.stmts():
            if st["place"]["l"] in (ra | rb) and not st["place"]["p"] and st["rv"]["k"] in ("use",) and st["rv"]["op"].get("k") in ("copy", "move"):
                src, _ = _roots(b, defs, st["rv"]["op"])
                other = rb if st["place"]["l"] in ra else ra
                if src and src <= other:
                    bad = st.get("span", b.file_line())
        iid = "residual|norm|%s" % names
        if bad is None:
            r.inst(iid, sp, "ok")
        else:
            r.inst(iid, bad, "violation")
            r.fail("residual|norm|operands-mixed", bad,
                   "euler_lagrange_equation: the operands of the residual norm (%s) are traversed together with one of them borrowed mutably: "
                   "entries of one field are overwritten from the other, those points no longer count towards the convergence norm" % names)
    r.floor("residual-norm subtractions examined", len(pairs), 1)
    r.exhaustive = True
    return [r]
