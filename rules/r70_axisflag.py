"""R70 AXIS-FLAG — the sine / cosine selection of the FFT convolver is taken per axis from the vector index.

C17 (adjointness of the weighted-density convolution and the functional-derivative convolution): `ConvolverFFT` transforms a
scalar weight with cosine transforms along every axis; the partial derivative along the axis named by `vector_index` is
sine-transformed along that axis only.  `forward_transform` and `back_transform` hand each per-axis `FourierTransform` a flag
"this axis is scalar-like": `vector_index != Some(0)` for the leading axis, `vector_index.is_none_or(|ind| ind != i + 1)` inside
the loop over the additional Cartesian axes.  A flag of the Cartesian loop that (also) depends on a comparison of the vector index
with a *constant* (`scalar || vector_index != Some(i + 1)` with `scalar = vector_index != Some(0)` hoisted, seed C17j: always true
for the y / z components) turns sine into cosine transforms for those components on one side of the adjoint pair only.

Rule (both functions, every call of a `FourierTransform` method): in the backward data slice of the flag argument — extended by the
boolean switch discriminants evaluated inside the enclosing `enumerate` loop (short-circuit `||` / `&&`, `if`) — every comparison
in which one side derives from the `vector_index` parameter has, on the other side, (a) only constants for the call outside the
`enumerate` loop, (b) a value derived from the loop's `enumerate` index for the calls inside it; and each flag depends on
`vector_index` at all.  The transforms themselves (DCT / DST plans) are numerical and not decided."""
from cfg import Defs, dominators
from facts import callee
from report import RuleResult

FUNCS = ("convolver::ConvolverFFT::<T, D>::forward_transform", "convolver::ConvolverFFT::<T, D>::back_transform")


def _back_all(b, defs, start):
    seen, work = set(), list(start)
    while work:
        l = work.pop()
        if l in seen:
            continue
        seen.add(l)
        for d in defs.of(l):
            if d[0] == "call":
                work += [a["place"]["l"] for a in d[2]["args"] if a.get("k") in ("copy", "move")]
                continue
            rv = d[4]
            k = rv["k"]
            ops = []
            if k in ("use", "cast", "repeat"):
                ops = [rv["op"]]
            elif k in ("ref", "discr"):
                work.append(rv["place"]["l"])
            elif k == "unop":
                ops = [rv["a"]]
            elif k == "binop":
                ops = [rv["a"], rv["b"]]
            elif k == "agg":
                ops = rv["ops"]
            work += [o["place"]["l"] for o in ops if o.get("k") in ("copy", "move")]
    return seen


def _loops(b):
    dom = dominators(b)
    succs, preds = b.succs(), b.preds()
    loops = {}
    for u, ss in enumerate(succs):
        if u not in dom:
            continue
        for v in ss:
            if v in dom[u]:
                body, st = {v, u}, [u]
                while st:
                    y = st.pop()
                    if y == v:
                        continue
                    for q in preds[y]:
                        if q not in body and q in dom:
                            body.add(q)
                            st.append(q)
                loops.setdefault(v, set()).update(body)
    return loops


def run(F):
    r = RuleResult("R70", "AXIS-FLAG: per-axis sine / cosine flags of the FFT convolver compare the vector index with their own axis only")
    n = 0
    for b in F.bodies:
        if b.crate != "feos_dft" or not b.path.endswith(FUNCS) or b.is_closure():
            continue
        fn = b.path.split("::")[-1]
        defs = Defs(b)
        vi = [l for l in range(1, b["arg_count"] + 1) if b.lname(l) == "vector_index"]
        if not vi:
            vi = [l for l in range(1, b["arg_count"] + 1) if "Option<usize>" in (b.lty(l) or {}).get("s", "")]
        if len(vi) != 1:
            r.fail("axisflag|%s|no-vector-index" % fn, b.file_line(), "%s: vector_index parameter not found" % fn)
            continue
        vi = vi[0]
        loops = _loops(b)
        enum_dests = {t["dest"]["l"] for bi, t in b.calls() if str(callee(t)[2]) == "enumerate"}
        eloops = {}
        for h, body in loops.items():
            for bi in body:
                t = b.blocks[bi]["term"]
                if t["k"] == "call" and str(callee(t)[2]) == "next" and t["args"] and t["args"][0].get("k") in ("copy", "move"):
                    if _back_all(b, defs, [t["args"][0]["place"]["l"]]) & enum_dests and "Enumerate" in str(callee(t)[0]) + str(t["fn"]):
                        eloops[h] = (body, t["dest"]["l"])
        for bi, t in b.calls():
            if str(callee(t)[2]) not in ("forward_transform", "back_transform") or "FourierTransform" not in str(callee(t)[0]) + str(callee(t)[1]) or len(t["args"]) != 4:
                continue
            flag = t["args"][3]
            inside = [h for h in eloops if bi in eloops[h][0]]
            kind = "axis-i" if inside else "axis-0"
            k_ = sum(1 for i in r.instances if i["id"].startswith("axisflag|%s|%s" % (fn, kind)))
            iid = "axisflag|%s|%s|%d" % (fn, kind, k_)
            n += 1
            if flag.get("k") not in ("copy", "move"):
                r.inst(iid, t["span"], "violation")
                r.fail("axisflag|%s|%s|constant-flag" % (fn, kind), t["span"], "%s: the %s transform receives a constant flag" % (fn, kind))
                continue
            start = [flag["place"]["l"]]
            if inside:
                body = eloops[min(inside, key=lambda q: len(eloops[q][0]))][0]
                for bj in body:
                    tt = b.blocks[bj]["term"]
                    if tt["k"] == "switch" and tt["op"].get("k") in ("copy", "move") and (b.opty(tt["op"]) or {}).get("s") == "bool":
                        start.append(tt["op"]["place"]["l"])
            S = _back_all(b, defs, start)
            idx_roots = {eloops[h][1] for h in inside}
            bad, uses_vi = [], vi in S
            # comparisons: PartialEq calls and option combinators taking a closure
            for bj, tt in b.calls():
                if tt["dest"]["l"] not in S:
                    continue
                nm = str(callee(tt)[2])
                sides = [a for a in tt["args"] if a.get("k") in ("copy", "move")]
                if nm in ("ne", "eq") and len(tt["args"]) == 2:
                    cl = [_back_all(b, defs, [a["place"]["l"]]) if a.get("k") in ("copy", "move") else set() for a in tt["args"]]
                    for me, other in ((0, 1), (1, 0)):
                        if vi in cl[me] and vi not in cl[other]:
                            dep_i = bool(cl[other] & idx_roots)
                            if inside and not dep_i:
                                bad.append((tt["span"], "compares vector_index with a constant inside the loop over the Cartesian axes"))
                            if not inside and dep_i:
                                bad.append((tt["span"], "compares vector_index with a loop index outside the loop"))
                elif nm in ("is_none_or", "is_some_and", "map_or", "map_or_else", "map", "filter", "and_then") and sides and vi in _back_all(b, defs, [sides[0]["place"]["l"]]):
                    rest = set()
                    for a in sides[1:]:
                        rest |= _back_all(b, defs, [a["place"]["l"]])
                    dep_i = bool(rest & idx_roots)
                    if inside and not dep_i:
                        bad.append((tt["span"], "tests vector_index with a closure that does not capture the axis index"))
            for bj, sj, st in b.stmts():
                rv = st["rv"]
                if st["place"]["l"] in S and rv["k"] == "binop" and rv["op"] in ("Ne", "Eq"):
                    cl = [_back_all(b, defs, [o["place"]["l"]]) if o.get("k") in ("copy", "move") else set() for o in (rv["a"], rv["b"])]
                    for me, other in ((0, 1), (1, 0)):
                        if vi in cl[me] and vi not in cl[other]:
                            dep_i = bool(cl[other] & idx_roots)
                            if inside and not dep_i:
                                bad.append((st.get("span") or t["span"], "compares vector_index with a constant inside the loop over the Cartesian axes"))
            if not uses_vi and not bad:
                fdefs = defs.of(flag["place"]["l"])
                if len(fdefs) >= 2 and all(d[0] == "stmt" and d[4]["k"] == "use" and d[4]["op"].get("k") == "const" for d in fdefs):
                    # `match` / `matches!` spelled flag: the dependence on vector_index is control dependence only — not decided here
                    r.inst(iid, t["span"], "undecided", note="flag assigned constants under a match on vector_index")
                    continue
                bad.append((t["span"], "does not depend on vector_index"))
            if bad:
                r.inst(iid, bad[0][0], "violation")
                r.fail("axisflag|%s|%s|%s" % (fn, kind, "constant-comparison" if "constant" in bad[0][1] else "shape"), bad[0][0],
                       "%s: the scalar / vector flag of the %s transform %s — the sine / cosine choice for the y, z components of a "
                       "vector weight is no longer made per axis (adjointness of the two convolutions is lost for profiles that vary "
                       "along those axes)" % (fn, kind, bad[0][1]))
            else:
                r.inst(iid, t["span"], "ok")
    r.floor("per-axis transform calls of ConvolverFFT (forward + back)", n, 4)
    r.exhaustive = True
    return [r]
