"""R30 RECORD-COHERENCE — a per-record factor multiplies a value that was looked up for the *same* record.

Association sites, polar components, segments ... are kept as lists of small records (`AssociationSite { assoc_comp, site_index,
n, .. }`).  The density of a site is `partial_density[component_index[s.assoc_comp]] * s.n`: the component the density is
looked up for and the number of sites must belong to the same record `s`.  Reading the density once for `sites_a[0]` and
multiplying it with `sites_b[0].n` is right only when both sites sit on the same component — results then change when a
component is split, padded with a zero-mole component or taken out as a subset (C09).  Rule: in a product where one
factor is a direct field read `E.f` of a record E that is an element of a list, and the other factor was computed from
field reads of records of the same type, at least one of those records is E itself.  (Products of two direct
field reads — `a_i.eps * b_j.eps`, a combining rule for the pair — are not judged.)"""
import json

from cfg import Defs
from facts import callee
from report import RuleResult


def _elem_key(b, defs, l, depth=0):
    """canonical description of the list element a reference local points to: index(<list place>, <index>)"""
    if depth > 8:
        return None
    ds = defs.of(l)
    if len(ds) != 1:
        return "v%d" % l if (b.lname(l) or 1 <= l <= b["arg_count"]) else None
    d = ds[0]
    if d[0] == "call":
        t = d[2]
        nm = callee(t)[2]
        if nm in ("index", "index_mut", "get", "get_unchecked") and len(t["args"]) == 2:
            return "elem(%s,%s)" % (_val(b, defs, t["args"][0], depth + 1), _val(b, defs, t["args"][1], depth + 1))
        if nm in ("deref", "borrow", "as_ref", "clone", "unwrap") and t["args"]:
            return _val(b, defs, t["args"][0], depth + 1)
        return None
    rv = d[4]
    if rv["k"] in ("use", "cast") and rv["op"].get("k") in ("copy", "move"):
        return _place(b, defs, rv["op"]["place"], depth + 1)
    if rv["k"] == "ref":
        return _place(b, defs, rv["place"], depth + 1)
    return None


def _place(b, defs, pl, depth):
    base = None
    l = pl["l"]
    if b.lname(l) or 1 <= l <= b["arg_count"]:
        base = "v%d" % l
    else:
        base = _elem_key(b, defs, l, depth)
    if base is None:
        base = "t%d" % l
    for p in pl["p"]:
        if isinstance(p, dict) and "f" in p:
            base += ".%s" % (p.get("n") or p["f"])
        elif isinstance(p, dict) and "idx" in p:
            base += "[%s]" % _val(b, defs, {"k": "copy", "place": {"l": p["idx"], "p": []}}, depth + 1)
        elif isinstance(p, dict) and "cidx" in p:
            base += "[#%s]" % p["cidx"]
    return base


def _val(b, defs, op, depth):
    if op.get("k") == "const":
        return "c(%s)" % (op.get("text") or json.dumps(op, sort_keys=True)[:40])
    if op.get("k") in ("copy", "move"):
        return _place(b, defs, op["place"], depth)
    return "?"


def _record_reads(b, defs, op, out, depth=0, seen=None):
    """collect (record type, element key, field) for every field read of a list element feeding an operand"""
    seen = seen if seen is not None else set()
    if op.get("k") not in ("copy", "move") or depth > 14:
        return
    pl = op["place"]
    fields = [p for p in pl["p"] if isinstance(p, dict) and "f" in p and p.get("o")]
    if fields and "*" in pl["p"]:
        ek = _elem_key(b, defs, pl["l"])
        if ek and ek.startswith("elem("):
            out.add((fields[0]["o"], ek, fields[0].get("n") or str(fields[0]["f"])))
    l = pl["l"]
    if l in seen:
        return
    seen.add(l)
    if b.lname(l) and depth > 0 and len(defs.of(l)) != 1:
        return
    for d in defs.of(l):
        if d[0] == "call":
            for a in d[2]["args"]:
                _record_reads(b, defs, a, out, depth + 1, seen)
        else:
            rv = d[4]
            k = rv["k"]
            ops = []
            if k in ("use", "cast", "repeat"):
                ops = [rv["op"]]
            elif k == "ref":
                ops = [{"k": "copy", "place": rv["place"]}]
            elif k == "unop":
                ops = [rv["a"]]
            elif k == "binop":
                ops = [rv["a"], rv["b"]]
            elif k == "agg":
                ops = rv["ops"]
            for o in ops:
                _record_reads(b, defs, o, out, depth + 1, seen)
    for p in pl["p"]:
        if isinstance(p, dict) and "idx" in p:
            _record_reads(b, defs, {"k": "copy", "place": {"l": p["idx"], "p": []}}, out, depth + 1, seen)


def run(F, scopes=("feos::",)):
    r = RuleResult("R30", "RECORD-COHERENCE: a per-record factor multiplies a value looked up for the same record")
    n = 0
    for b in F.bodies:
        if b.get("exp") or not any(s in b.path for s in scopes):
            continue
        defs = None
        prods = []
        for bi, t in b.calls():
            if callee(t)[2] in ("mul", "mul_assign", "div") and len(t["args"]) == 2:
                prods.append((t["args"][0], t["args"][1], t["span"]))
        for bi, si, st in b.stmts():
            rv = st["rv"]
            if rv["k"] == "binop" and rv["op"] in ("Mul", "Div"):
                prods.append((rv["a"], rv["b"], st.get("span", b.file_line())))
        for a0, a1, span in prods:
            defs = defs or Defs(b)
            for direct, other in ((a0, a1), (a1, a0)):
                dr = _direct_read(b, defs, direct)
                if dr is None:
                    continue
                if _direct_read(b, defs, other) is not None:
                    continue            # x_i.f * x_j.f: a pair combining rule, both records are meant
                reads = set()
                _record_reads(b, defs, other, reads)
                same_type = {x for x in reads if x[0] == dr[0]}
                if not same_type:
                    continue
                n += 1
                fn = b.path.split("::{closure")[0]
                iid = "record|%s|%s.%s@%s" % (fn, dr[0].split("::")[-1], dr[2], span.rsplit(":", 2)[-2])
                if any(x[1] == dr[1] for x in same_type):
                    r.inst(iid, span, "ok")
                else:
                    r.inst(iid, span, "violation", factor=dr[1], looked_up_for=sorted(x[1] for x in same_type))
                    r.fail("record|%s|%s.%s" % (fn, dr[0].split("::")[-1], dr[2]), span,
                           "%s: the factor `%s.%s` belongs to the record %s but the value it multiplies was looked up through %s — the two "
                           "belong together only if both records refer to the same component" % (
                               fn, dr[0].split("::")[-1], dr[2], dr[1], ", ".join(sorted({x[1] + "." + x[2] for x in same_type}))))
    r.floor("per-record products examined", n, 13)
    r.exhaustive = True
    return [r]


def _direct_read(b, defs, op, depth=0):
    """operand is (a copy of) a field of a list element: returns (record type, element key, field)"""
    if op.get("k") not in ("copy", "move") or depth > 4:
        return None
    pl = op["place"]
    fields = [p for p in pl["p"] if isinstance(p, dict) and "f" in p and p.get("o")]
    if fields and "*" in pl["p"]:
        ek = _elem_key(b, defs, pl["l"])
        if ek and ek.startswith("elem("):
            return (fields[0]["o"], ek, fields[0].get("n") or str(fields[0]["f"]))
        return None
    if pl["p"]:
        return None
    ds = defs.of(pl["l"])
    if len(ds) == 1 and ds[0][0] == "stmt" and ds[0][4]["k"] in ("use", "cast") and not b.lname(pl["l"]):
        return _direct_read(b, defs, ds[0][4]["op"], depth + 1)
    return None
