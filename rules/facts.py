"""Fact extraction (E1 driver invocation, cache keyed by the exact /repo tree) and
thin wrappers over the JSON facts.  Python 3.11 stdlib only."""
import fcntl
import hashlib
import json
import os
import shutil
import subprocess
import sys
import time

VERIF = os.path.dirname(os.path.dirname(os.path.abspath(__file__)))
REPO = os.environ.get("FEOS_REPO", "/repo")
CACHE = os.path.join(VERIF, ".cache")
DRIVER_DIR = os.path.join(VERIF, "engines", "feoslint")
DRIVER = os.path.join(DRIVER_DIR, "target", "release", "feoslint")
SYN_DIR = os.path.join(VERIF, "engines", "feossyn")
SYN = os.path.join(SYN_DIR, "target", "release", "feossyn")

# cfg configurations: name -> cargo feature list for the feos package
CONFIGS = {
    "full": ["all_models", "rayon"],
    "baseline": ["pcsaft", "saftvrmie", "gc_pcsaft", "dft"],
    "nofeat": [],
    "norayon": ["all_models"],
    "pcsaft": ["pcsaft"],
    "pcsaft_dft": ["pcsaft", "dft"],
    "epcsaft": ["epcsaft"],
    "gc_pcsaft": ["gc_pcsaft"],
    "gc_pcsaft_dft": ["gc_pcsaft", "dft"],
    "pets": ["pets"],
    "pets_dft": ["pets", "dft"],
    "uvtheory": ["uvtheory"],
    "saftvrmie": ["saftvrmie"],
    "saftvrqmie": ["saftvrqmie"],
    "saftvrqmie_dft": ["saftvrqmie", "dft"],
    "estimator": ["estimator", "pcsaft"],
}

HASH_EXT = (".rs", ".toml", ".lock", ".json")
SKIP_DIRS = {"target", ".git", "docs", "examples", "manuscript", "node_modules", ".github"}


def tree_hash(repo=None):
    repo = repo or REPO
    h = hashlib.sha256()
    n = 0
    for root, dirs, files in os.walk(repo):
        dirs[:] = sorted(d for d in dirs if d not in SKIP_DIRS)
        rel = os.path.relpath(root, repo)
        for f in sorted(files):
            if not f.endswith(HASH_EXT):
                continue
            p = os.path.join(root, f)
            try:
                with open(p, "rb") as fh:
                    data = fh.read()
            except OSError:
                continue
            h.update(os.path.join(rel, f).encode())
            h.update(b"\0")
            h.update(hashlib.sha256(data).digest())
            n += 1
    # the driver source is part of the key: new driver => new facts
    for f in ("src/main.rs", "Cargo.toml"):
        with open(os.path.join(DRIVER_DIR, f), "rb") as fh:
            h.update(hashlib.sha256(fh.read()).digest())
    with open(os.path.join(SYN_DIR, "src/main.rs"), "rb") as fh:
        h.update(hashlib.sha256(fh.read()).digest())
    return h.hexdigest()[:20], n


def _nightly_sysroot():
    return subprocess.check_output(["rustc", "+nightly", "--print", "sysroot"], text=True).strip()


def build_driver():
    env = dict(os.environ, CARGO_NET_OFFLINE="true")
    r = subprocess.run(["cargo", "build", "--release", "--offline"], cwd=DRIVER_DIR, env=env,
                       stdout=subprocess.PIPE, stderr=subprocess.STDOUT, text=True)
    if r.returncode != 0 or not os.path.exists(DRIVER):
        sys.stderr.write(r.stdout)
        raise SystemExit("feoslint driver failed to build")
    r = subprocess.run(["cargo", "build", "--release", "--offline"], cwd=SYN_DIR, env=env,
                       stdout=subprocess.PIPE, stderr=subprocess.STDOUT, text=True)
    if r.returncode != 0 or not os.path.exists(SYN):
        sys.stderr.write(r.stdout)
        raise SystemExit("feossyn failed to build")


class ExtractionError(Exception):
    pass


def extract(config="full", repo=None, facts_dir=None, log=None):
    """Run the driver over `repo` for one cfg configuration; write facts into facts_dir."""
    repo = repo or REPO
    feats = CONFIGS[config]
    os.makedirs(facts_dir, exist_ok=True)
    tgt = facts_dir + ".target"
    shutil.rmtree(tgt, ignore_errors=True)
    env = dict(os.environ)
    sysroot = _nightly_sysroot()
    env.update({
        "LD_LIBRARY_PATH": os.path.join(sysroot, "lib") + ":" + env.get("LD_LIBRARY_PATH", ""),
        "RUSTFLAGS": "-Zmir-opt-level=0 -Awarnings",
        "RUSTC_WORKSPACE_WRAPPER": DRIVER,
        "FEOSLINT_OUT": facts_dir,
        "CARGO_TARGET_DIR": tgt,
        "CARGO_NET_OFFLINE": "true",
    })
    env.pop("RUSTC_WRAPPER", None)
    cmd = ["cargo", "+nightly", "check", "--offline", "--lib", "-p", "feos", "-p", "feos-core", "-p", "feos-dft"]
    if feats:
        cmd += ["--features", ",".join("feos/" + f for f in feats)]
    t0 = time.time()
    r = subprocess.run(cmd, cwd=repo, env=env, stdout=subprocess.PIPE, stderr=subprocess.STDOUT, text=True)
    shutil.rmtree(tgt, ignore_errors=True)
    if r.returncode != 0:
        shutil.rmtree(facts_dir, ignore_errors=True)
        raise ExtractionError("cargo check failed for config %s:\n%s" % (config, r.stdout[-6000:]))
    need = ["feos.json", "feos_core.json"]
    for f in need:
        if not os.path.exists(os.path.join(facts_dir, f)):
            shutil.rmtree(facts_dir, ignore_errors=True)
            raise ExtractionError("driver wrote no %s for config %s (wrapper skipped?)\n%s" % (f, config, r.stdout[-3000:]))
    # E2: source-shape facts (serde / derive attributes)
    rs = subprocess.run([SYN, repo, "src", "feos-core/src", "feos-dft/src"], stdout=subprocess.PIPE, stderr=subprocess.PIPE, text=True)
    if rs.returncode != 0 or not rs.stdout.strip():
        shutil.rmtree(facts_dir, ignore_errors=True)
        raise ExtractionError("feossyn failed: %s" % rs.stderr[-2000:])
    with open(os.path.join(facts_dir, "syn.json"), "w") as fh:
        fh.write(rs.stdout)
    with open(os.path.join(facts_dir, "meta.json"), "w") as fh:
        json.dump({"config": config, "features": feats, "wall_s": time.time() - t0, "cmd": cmd}, fh)
    return time.time() - t0


def _prune_cache(keep=8):
    try:
        ents = [os.path.join(CACHE, d) for d in os.listdir(CACHE) if d.startswith("facts-")]
    except FileNotFoundError:
        return
    def mtime(p):
        try:
            return os.path.getmtime(p)
        except OSError:             # removed by a concurrent run between listdir and here
            return 0.0
    ents.sort(key=mtime, reverse=True)
    now = time.time()
    for p in ents[keep:]:
        m = mtime(p)
        if m and now - m > 1800:      # never remove facts another run may be reading
            shutil.rmtree(p, ignore_errors=True)


def facts_dir_for(config="full", repo=None):
    """Return the directory with facts for the *current* tree, extracting if needed."""
    repo = repo or REPO
    os.makedirs(CACHE, exist_ok=True)
    th, nfiles = tree_hash(repo)
    top = os.path.join(CACHE, "facts-" + th)
    d = os.path.join(top, config)
    lock = open(os.path.join(CACHE, "lock-%s-%s" % (th, config)), "w")
    fcntl.flock(lock, fcntl.LOCK_EX)
    try:
        if not os.path.exists(os.path.join(d, "meta.json")):
            build_driver()
            os.makedirs(top, exist_ok=True)
            extract(config, repo, d)
            _prune_cache()
        else:
            os.utime(top, None)
    finally:
        fcntl.flock(lock, fcntl.LOCK_UN)
        lock.close()
        try:
            os.unlink(os.path.join(CACHE, "lock-%s-%s" % (th, config)))
        except OSError:
            pass
    return d, th, nfiles


# ------------------------------------------------------------------ wrappers

class Body:
    __slots__ = ("d", "crate", "F", "_succ", "_pred")

    def __init__(self, d, crate, F):
        self.d = d
        self.crate = crate
        self.F = F
        self._succ = None
        self._pred = None

    def __getitem__(self, k):
        return self.d[k]

    def get(self, k, default=None):
        return self.d.get(k, default)

    @property
    def path(self):
        return self.d["path"]

    @property
    def blocks(self):
        return self.d["blocks"]

    @property
    def locals(self):
        return self.d["locals"]

    def ty(self, idx):
        return self.F.types[self.crate][idx]

    def lty(self, local):
        return self.F.types[self.crate][self.d["locals"][local]["ty"]]

    def lname(self, local):
        return self.d["locals"][local].get("name")

    def pty(self, place):
        return self.F.types[self.crate][place["t"]]

    def opty(self, op):
        if op["k"] in ("copy", "move"):
            return self.pty(op["place"])
        if op["k"] == "const":
            return self.ty(op["ty"])
        return None

    def succ(self, bi, cleanup=False):
        t = self.d["blocks"][bi]["term"]
        k = t["k"]
        if k == "goto" or k == "drop" or k == "assert":
            return [t["target"]]
        if k == "switch":
            out = [x[1] for x in t["targets"]]
            out.append(t["otherwise"])
            return out
        if k == "call":
            return [t["target"]] if t["target"] is not None else []
        return []

    def succs(self):
        if self._succ is None:
            self._succ = [self.succ(i) for i in range(len(self.d["blocks"]))]
        return self._succ

    def preds(self):
        if self._pred is None:
            p = [[] for _ in self.d["blocks"]]
            for i, ss in enumerate(self.succs()):
                for s in ss:
                    p[s].append(i)
            self._pred = p
        return self._pred

    def calls(self):
        for bi, blk in enumerate(self.d["blocks"]):
            t = blk["term"]
            if t["k"] == "call":
                yield bi, t

    def stmts(self):
        for bi, blk in enumerate(self.d["blocks"]):
            for si, st in enumerate(blk["stmts"]):
                yield bi, si, st

    def is_closure(self):
        return self.d["kind"] == "Closure"

    def file_line(self):
        return self.d["span"]


def callee(t):
    """(path, trait_path_or_None, name) of a call terminator; ('<indirect>', None, None) for fn pointers"""
    f = t["fn"]
    if "path" not in f:
        return "<indirect>", None, None
    return f["path"], f.get("trait"), f.get("name")


class Facts:
    def __init__(self, d, th=None, nfiles=0, config="full"):
        self.dir = d
        self.treehash = th
        self.nfiles = nfiles
        self.config = config
        self.crates = {}
        self.types = {}
        self.bodies = []
        self.by_path = {}
        self.by_cpath = {}
        for c in ("feos_core", "feos_dft", "feos"):
            p = os.path.join(d, c + ".json")
            if not os.path.exists(p):
                continue
            with open(p) as fh:
                j = json.load(fh)
            self.crates[c] = j
            self.types[c] = j["types"]
            for bd in j["bodies"]:
                b = Body(bd, c, self)
                self.bodies.append(b)
                self.by_path.setdefault(bd["path"], []).append(b)
                if "cpath" in bd:
                    self.by_cpath[bd["cpath"]] = b
        self.meta = json.load(open(os.path.join(d, "meta.json")))
        self._syn = None
        self.repo = REPO

    @property
    def syn(self):
        if self._syn is None:
            self._syn = json.load(open(os.path.join(self.dir, "syn.json")))
        return self._syn

    def body(self, path):
        bs = self.by_path.get(path, [])
        return bs[0] if bs else None

    def callee_body(self, t):
        """body of the (resolved) callee of a call terminator, across crates (canonical def paths)"""
        f = t["fn"]
        for k in ("resolved_cpath", "cpath"):
            b = self.by_cpath.get(f.get(k))
            if b is not None:
                return b
        return None

    def find(self, suffix):
        return [b for b in self.bodies if b.path.endswith(suffix)]

    def closures_of(self, path):
        return [b for b in self.bodies if b.is_closure() and b.d.get("parent") == path]

    def items(self, key):
        for c, j in self.crates.items():
            for it in j[key]:
                yield c, it

    def n_bodies(self):
        return {c: j["n_bodies"] for c, j in self.crates.items()}


_LOADED = {}


def load(config="full", repo=None):
    key = (config, repo or REPO)
    if key not in _LOADED:
        d, th, n = facts_dir_for(config, repo)
        _LOADED[key] = Facts(d, th, n, config)
    return _LOADED[key]


def ensure(configs, jobs=4, repo=None):
    """extract the facts of several cfg configurations in parallel (thorough tier)"""
    from concurrent.futures import ThreadPoolExecutor
    with ThreadPoolExecutor(max_workers=jobs) as ex:
        list(ex.map(lambda c: facts_dir_for(c, repo), configs))
