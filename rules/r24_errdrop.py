"""R24 ERRDROP — a solver error is never turned into a non-error outside the reviewed places.

Every algorithm of the library reports failure through `EosResult` (`Result<_, EosError>`; the estimator wraps it in
`EstimatorError`).  The behavioural properties are all of the form "whenever X returns a value, the value satisfies ..." and
"inside feeds are reported unstable", "a diagram with n points contains n states": they hold only as long as a failure of an
inner solve stays a failure (or is handled in one of the few documented ways: alternative start values, points of a diagram
that are skipped).  The rule takes a census of *every* place where a `Result` carrying a solver error is consumed and
classifies the consumer:

  propagate : `?` (Try::branch), returned, `unwrap` / `expect` (fails loudly), handed on to a Result -> Result combinator
              (`map`, `map_err`, `and_then`, `as_ref` ...) whose own result is a census site again, stored in a collection
  absorb    : `.ok()`, `.is_ok()`, `.is_err()`, `.err()`, `unwrap_or*`, `map_or*`, `or` / `or_else`, a `match` / `if let` /
              `let .. else` whose `Err` arm does not leave the function with an `Err`, a value that is dropped unused, a
              closure returning the Result into an adaptor that discards errors (`filter_map`, `flat_map`, `flatten` ...)

Every absorbing site, keyed by (function, call that first produced the Result), must be listed in
`tables/r24.toml` with the reason why the error may be dropped there; an unlisted site, or more sites of a listed key
than were reviewed, is a violation.  The kind of consumer and Result -> Result adaptors between producer and consumer
are spelling and not part of the key; a site in a private helper without a row of its own is charged to the helper's
callers.  The table is the Engler-style belief set: the code says where failures are
expected (first of three initialisations, a point of a phase diagram), the checker makes every *new* place visible."""
import os
import tomllib
from collections import defaultdict

from cfg import dominators, reachable
from facts import callee
from report import RuleResult

HERE = os.path.dirname(os.path.abspath(__file__))

PROPAGATE = {"branch", "unwrap", "expect", "unwrap_unchecked", "from_residual"}
PASS_ON = {"map", "map_err", "and_then", "as_ref", "as_mut", "clone", "into", "from", "cloned", "copied", "inspect", "inspect_err",
           "as_deref", "transpose"}
ABSORB = {"ok", "is_ok", "is_err", "err", "unwrap_or", "unwrap_or_else", "unwrap_or_default", "map_or", "map_or_else", "or", "or_else",
          "iter", "into_iter", "is_ok_and", "is_err_and", "unwrap_err", "expect_err"}
ERR_DROPPING_ADAPTORS = {"filter_map", "flat_map", "flatten", "find_map", "map_while", "take_while", "filter"}


def carries_solver_error(tys):
    if not tys or not tys.startswith("std::result::Result<"):
        return False
    err = tys.rsplit(",", 1)[-1]
    return "EosError" in err or "EstimatorError" in err


def root_path(b):
    return b.d.get("parent") if b.is_closure() and b.d.get("parent") else b.path


def _uses(b):
    uses = defaultdict(list)
    for bi, t in b.calls():
        for ai, a in enumerate(t["args"]):
            if a.get("k") in ("copy", "move") and not [p for p in a["place"]["p"] if p != "*"]:
                uses[a["place"]["l"]].append(("call", callee(t)[2], bi, t))
    for bi, si, st in b.stmts():
        rv = st["rv"]
        k = rv["k"]
        ops = []
        if k in ("use", "cast", "repeat"):
            ops = [rv["op"]]
        elif k == "agg":
            ops = rv["ops"]
        elif k == "discr":
            fl = [p for p in rv["place"]["p"] if isinstance(p, dict) and "f" in p]
            if fl and len([p for p in rv["place"]["p"] if p != "*"]) == 1:
                # discriminant of a tuple component: `match (result, other) { (Err(_), Some(x)) => .. }`
                uses[(rv["place"]["l"], fl[0]["f"])].append(("discr", st["place"]["l"], bi, st))
            else:
                uses[rv["place"]["l"]].append(("discr", st["place"]["l"], bi, st))
        elif k == "ref":
            if not [p for p in rv["place"]["p"] if p != "*"]:
                uses[rv["place"]["l"]].append(("ref", st["place"]["l"], bi, st))
        for oi, o in enumerate(ops):
            if o.get("k") in ("copy", "move") and not [p for p in o["place"]["p"] if p != "*"]:
                uses[o["place"]["l"]].append((k, st["place"]["l"], bi, st, oi))
    return uses


def _err_arm_propagates(b, discr_local, bi):
    """the switch on `discr_local` in block bi: does the Err arm (variant 1) leave the function with an Err value
    without rejoining the Ok arm?"""
    t = b.blocks[bi]["term"]
    if t["k"] != "switch" or t["op"].get("k") not in ("copy", "move") or t["op"]["place"]["l"] != discr_local:
        return None
    tg = dict((v, blk) for v, blk in t["targets"])
    if "1" in tg:
        err_t = tg["1"]
        ok_ts = [blk for v, blk in t["targets"] if v != "1"] + ([t["otherwise"]] if "0" not in tg else [])
        if "0" in tg:
            ok_ts = [tg["0"]]
    elif "0" in tg:
        err_t = t["otherwise"]
        ok_ts = [tg["0"]]
    else:
        return None
    # blocks that write an Err into the return place
    err_assign = set()
    for i, blk in enumerate(b.blocks):
        for st in blk["stmts"]:
            if st["place"]["l"] == 0 and st["rv"]["k"] == "agg" and st["rv"]["kind"].get("variant") == "Err":
                err_assign.add(i)
        tt = blk["term"]
        if tt["k"] == "call" and tt["dest"]["l"] == 0 and callee(tt)[2] in ("from_residual",):
            err_assign.add(i)
    if not err_assign:
        return False
    # every path from the Err arm to a return must pass through such a block
    rest = reachable(b, start=err_t, removed_blocks=frozenset(err_assign))
    for i in rest:
        if b.blocks[i]["term"]["k"] == "return":
            return False
    return True


def _drop_only_blocks(b, blocks):
    """shared epilogue blocks (drops / storage-dead chains leading to the return) do not count as rejoining"""
    out = set()
    for i in blocks:
        blk = b.blocks[i]
        if not blk["stmts"] and blk["term"]["k"] in ("drop", "goto", "return"):
            out.add(i)
    return out


_DEFS = {}


def _closure_steps(F, b, t):
    """names of the fallible steps (calls returning a Result with a solver error) inside the closure handed to an
    `and_then` / `map`-like adaptor: `init(..).and_then(|v| v.iterate(..))` is the chain init>iterate"""
    import boolsum
    out = []
    for a in t["args"][1:]:
        cb = F.body(boolsum.closure_def_of_type(b.opty(a)) or "") if a.get("k") in ("copy", "move") else None
        if cb is None:
            continue
        for bi, ct in cb.calls():
            if ct["dest"]["p"]:
                continue
            ty = cb.lty(ct["dest"]["l"])
            nm = str(callee(ct)[2])
            if ty and carries_solver_error(ty["s"]) and nm not in PASS_ON and nm not in PROPAGATE:
                out.append(nm)
    return out


def _root_producer(F, b, t, depth=0, allow_param=False):
    """identity of the fallible computation whose error is consumed: the call that first produced the Result, followed by
    the fallible steps chained onto it with `and_then` (`a>b`).  Result -> Result adaptors are followed back through their
    receiver, so respelling a combinator chain does not change the identity of a site, while absorbing the error of a
    shorter or longer chain does."""
    from cfg import Defs
    name = str(callee(t)[2])
    if name in ("call", "call_mut", "call_once") and t["args"]:
        # a local closure wrapping one fallible step (`let iterate = |p| Self::iterate(..); iterate(p)`)
        import boolsum
        cb = F.body(boolsum.closure_def_of_type(b.opty(t["args"][0])) or "")
        if cb is not None:
            # `let solve = |start: Result<..>| start.and_then(|x| x.iterate(..)); solve(Self::init(..))`: the chain of the closure's own
            # result with its parameter replaced by the chain of the actual argument
            rets = [ct for _bi, ct in cb.calls() if ct["dest"]["l"] == 0 and not ct["dest"]["p"]]
            if len(rets) == 1 and depth < 6:
                chain = _root_producer(F, cb, rets[0], depth + 1, True)
                head, _, rest = chain.partition(">")
                if head.startswith("$") and head[1:].isdigit() and len(t["args"]) == 2 and t["args"][1].get("k") in ("copy", "move"):
                    defs_b = _DEFS.get(id(b))
                    if defs_b is None:
                        defs_b = _DEFS[id(b)] = Defs(b)
                    tds = defs_b.of(t["args"][1]["place"]["l"])
                    idx = int(head[1:]) - 2
                    if len(tds) == 1 and tds[0][0] == "stmt" and tds[0][4]["k"] == "agg" and 0 <= idx < len(tds[0][4]["ops"]):
                        o = tds[0][4]["ops"][idx]
                        l2 = o["place"]["l"] if o.get("k") in ("copy", "move") else None
                        for _ in range(6):
                            if l2 is None:
                                break
                            ds2 = defs_b.of(l2)
                            if len(ds2) != 1:
                                break
                            if ds2[0][0] == "call":
                                return ">".join([_root_producer(F, b, ds2[0][2], depth + 1)] + ([rest] if rest else []))
                            rv2 = ds2[0][4]
                            l2 = rv2["op"]["place"]["l"] if rv2["k"] in ("use", "cast") and rv2["op"].get("k") in ("copy", "move") else None
            inner = []
            for bi_, ct in cb.calls():
                ty_ = cb.lty(ct["dest"]["l"]) if not ct["dest"]["p"] else None
                nm_ = str(callee(ct)[2])
                if ty_ and carries_solver_error(ty_["s"]) and nm_ not in PASS_ON and nm_ not in PROPAGATE:
                    inner.append(nm_)
            if len(set(inner)) == 1:
                return inner[0]
        return name
    if name not in PASS_ON or depth > 8 or not t["args"]:
        return name
    a = t["args"][0]
    if a.get("k") not in ("copy", "move"):
        return name
    steps = _closure_steps(F, b, t) if name == "and_then" else []
    defs = _DEFS.get(id(b))
    if defs is None:
        defs = _DEFS[id(b)] = Defs(b)
    l = a["place"]["l"]
    for _ in range(8):
        ds = defs.of(l)
        if allow_param and not ds and b.is_closure() and 2 <= l <= b["arg_count"]:
            return ">".join(["$%d" % l] + steps)      # the closure's own parameter (resolved by the caller of the closure)
        if len(ds) != 1:
            return name
        d = ds[0]
        if d[0] == "call":
            if not carries_solver_error((b.lty(d[2]["dest"]["l"]) or {}).get("s")):
                return name
            return ">".join([_root_producer(F, b, d[2], depth + 1, allow_param)] + steps)
        rv = d[4]
        if rv["k"] in ("use", "cast") and rv["op"].get("k") in ("copy", "move"):
            l = rv["op"]["place"]["l"]
        elif rv["k"] == "ref":
            l = rv["place"]["l"]
        else:
            return name
    return name


def census(F):
    """list of absorbing sites: dict(root, body, producer, kind, span)"""
    sites = []
    n_results = 0
    creation = {}       # closure def path -> (consumer call name) of the call the closure literal is passed to
    for b in F.bodies:
        for bi, si, st in b.stmts():
            rv = st["rv"]
            if rv["k"] == "agg" and rv["kind"].get("t") == "closure":
                l = st["place"]["l"]
                for bj, t in b.calls():
                    for a in t["args"]:
                        if a.get("k") in ("copy", "move") and a["place"]["l"] == l:
                            creation[rv["kind"]["def"]] = callee(t)[2]
    for b in F.bodies:
        uses = None
        for bi, t in b.calls():
            if t["dest"]["p"]:
                continue
            l = t["dest"]["l"]
            ty = b.lty(l)
            if not ty or not carries_solver_error(ty["s"]):
                continue
            if l == 0:
                # a closure returning the Result straight into an error-dropping adaptor
                if b.is_closure() and creation.get(b.path) in ERR_DROPPING_ADAPTORS:
                    n_results += 1
                    sites.append(dict(root=root_path(b), body=b.path, producer=str(callee(t)[2]), kind="adaptor:" + creation[b.path], span=t["span"]))
                continue
            n_results += 1
            uses = uses or _uses(b)
            producer = _root_producer(F, b, t)
            kinds = set()
            work = [l]
            seen = set()
            discr_uses = []
            while work:
                x = work.pop()
                if x in seen:
                    continue
                seen.add(x)
                us = uses.get(x, [])
                if not us and x == l:
                    kinds.add("dropped")
                for u in us:
                    if u[0] == "call":
                        nm = str(u[1])
                        if nm in PROPAGATE or nm in PASS_ON:
                            continue
                        if nm in ABSORB:
                            kinds.add(nm)
                        elif nm == "drop":
                            kinds.add("dropped")
                        else:
                            kinds.add("arg:" + nm)
                    elif u[0] == "discr":
                        discr_uses.append(u)
                    elif u[0] == "ref":
                        work.append(u[1])
                    elif u[0] in ("use", "cast"):
                        if u[1] != 0:
                            work.append(u[1])
                    elif u[0] == "agg":
                        # stored in a tuple / struct / Some(..): still carries the error — unless the tuple is matched on the spot
                        if len(u) > 4 and u[3]["rv"]["kind"].get("t") == "tuple" and not u[3]["place"]["p"]:
                            discr_uses.extend(uses.get((u[1], u[4]), []))
            if discr_uses:
                # (discriminant read, switch on it); re-inspections dominated by an earlier switch on the same Result
                # (drop elaboration, nested patterns) already know the variant and are not decisions
                pairs = []
                for u in discr_uses:
                    for bj, blk in enumerate(b.blocks):
                        tt = blk["term"]
                        if tt["k"] == "switch" and tt["op"].get("k") in ("copy", "move") and tt["op"]["place"]["l"] == u[1]:
                            pairs.append((u[2], bj, u[1]))
                dom = dominators(b)
                for (db, sb, dl) in pairs:
                    if db not in dom:
                        continue            # unwind / cleanup path
                    if any(q[1] != sb and q[1] in dom[db] for q in pairs):
                        continue
                    if not _err_arm_propagates(b, dl, sb):
                        kinds.add("match")
            for k in sorted(kinds):
                if k.startswith("arg:") and k[4:] in ("push", "extend", "insert", "collect", "send", "Ok", "Some"):
                    continue            # stored: still carries the error
                sites.append(dict(root=root_path(b), body=b.path, producer=producer, kind=k, span=t["span"]))
    return sites, n_results


def load_table():
    with open(os.path.join(HERE, "..", "tables", "r24.toml"), "rb") as f:
        return tomllib.load(f).get("absorb", [])


def _callers(F):
    """root function path -> set of root function paths calling it (closures charged to their parent)"""
    cs = defaultdict(set)
    for b in F.bodies:
        src = root_path(b)
        for bi, t in b.calls():
            cb = F.callee_body(t)
            if cb is not None and not cb.is_closure():
                cs[cb.path].add(src)
    return cs


def run(F, scopes, rule_id="R24"):
    r = RuleResult(rule_id, "ERRDROP: solver errors are absorbed only at the reviewed sites")
    sites, n_results = census(F)
    table = load_table()
    callers = None
    vis = {b.path: b.get("vis") for b in F.bodies if not b.is_closure()}

    # thin wrappers: a function whose result is the result of exactly one call of another function of the library (and which makes
    # no other fallible call) produces the same error as that function — `pub fn tp_flash_(..) { self.tp_flash_with(.., options.into()) }`.
    # Producer names are compared modulo this forwarding (a reviewed row names either of the two).
    core = {}
    for g in F.bodies:
        if g.is_closure() or not g.path.startswith(("feos_core::", "feos_dft::", "feos::")) or len(g.blocks) > 40:
            continue
        fallible = [t for _bi, t in g.calls() if not t["dest"]["p"] and carries_solver_error((g.lty(t["dest"]["l"]) or {}).get("s"))
                    and str(callee(t)[2]) not in PASS_ON and str(callee(t)[2]) not in PROPAGATE]
        if len(fallible) == 1 and fallible[0]["dest"]["l"] == 0 and F.callee_body(fallible[0]) is not None:
            a_, b_ = g.path.split("::")[-1], str(callee(fallible[0])[2])
            if a_ != b_:
                core[a_] = b_

    def canon(name):
        for _ in range(4):
            if name not in core:
                break
            name = core[name]
        return name

    def canon_chain(chain):
        return ">".join(canon(x) for x in chain.split(">"))

    def rows_for(root, producer):
        # a row for a chain `a>b` (the failure of either step is absorbed at one place) also accepts the two steps absorbed at
        # two places of the same function (`if let Ok(x) = a() { let r = b(x); if r.is_ok() { return r } }`)
        pc = canon_chain(producer)
        return [i for i, t in enumerate(table) if root.endswith(t["fn"])
                and (t["producer"] == producer or producer in t["producer"].split(">")
                     or canon_chain(t["producer"]) == pc or pc in canon_chain(t["producer"]).split(">"))]

    # a site is keyed by (function, call that first produced the Result).  The *kind* of consumer (`.ok()`, `is_ok()`, `if let Ok`)
    # and Result -> Result adaptors in between are spelling; a site inside a helper (private or a new public stage of a split function) that has no row of its own is charged to
    # the functions calling the helper (extracting a loop into a helper keeps the reviewed behaviour of its callers).
    per_row = defaultdict(list)
    per_row_parts = defaultdict(set)
    n_scope = 0
    groups = defaultdict(list)
    for s_ in sites:
        groups[(s_["root"], s_["producer"])].append(s_)
    for (root, producer), ss in sorted(groups.items()):
        if not any(sc in root for sc in scopes):
            continue
        n_scope += len(ss)
        rows = rows_for(root, producer)
        charged = [root]
        if not rows:
            callers = callers or _callers(F)
            seen = {root}
            frontier = [root]
            for _ in range(3):
                nxt = []
                for f in frontier:
                    for c in callers.get(f, ()):
                        if c in seen:
                            continue
                        seen.add(c)
                        rs = rows_for(c, producer)
                        if rs:
                            rows += rs
                            charged.append(c)
                        else:
                            nxt.append(c)
                frontier = nxt
        kinds = ",".join(sorted({x["kind"] for x in ss}))
        iid = "absorb|%s|%s" % (root, producer)
        if not rows and producer in ("as_ref", "as_mut", "iter", "last", "get", "index"):
            # a Result that is *stored* (vector of profiles of an isotherm) and inspected later: the failure was kept when it was
            # produced; skipping failed entries while reading is not a place where a fresh failure disappears
            r.inst(iid, ss[0]["span"], "exempt", nontrivial=False, kinds=kinds, note="inspection of a stored Result")
            continue
        if not rows:
            r.inst(iid, ss[0]["span"], "violation")
            r.fail(iid, ss[0]["span"],
                   "%s: the error of `%s(..)` is absorbed here (%s) and the site is not one of the reviewed places where a solver "
                   "failure may be turned into a non-error — a failed inner solve now looks like a regular result to the caller" % (
                       root, producer, kinds))
            continue
        for i in set(rows):
            per_row[i] += ss
            per_row_parts[i].add(canon_chain(producer))
        r.inst(iid, ss[0]["span"], "ok", sites=len(ss), kinds=kinds, charged_to=charged[-1], reviewed=table[rows[0]]["why"])
    roots = {b.path.split("::{closure")[0] for b in F.bodies}
    for i, t in enumerate(table):
        fns = [x for x in roots if x.endswith(t["fn"]) and any(sc in x for sc in scopes)]
        if not fns:
            continue
        have = len(per_row.get(i, []))
        parts = t["producer"].split(">")
        want = t.get("count", 1) * len(fns) * len(parts)
        if have > want:
            iid = "absorb|%s|%s|count" % (t["fn"], t["producer"])
            r.inst(iid, per_row[i][-1]["span"], "violation")
            r.fail(iid, per_row[i][-1]["span"],
                   "%s: %d sites absorb the error of `%s(..)`, %d were reviewed" % (t["fn"], have, t["producer"], want))
        # two-sided: a reviewed recovery (alternative start value, retry) must not silently disappear or be narrowed
        want = t.get("count", 1)          # impls of one trait method share a row; only some of them have the recovery
        seen_parts = per_row_parts.get(i, set())
        cparts = [canon(x) for x in parts]
        if t.get("recovery") and len(parts) > 1 and seen_parts and canon_chain(t["producer"]) not in seen_parts and not set(cparts) <= seen_parts:
            fn = sorted(fns, key=len)[0]
            iid = "absorb|%s|%s|removed" % (t["fn"], t["producer"])
            r.inst(iid, "-", "violation")
            r.fail(iid, "-",
                   "%s: of the reviewed chain `%s` only %s is still absorbed: a failure of the other step is no longer rescued by the "
                   "alternative attempt (%s)" % (fn, t["producer"], sorted(seen_parts), t["why"][:90]))
            continue
        if t.get("recovery") and have < want:
            fn = sorted(fns, key=len)[0]
            iid = "absorb|%s|%s|removed" % (t["fn"], t["producer"])
            r.inst(iid, "-", "violation")
            r.fail(iid, "-",
                   "%s: the reviewed recovery from a failed `%s(..)` (%s; %d site(s) reviewed, %d found) was removed or narrowed: inputs that "
                   "were rescued by the alternative attempt now fail" % (fn, t["producer"], t["why"][:90], want, have))
    # (c) no recovery decision depends on the *kind* of solver error: on the reviewed tree nothing but the derived Display / Debug /
    #     Error impls inspects the variant of an EosError.  A retry that is taken only for `NotConverged` silently stops rescuing
    #     attempts that fail with IterationFailed / TrivialSolution.
    n_kind = 0
    for b in F.bodies:
        if "::tests::" in b.path or not any(sc in b.path for sc in scopes):
            continue
        for bi, si, st in b.stmts():
            rv = st["rv"]
            if rv["k"] != "discr" or st.get("exp"):
                continue
            ty = b.pty(rv["place"])
            if ty and (ty.get("s") or "").endswith("EosError"):
                n_kind += 1
                iid = "errkind|%s" % b.path.split("::{closure")[0]
                r.inst(iid, st.get("span", b.file_line()), "violation")
                r.fail(iid, st.get("span", b.file_line()),
                       "%s branches on the variant of a solver error: a recovery (retry / alternative start value) that depends on the error kind no "
                       "longer rescues attempts failing with a different kind — no other place in the library distinguishes error kinds" % b.path)
    r.inst("absorb|census", "-", "ok", results_examined=n_results, absorbing_sites_in_scope=n_scope, error_kind_branches=n_kind, nontrivial=n_results > 0)
    r.floor("Result values carrying a solver error examined", n_results, 300)
    r.exhaustive = True
    r.blind.append("errors converted by hand-written code that never holds a Result (e.g. NaN sentinels) are not seen")
    return [r]
