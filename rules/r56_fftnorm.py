"""R56 FFT-NORMALISATION — an inverse transform is normalised by the length of the transform it undoes.

The FFT / DCT libraries return unnormalised inverse transforms; the convolvers divide by the number of points.  In the
convolver code every such point count is written `T::from_usize(n)`; for the uniform fluid to be an exact solution (C16:
weighted densities of a uniform profile equal the bulk weighted densities on every grid, with one or several segments) `n`
has to be the length of the one-dimensional transform that was applied — `plan.len()` of the FFT / DCT plan, or the length of
the one-dimensional lane.  The length of a *multi-dimensional* array (`f.len()` = product of all axes, including the leading
segment axis) is a different number as soon as there is more than one segment or more than one axis.  Rule: the operand of
every `from_usize` in feos_dft::convolver derives from a `len()` of a transform plan or of an array of dimension one."""
from cfg import Defs
from facts import callee
from report import RuleResult


def run(F):
    r = RuleResult("R56", "FFT-NORMALISATION: point counts used to normalise inverse transforms are lengths of the 1-D transform")
    n = 0
    for b in F.bodies:
        if not b.path.startswith("feos_dft::convolver") or "::tests::" in b.path:
            continue
        defs = None
        for bi, t in b.calls():
            if callee(t)[2] != "from_usize" or not t["args"] or t["args"][0].get("k") not in ("copy", "move"):
                continue
            defs = defs or Defs(b)
            n += 1
            srcs = []
            work, seen = [t["args"][0]["place"]["l"]], set()
            while work and len(seen) < 60:
                l = work.pop()
                if l in seen:
                    continue
                seen.add(l)
                for d in defs.of(l):
                    if d[0] == "call":
                        nm = str(callee(d[2])[2])
                        if nm == "len":
                            a0 = d[2]["args"][0] if d[2]["args"] else None
                            ty = (b.opty(a0) or {}).get("s", "") if a0 else ""
                            srcs.append((str(callee(d[2])[0]), ty, d[2]["span"]))
                        elif nm in ("deref", "clone", "into", "unwrap", "min", "max"):
                            work += [a["place"]["l"] for a in d[2]["args"] if a.get("k") in ("copy", "move")]
                        else:
                            srcs.append(("call:" + nm, "", d[2]["span"]))
                    else:
                        rv = d[4]
                        if rv["k"] in ("use", "cast") and rv["op"].get("k") in ("copy", "move"):
                            work.append(rv["op"]["place"]["l"])
                        elif rv["k"] == "binop":
                            work += [o["place"]["l"] for o in (rv["a"], rv["b"]) if o.get("k") in ("copy", "move")]
                        elif rv["k"] == "ref":
                            work.append(rv["place"]["l"])
            fn = b.path.split("::{closure")[0]
            iid = "fftnorm|%s" % fn
            bad = [s_ for s_ in srcs if s_[0].startswith("ndarray") and "Dim<[usize; 1]>" not in s_[1]]
            unknown = [s_ for s_ in srcs if s_[0].startswith("call:")] or ([("none", "", t["span"])] if not srcs else [])
            if bad:
                r.inst(iid, t["span"], "violation")
                r.fail(iid, t["span"],
                       "%s: an inverse transform is normalised by the length of a multi-dimensional array (`%s`): with more than one "
                       "segment / axis this is not the number of points of the 1-D transform, and a uniform profile is no longer reproduced" % (
                           fn, bad[0][1][:80]))
            elif unknown:
                r.inst(iid, t["span"], "undecided", nontrivial=False)
            else:
                r.inst(iid, t["span"], "ok", source=srcs[0][0].split("::")[-2] if "::" in srcs[0][0] else srcs[0][0])
    r.floor("normalisation point counts in the convolver code", n, 4)
    r.exhaustive = True
    return [r]
