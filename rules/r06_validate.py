"""R6 VALIDATE — who may construct a `State`, and that every construction passed validation.

(a) struct-literal census: `State { .. }` is built only in State::new_nvt_unchecked and <State as Clone>::clone
(b) every call of new_nvt_unchecked is cut off from the entry by the success (`?` Continue) edges of
    Residual::validate_moles and state::validate applied to the same operands
(c) inside `validate`: each of T, V and every N_i is tested with is_finite and is_sign_negative and the
    invalid edge of every such test cannot reach the Ok(()) return
(d) echo: new_nvt_unchecked stores its temperature / volume / moles parameters (and their reduced values)
    in the same-named fields"""
from cfg import Defs, reachable, strip_place, provenance
from facts import callee
from report import RuleResult

STATE = "feos_core::state::State"


def continue_edges_of(body, defs, call_bi):
    """edges (switch block -> Continue target) of the `?` applied to the result of the call in block call_bi"""
    t = body.blocks[call_bi]["term"]
    res = t["dest"]["l"]
    out = []
    for bi, t2 in body.calls():
        name = callee(t2)[2]
        if name == "branch" and callee(t2)[1] == "std::ops::Try":
            a = t2["args"][0]
            if a["k"] in ("copy", "move") and a["place"]["l"] == res:
                cf = t2["dest"]["l"]
                # the switch on discriminant(cf)
                for sb, blk in enumerate(body.blocks):
                    tt = blk["term"]
                    if tt["k"] == "switch" and tt["op"]["k"] in ("copy", "move"):
                        dl = tt["op"]["place"]["l"]
                        for d in defs.of(dl):
                            if d[0] == "stmt" and d[4]["k"] == "discr" and d[4]["place"]["l"] == cf:
                                for v, tgt in tt["targets"]:
                                    if v == "0":
                                        out.append((sb, tgt))
    return out


def run(F):
    r = RuleResult("R6", "VALIDATE: a State is only built by new_nvt_unchecked/clone and only after validation")
    # ---------------- (a) census of State aggregates
    n_agg = 0
    for b in F.bodies:
        for bi, si, st in b.stmts():
            rv = st["rv"]
            if rv["k"] == "agg" and rv["kind"].get("t") == "adt" and rv["kind"]["adt"] == STATE:
                n_agg += 1
                ok = b.path.endswith("State::<E>::new_nvt_unchecked") or (b.get("impl_trait") == "std::clone::Clone" and b.path.endswith("::clone") and "State<E>" in (b.get("impl_self") or ""))
                iid = "literal|%s" % b.path
                if ok:
                    r.inst(iid, st["span"], "ok")
                else:
                    r.inst(iid, st["span"], "violation")
                    r.fail("literal|%s" % b.path, st["span"], "`State { .. }` is constructed in %s; only new_nvt_unchecked and Clone may build a State "
                           "(every other path must go through the validating constructor)" % b.path)
    r.floor("State struct literals", n_agg, 2)

    # ---------------- (b) every call of new_nvt_unchecked is guarded
    n_calls = 0
    for b in F.bodies:
        defs = None
        for bi, t in b.calls():
            p, tr, name = callee(t)
            if name != "new_nvt_unchecked":
                continue
            n_calls += 1
            defs = defs or Defs(b)
            iid = "unchecked-call|%s" % b.path
            removed = set()
            found = {}
            arg_roots = [provenance(b, defs, [a["place"]["l"]])[0] if a["k"] in ("copy", "move") else set() for a in t["args"]]
            for vbi, vt in b.calls():
                vp, vtr, vname = callee(vt)
                if vname == "validate_moles" and vtr and vtr.endswith("Residual"):
                    # moles operand must be the same parameter as the unchecked call's moles (last arg)
                    vr = provenance(b, defs, [a["place"]["l"] for a in vt["args"][1:] if a["k"] in ("copy", "move")])[0]
                    if vr & arg_roots[-1]:
                        es = continue_edges_of(b, defs, vbi)
                        if es:
                            found["validate_moles"] = es
                elif vname == "validate" and vp.endswith("state::validate"):
                    same = True
                    for i, a in enumerate(vt["args"]):
                        pr = provenance(b, defs, [a["place"]["l"]])[0] if a["k"] in ("copy", "move") else set()
                        if not (pr & arg_roots[i + 1]):
                            same = False
                    if same:
                        es = continue_edges_of(b, defs, vbi)
                        if es:
                            found["validate"] = es
            ok = True
            for v in ("validate_moles", "validate"):
                if v not in found:
                    ok = False
                    r.fail("unchecked-call|%s|missing-%s" % (b.path, v), t["span"],
                           "%s calls new_nvt_unchecked without first passing `%s(..)?` on the same operands: non-finite / negative "
                           "T, V, N or a component-count mismatch would become a State" % (b.path, v))
                    continue
                reach = reachable(b, set(found[v]))
                if bi in reach:
                    ok = False
                    r.fail("unchecked-call|%s|bypass-%s" % (b.path, v), t["span"],
                           "%s: the call of new_nvt_unchecked is reachable on a path that does not pass the success edge of `%s(..)?`" % (b.path, v))
            r.inst(iid, t["span"], "ok" if ok else "violation")
    r.floor("calls of new_nvt_unchecked", n_calls, 1)

    # ---------------- (c) body of validate
    vb = [b for b in F.bodies if b.path == "feos_core::state::validate"]
    n_checks = 0
    if not vb:
        r.fail("missing|validate", "-", "feos_core::state::validate not found")
    else:
        b = vb[0]
        defs = Defs(b)
        ok_blocks = set()
        for bi, si, st in b.stmts():
            rv = st["rv"]
            if st["place"]["l"] == 0 and rv["k"] == "agg" and rv["kind"].get("variant") == "Ok":
                ok_blocks.add(bi)
        if not ok_blocks:
            r.fail("validate|no-ok", b.file_line(), "validate has no Ok(()) return")
        seen = {}
        for bi, t in b.calls():
            p, tr, name = callee(t)
            if name not in ("is_finite", "is_sign_negative", "is_nan", "is_infinite"):
                continue
            a = t["args"][0]
            if a["k"] not in ("copy", "move"):
                continue
            params, _ = provenance(b, defs, [a["place"]["l"]], call_names=("to_reduced", "iter", "next", "into_iter", "deref", "clone", "as_ref", "borrow"))
            res = t["dest"]["l"]
            # the switch consuming the result (possibly through a Not)
            for sb, blk in enumerate(b.blocks):
                tt = blk["term"]
                if tt["k"] != "switch" or tt["op"]["k"] not in ("copy", "move"):
                    continue
                dl = tt["op"]["place"]["l"]
                neg = False
                src = dl
                for d in defs.of(dl):
                    if d[0] == "stmt" and d[4]["k"] == "unop" and d[4]["op"] == "Not" and d[4]["a"]["k"] in ("copy", "move"):
                        src = d[4]["a"]["place"]["l"]
                        neg = True
                    elif d[0] == "stmt" and d[4]["k"] == "use" and d[4]["op"]["k"] in ("copy", "move"):
                        src = d[4]["op"]["place"]["l"]
                if src != res:
                    continue
                tv = {v: bb for v, bb in tt["targets"]}
                true_t = tt["otherwise"] if "0" in tv else tv.get("1")
                false_t = tv.get("0", tt["otherwise"])
                if neg:
                    true_t, false_t = false_t, true_t
                # invalid edge: is_finite false, is_sign_negative true
                invalid = false_t if name == "is_finite" else true_t
                leaks = reachable(b, start=invalid) & ok_blocks
                n_checks += 1
                for pr in params:
                    key = (pr, name)
                    good = not leaks
                    seen[key] = seen.get(key, False) or good
                    iid = "validate|%s(param %d)" % (name, pr)
                    if good:
                        r.inst(iid, t["span"], "ok")
                    else:
                        r.inst(iid, t["span"], "violation")
                        r.fail("validate|%s|param%d|leaks" % (name, pr), t["span"],
                               "validate: the invalid outcome of %s on parameter %d (%s) can still reach Ok(())" % (name, pr, b.lname(pr)))
        for pr in range(1, b["arg_count"] + 1):
            for name in ("is_finite", "is_sign_negative"):
                if not seen.get((pr, name)):
                    r.inst("validate|%s(param %d)" % (name, pr), b.file_line(), "violation")
                    r.fail("validate|%s|param%d|missing" % (name, pr), b.file_line(),
                           "validate no longer rejects parameter %d (%s) with %s: a non-finite or negative value would become a State" % (pr, b.lname(pr), name))
    r.floor("validate predicate checks", n_checks, 6)

    # ---------------- (d) echo in new_nvt_unchecked
    ub = [b for b in F.bodies if b.path.endswith("State::<E>::new_nvt_unchecked")]
    n_echo = 0
    if not ub:
        r.fail("missing|new_nvt_unchecked", "-", "new_nvt_unchecked not found")
    else:
        b = ub[0]
        defs = Defs(b)
        agg = None
        for bi, si, st in b.stmts():
            rv = st["rv"]
            if rv["k"] == "agg" and rv["kind"].get("adt") == STATE:
                agg = (st, rv)
        if agg:
            st, rv = agg
            fields = rv["kind"]["fields"]
            # parameter by field name: the parameter whose debug name equals the field name (public API names)
            pname = {b.lname(l): l for l in range(1, b["arg_count"] + 1)}
            want = {"temperature": "temperature", "volume": "volume", "moles": "moles",
                    "reduced_temperature": "temperature", "reduced_volume": "volume", "reduced_moles": "moles"}
            for fname, src in want.items():
                if fname not in fields or src not in pname:
                    r.fail("echo|%s|unresolved" % fname, st["span"], "new_nvt_unchecked: field %s or parameter %s not found" % (fname, src))
                    continue
                op = rv["ops"][fields.index(fname)]
                n_echo += 1
                params = set()
                if op["k"] in ("copy", "move"):
                    params, _ = provenance(b, defs, [op["place"]["l"]], call_names=("to_reduced", "to_owned", "clone", "deref"))
                if params == {pname[src]}:
                    r.inst("echo|%s" % fname, st["span"], "ok")
                else:
                    r.inst("echo|%s" % fname, st["span"], "violation")
                    r.fail("echo|%s" % fname, st["span"], "new_nvt_unchecked: field `%s` is not (only) derived from parameter `%s` (derived from %s): "
                           "the state would not echo its specification" % (fname, src, sorted(b.lname(p) for p in params)))
    r.floor("echo fields", n_echo, 6)

    # ---------------- (e) validate_moles: Ok only when components() == number of mole entries
    mb = [b for b in F.bodies if b.path.endswith("Residual::validate_moles")]
    n_vm = 0
    if not mb:
        r.fail("missing|validate_moles", "-", "Residual::validate_moles not found")
    else:
        b = mb[0]
        defs = Defs(b)
        ok_blocks = {bi for bi, si, st in b.stmts() if st["place"]["l"] == 0 and st["rv"]["k"] == "agg" and st["rv"]["kind"].get("variant") == "Ok"}
        edges = set()
        for sb, blk in enumerate(b.blocks):
            tt = blk["term"]
            if tt["k"] != "switch" or tt["op"]["k"] not in ("copy", "move"):
                continue
            for d in defs.of(tt["op"]["place"]["l"]):
                if d[0] == "stmt" and d[4]["k"] == "binop" and d[4]["op"] == "Eq":
                    srcs = []
                    for o in (d[4]["a"], d[4]["b"]):
                        if o["k"] in ("copy", "move"):
                            _, st_ = provenance(b, defs, [o["place"]["l"]])
                            srcs.append(st_)
                    flat = " ".join(sorted(x for s_ in srcs for x in s_))
                    if "Components::components" in flat and ("map_or" in flat or "len" in flat):
                        tv = {v: bb for v, bb in tt["targets"]}
                        true_t = tt["otherwise"] if "0" in tv else tv.get("1")
                        edges.add((sb, true_t))
        n_vm = len(edges)
        if not edges:
            r.inst("validate_moles|eq", b.file_line(), "violation")
            r.fail("validate_moles|no-eq", b.file_line(), "validate_moles no longer compares components() with the number of mole entries")
        else:
            reach = reachable(b, edges)
            leak = reach & ok_blocks
            if leak or not ok_blocks:
                r.inst("validate_moles|eq", b.file_line(), "violation")
                r.fail("validate_moles|ok-bypasses-eq", b.file_line(), "validate_moles can return Ok without components() == len(moles) holding")
            else:
                r.inst("validate_moles|eq", b.file_line(), "ok")
    r.floor("validate_moles component comparison", n_vm, 1)
    r.exhaustive = True
    return [r]
