"""R6 VALIDATE — who may construct a `State`, and that every construction passed validation.

(a) struct-literal census: `State { .. }` is built only in State::new_nvt_unchecked and <State as Clone>::clone
(b) every call of new_nvt_unchecked is cut off from the entry by the success (`?` Continue) edges of
    Residual::validate_moles and state::validate applied to the same operands
(c) inside `validate`: for each of T, V and N_i and each class of invalid f64 (NaN, +inf, -inf, negative incl. -0.0) some
    test applied to that parameter takes, for a value of that class, an edge that cannot reach the Ok(()) return.  Tests are
    the std predicates is_finite / is_sign_negative / is_nan / is_infinite, predicate closures or one-argument bool helpers
    built from them (summarised by evaluating their body for each class, rules/boolsum.py), and find / any / all / position
    over the parameter's elements with such a predicate
(d) echo: new_nvt_unchecked stores its temperature / volume / moles parameters (and their reduced values)
    in the same-named fields"""
from cfg import Defs, reachable, strip_place, provenance
from facts import callee
from report import RuleResult

STATE = "feos_core::state::State"


def continue_edges_of(body, defs, call_bi):
    """edges (switch block -> Continue target) of the `?` applied to the result of the call in block call_bi"""
    t = body.blocks[call_bi]["term"]
    res = t["dest"]["l"]
    out = []
    for bi, t2 in body.calls():
        name = callee(t2)[2]
        if name == "branch" and callee(t2)[1] == "std::ops::Try":
            a = t2["args"][0]
            if a["k"] in ("copy", "move") and a["place"]["l"] == res:
                cf = t2["dest"]["l"]
                # the switch on discriminant(cf)
                for sb, blk in enumerate(body.blocks):
                    tt = blk["term"]
                    if tt["k"] == "switch" and tt["op"]["k"] in ("copy", "move"):
                        dl = tt["op"]["place"]["l"]
                        for d in defs.of(dl):
                            if d[0] == "stmt" and d[4]["k"] == "discr" and d[4]["place"]["l"] == cf:
                                for v, tgt in tt["targets"]:
                                    if v == "0":
                                        out.append((sb, tgt))
    return out


def run(F):
    r = RuleResult("R6", "VALIDATE: a State is only built by new_nvt_unchecked/clone and only after validation")
    # ---------------- (a) census of State aggregates
    n_agg = 0
    for b in F.bodies:
        for bi, si, st in b.stmts():
            rv = st["rv"]
            if rv["k"] == "agg" and rv["kind"].get("t") == "adt" and rv["kind"]["adt"] == STATE:
                n_agg += 1
                ok = b.path.endswith("State::<E>::new_nvt_unchecked") or (b.get("impl_trait") == "std::clone::Clone" and b.path.endswith("::clone") and "State<E>" in (b.get("impl_self") or ""))
                iid = "literal|%s" % b.path
                if ok:
                    r.inst(iid, st["span"], "ok")
                else:
                    r.inst(iid, st["span"], "violation")
                    r.fail("literal|%s" % b.path, st["span"], "`State { .. }` is constructed in %s; only new_nvt_unchecked and Clone may build a State "
                           "(every other path must go through the validating constructor)" % b.path)
    r.floor("State struct literals", n_agg, 2)

    # ---------------- (b) every call of new_nvt_unchecked is guarded
    n_calls = 0
    for b in F.bodies:
        defs = None
        for bi, t in b.calls():
            p, tr, name = callee(t)
            if name != "new_nvt_unchecked":
                continue
            n_calls += 1
            defs = defs or Defs(b)
            iid = "unchecked-call|%s" % b.path
            removed = set()
            found = {}
            arg_roots = [provenance(b, defs, [a["place"]["l"]])[0] if a["k"] in ("copy", "move") else set() for a in t["args"]]
            for vbi, vt in b.calls():
                vp, vtr, vname = callee(vt)
                if vname == "validate_moles" and vtr and vtr.endswith("Residual"):
                    # moles operand must be the same parameter as the unchecked call's moles (last arg)
                    vr = provenance(b, defs, [a["place"]["l"] for a in vt["args"][1:] if a["k"] in ("copy", "move")])[0]
                    if vr & arg_roots[-1]:
                        es = continue_edges_of(b, defs, vbi)
                        if es:
                            found["validate_moles"] = es
                elif vname == "validate" and vp.endswith("state::validate"):
                    same = True
                    for i, a in enumerate(vt["args"]):
                        pr = provenance(b, defs, [a["place"]["l"]])[0] if a["k"] in ("copy", "move") else set()
                        if not (pr & arg_roots[i + 1]):
                            same = False
                    if same:
                        es = continue_edges_of(b, defs, vbi)
                        if es:
                            found["validate"] = es
            ok = True
            for v in ("validate_moles", "validate"):
                if v not in found:
                    ok = False
                    r.fail("unchecked-call|%s|missing-%s" % (b.path, v), t["span"],
                           "%s calls new_nvt_unchecked without first passing `%s(..)?` on the same operands: non-finite / negative "
                           "T, V, N or a component-count mismatch would become a State" % (b.path, v))
                    continue
                reach = reachable(b, set(found[v]))
                if bi in reach:
                    ok = False
                    r.fail("unchecked-call|%s|bypass-%s" % (b.path, v), t["span"],
                           "%s: the call of new_nvt_unchecked is reachable on a path that does not pass the success edge of `%s(..)?`" % (b.path, v))
            r.inst(iid, t["span"], "ok" if ok else "violation")
    r.floor("calls of new_nvt_unchecked", n_calls, 1)

    # ---------------- (c) body of validate
    vb = [b for b in F.bodies if b.path == "feos_core::state::validate"]
    n_checks = 0
    if not vb:
        r.fail("missing|validate", "-", "feos_core::state::validate not found")
    else:
        b = vb[0]
        defs = Defs(b)
        ok_blocks = set()
        for bi, si, st in b.stmts():
            rv = st["rv"]
            if st["place"]["l"] == 0 and rv["k"] == "agg" and rv["kind"].get("variant") == "Ok":
                ok_blocks.add(bi)
        # a Result-returning gate in tail position (`moles.iter().try_for_each(|&n| check(n))`) hands its own Ok(()) on
        tail_blocks = {bi for bi, t in b.calls() if t["dest"]["l"] == 0 and not t["dest"]["p"] and callee(t)[2] not in ("from_residual",)}
        ok_blocks |= tail_blocks
        if not ok_blocks:
            r.fail("validate|no-ok", b.file_line(), "validate has no Ok(()) return")
        # Value classes of an f64 and the answers of the std predicates on them.  A State may only be built from the last class.
        CLASSES = {"nan": dict(is_finite=False, is_sign_negative=False, is_nan=True, is_infinite=False),
                   "+inf": dict(is_finite=False, is_sign_negative=False, is_nan=False, is_infinite=True),
                   "-inf": dict(is_finite=False, is_sign_negative=True, is_nan=False, is_infinite=True),
                   "negative": dict(is_finite=True, is_sign_negative=True, is_nan=False, is_infinite=False),
                   "non-negative finite": dict(is_finite=True, is_sign_negative=False, is_nan=False, is_infinite=False)}
        for c_ in CLASSES.values():
            c_["is_sign_positive"] = not c_["is_sign_negative"]
            c_["is_normal"] = c_["is_finite"]          # (subnormal / zero distinctions do not matter for the classes above)
        INVALID = [c for c in CLASSES if c != "non-negative finite"]
        PROV = ("to_reduced", "iter", "next", "into_iter", "deref", "clone", "as_ref", "borrow", "copied", "cloned", "view", "into_value")

        def params_of(op):
            if op.get("k") not in ("copy", "move"):
                return set()
            ls = [op["place"]["l"]]
            # a tuple of call arguments `(x,)`: look through the aggregate
            for d in defs.of(op["place"]["l"]):
                if d[0] == "stmt" and d[4]["k"] == "agg":
                    ls += [o["place"]["l"] for o in d[4]["ops"] if o.get("k") in ("copy", "move")]
            return provenance(b, defs, ls, call_names=PROV)[0]

        def switch_on(res):
            """(block, true target, false target) of switches whose operand is `res`, possibly through Not / copies"""
            out = []
            for sb, blk in enumerate(b.blocks):
                tt = blk["term"]
                if tt["k"] != "switch" or tt["op"]["k"] not in ("copy", "move"):
                    continue
                src = tt["op"]["place"]["l"]
                neg = False
                for _ in range(4):
                    ds = defs.of(src)
                    if src == res or len(ds) != 1 or ds[0][0] != "stmt":
                        break
                    rv = ds[0][4]
                    if rv["k"] == "unop" and rv["op"] == "Not" and rv["a"]["k"] in ("copy", "move"):
                        src = rv["a"]["place"]["l"]
                        neg = not neg
                    elif rv["k"] == "use" and rv["op"]["k"] in ("copy", "move"):
                        src = rv["op"]["place"]["l"]
                    elif rv["k"] == "discr":
                        src = rv["place"]["l"]
                    else:
                        break
                if src != res:
                    continue
                tv = {v: bb for v, bb in tt["targets"]}
                true_t = tt["otherwise"] if "0" in tv else tv.get("1")
                false_t = tv.get("0", tt["otherwise"])
                if neg:
                    true_t, false_t = false_t, true_t
                out.append((sb, true_t, false_t))
            return out

        import boolsum
        # check sites: (params tested, span, {class: edge target taken for a value of that class})
        sites = []
        for bi, t in b.calls():
            p, tr, name = callee(t)
            res = t["dest"]["l"]
            if name in ("is_finite", "is_sign_negative", "is_nan", "is_infinite", "is_sign_positive"):
                params = params_of(t["args"][0])
                for sb, true_t, false_t in switch_on(res):
                    sites.append((params, t["span"], name, {c: (true_t if CLASSES[c][name] else false_t) for c in CLASSES}))
                continue
            pred = None
            how = None
            # Result-returning gates: `check(value)?`, `iter.try_for_each(|x| check(x))`
            gate = None
            gparams = set()
            if name in ("try_for_each", "try_fold") and len(t["args"]) >= 2:
                gate = F.body(boolsum.closure_def_of_type(b.opty(t["args"][-1])) or "")
                gparams = params_of(t["args"][0])
            else:
                cb = F.callee_body(t)
                if cb is not None and str((cb.lty(0) or {}).get("s", "")).startswith("std::result::Result<") and cb.path != b.path \
                        and cb.path.startswith("feos_core::"):
                    gate = cb
                    for a in t["args"]:
                        gparams |= params_of(a)
            if gate is not None and gparams:
                gt = {c: boolsum.evaluate(F, gate, CLASSES[c]) for c in CLASSES}
                if all(v in ("Ok", "Err") for v in gt.values()):
                    if bi in tail_blocks:
                        sites.append((gparams, t["span"], "gate(tail)", {c: ("REJECT" if gt[c] == "Err" else "PASS") for c in CLASSES}))
                    else:
                        for (sb, cont) in continue_edges_of(b, defs, bi):
                            tt = b.blocks[sb]["term"]
                            brk = [x for v_, x in tt["targets"] if x != cont] + ([tt["otherwise"]] if tt["otherwise"] != cont else [])
                            brk = [x for x in brk if b.blocks[x]["term"]["k"] != "unreachable"]
                            if brk:
                                sites.append((gparams, t["span"], "gate(?)", {c: (brk[0] if gt[c] == "Err" else cont) for c in CLASSES}))
                    continue
            if name in ("call", "call_mut", "call_once") and len(t["args"]) == 2:
                pred = F.body(boolsum.closure_def_of_type(b.opty(t["args"][0])) or "")
                params = params_of(t["args"][1])
                how = "pred"
            elif name in ("find", "position", "any", "all") and len(t["args"]) == 2:
                pred = F.body(boolsum.closure_def_of_type(b.opty(t["args"][1])) or "")
                params = params_of(t["args"][0])
                how = name
            else:
                cb = F.callee_body(t)
                if cb is not None and cb["arg_count"] == 1 and (cb.lty(0) or {}).get("s") == "bool" and len(t["args"]) == 1:
                    pred, params, how = cb, params_of(t["args"][0]), "pred"
            if pred is None or not params:
                continue
            table = {c: boolsum.evaluate(F, pred, CLASSES[c]) for c in CLASSES}
            if any(v is None for v in table.values()):
                continue
            for sb, true_t, false_t in switch_on(res):
                # find / position: Some (variant 1) iff some element satisfies the predicate; any: true iff ...; all: false iff some
                # element fails the predicate.  For an element of class c the edge below is the one taken *because of* that element.
                if how == "all":
                    edges = {c: (false_t if not table[c] else true_t) for c in CLASSES}
                else:
                    edges = {c: (true_t if table[c] else false_t) for c in CLASSES}
                sites.append((params, t["span"], how, edges))
        n_checks = len(sites)
        leak_cache = {}

        def leaks(start):
            if start not in leak_cache:
                leak_cache[start] = bool(reachable(b, start=start) & ok_blocks)
            return leak_cache[start]

        for pr in range(1, b["arg_count"] + 1):
            mine = [s_ for s_ in sites if pr in s_[0]]
            for c in INVALID:
                iid = "validate|%s(param %d)" % (c, pr)
                rejecting = [s_ for s_ in mine if s_[3][c] == "REJECT" or (s_[3][c] is not None and s_[3][c] != "PASS" and not leaks(s_[3][c]))]
                if rejecting:
                    r.inst(iid, rejecting[0][1], "ok", via=rejecting[0][2])
                    continue
                r.inst(iid, b.file_line(), "violation")
                legacy = "is_finite" if c in ("nan", "+inf", "-inf") else "is_sign_negative"
                if mine:
                    r.fail("validate|%s|param%d|leaks" % (legacy, pr), mine[0][1],
                           "validate: a %s value of parameter %d (%s) can still reach Ok(()): none of the %d tests applied to it rejects it" % (
                               c, pr, b.lname(pr), len(mine)))
                else:
                    r.fail("validate|%s|param%d|missing" % (legacy, pr), b.file_line(),
                           "validate no longer tests parameter %d (%s): a %s value would become a State" % (pr, b.lname(pr), c))
    r.floor("validate predicate checks", n_checks, 3, exact=True)

    # ---------------- (d) echo in new_nvt_unchecked
    ub = [b for b in F.bodies if b.path.endswith("State::<E>::new_nvt_unchecked")]
    n_echo = 0
    if not ub:
        r.fail("missing|new_nvt_unchecked", "-", "new_nvt_unchecked not found")
    else:
        b = ub[0]
        defs = Defs(b)
        agg = None
        for bi, si, st in b.stmts():
            rv = st["rv"]
            if rv["k"] == "agg" and rv["kind"].get("adt") == STATE:
                agg = (st, rv)
        if agg:
            st, rv = agg
            fields = rv["kind"]["fields"]
            # parameter by field name: the parameter whose debug name equals the field name (public API names)
            pname = {b.lname(l): l for l in range(1, b["arg_count"] + 1)}
            want = {"temperature": "temperature", "volume": "volume", "moles": "moles",
                    "reduced_temperature": "temperature", "reduced_volume": "volume", "reduced_moles": "moles"}
            for fname, src in want.items():
                if fname not in fields or src not in pname:
                    r.fail("echo|%s|unresolved" % fname, st["span"], "new_nvt_unchecked: field %s or parameter %s not found" % (fname, src))
                    continue
                op = rv["ops"][fields.index(fname)]
                n_echo += 1
                params = set()
                if op["k"] in ("copy", "move"):
                    params, _ = provenance(b, defs, [op["place"]["l"]], call_names=("to_reduced", "to_owned", "clone", "deref"))
                if params == {pname[src]}:
                    r.inst("echo|%s" % fname, st["span"], "ok")
                else:
                    r.inst("echo|%s" % fname, st["span"], "violation")
                    r.fail("echo|%s" % fname, st["span"], "new_nvt_unchecked: field `%s` is not (only) derived from parameter `%s` (derived from %s): "
                           "the state would not echo its specification" % (fname, src, sorted(b.lname(p) for p in params)))
    r.floor("echo fields", n_echo, 6)

    # ---------------- (e) validate_moles: Ok only when components() == number of mole entries
    mb = [b for b in F.bodies if b.path.endswith("Residual::validate_moles")]
    n_vm = 0
    if not mb:
        r.fail("missing|validate_moles", "-", "Residual::validate_moles not found")
    else:
        b = mb[0]
        defs = Defs(b)
        ok_blocks = {bi for bi, si, st in b.stmts() if st["place"]["l"] == 0 and st["rv"]["k"] == "agg" and st["rv"]["kind"].get("variant") == "Ok"}
        edges = set()
        for sb, blk in enumerate(b.blocks):
            tt = blk["term"]
            if tt["k"] != "switch" or tt["op"]["k"] not in ("copy", "move"):
                continue
            for d in defs.of(tt["op"]["place"]["l"]):
                if d[0] == "stmt" and d[4]["k"] == "binop" and d[4]["op"] in ("Eq", "Ne"):
                    srcs = []
                    for o in (d[4]["a"], d[4]["b"]):
                        if o["k"] in ("copy", "move"):
                            _, st_ = provenance(b, defs, [o["place"]["l"]])
                            srcs.append(st_)
                    flat = " ".join(sorted(x for s_ in srcs for x in s_))
                    if "Components::components" in flat and ("map_or" in flat or "len" in flat):
                        tv = {v: bb for v, bb in tt["targets"]}
                        true_t = tt["otherwise"] if "0" in tv else tv.get("1")
                        false_t = tv.get("0", tt["otherwise"])
                        # the edge on which the two numbers are equal: true edge of `==`, false edge of `!=`
                        edges.add((sb, true_t if d[4]["op"] == "Eq" else false_t))
        n_vm = len(edges)
        if not edges:
            r.inst("validate_moles|eq", b.file_line(), "violation")
            r.fail("validate_moles|no-eq", b.file_line(), "validate_moles no longer compares components() with the number of mole entries")
        else:
            reach = reachable(b, edges)
            leak = reach & ok_blocks
            if leak or not ok_blocks:
                r.inst("validate_moles|eq", b.file_line(), "violation")
                r.fail("validate_moles|ok-bypasses-eq", b.file_line(), "validate_moles can return Ok without components() == len(moles) holding")
            else:
                r.inst("validate_moles|eq", b.file_line(), "ok")
    r.floor("validate_moles component comparison", n_vm, 1)
    r.exhaustive = True
    return [r]
