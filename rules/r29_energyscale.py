"""R29 ENERGY-SCALE — A = T * (beta A) is formed with the temperature *of the dual state the model was evaluated on*.

Models return the reduced Helmholtz energy beta*A of a `StateHD<D>`; the state layer turns it into A by multiplying with the
temperature.  For a derivative with respect to T that factor must be the dual temperature of the same `StateHD` (its
derivative parts produce the `+ k f^(k-1)` terms of the product rule); multiplying with a real-valued copy of the
temperature (`self.reduced_temperature`, bit-identical real part) silently drops them for exactly the T-derivatives of
that order.  Rule: wherever the result of `residual_helmholtz_energy` / `ideal_gas_helmholtz_energy` evaluated on a
`StateHD<D>` (D a dual type) is multiplied, the other factor is of type D and is read from that same `StateHD` value."""
from cfg import Defs, value_roots
from facts import callee
from report import RuleResult

EVAL = {"residual_helmholtz_energy", "ideal_gas_helmholtz_energy"}


def run(F, want=None):
    r = RuleResult("R29", "ENERGY-SCALE: beta*A is multiplied with the dual temperature of the state it was evaluated on")
    n = 0
    for b in F.bodies:
        if not b.path.startswith("feos_core::state"):
            continue
        defs = None
        for bi, t in b.calls():
            nm = callee(t)[2]
            if nm not in EVAL or (want and nm not in want):
                continue
            st_args = [a for a in t["args"] if "StateHD<" in ((b.opty(a) or {}).get("s") or "") and a.get("k") in ("copy", "move")]
            if not st_args:
                continue
            sty = b.opty(st_args[0])["s"]
            if "StateHD<f64" in sty.replace(" ", ""):
                continue
            dty = b.lty(t["dest"]["l"])
            if not dty or not dty.get("dual"):
                continue
            defs = defs or Defs(b)
            d = t["dest"]["l"]
            sroots = value_roots(b, defs, st_args[0]["place"])
            users = []
            for bj, t2 in b.calls():
                if any(a.get("k") in ("copy", "move") and a["place"]["l"] == d and not a["place"]["p"] for a in t2["args"]):
                    users.append(t2)
            for t2 in users:
                un = callee(t2)[2]
                fn = b.path.split("::{closure")[0].split("::")[-1]
                iid = "scale|%s|%s|%s" % (fn, nm, dty["s"].split("<")[0].split("::")[-1])
                if un not in ("mul", "mul_assign", "div"):
                    continue
                n += 1
                other = [a for a in t2["args"] if not (a.get("k") in ("copy", "move") and a["place"]["l"] == d)]
                o = other[0] if other else None
                ok = False
                why = "a constant"
                if o is not None and o.get("k") in ("copy", "move"):
                    oty = b.opty(o) or {}
                    roots = value_roots(b, defs, o["place"])
                    same = bool(roots & sroots)
                    if oty.get("s") != dty["s"]:
                        why = "a factor of type `%s` (no derivative parts)" % oty.get("s")
                    elif not same:
                        why = "a factor that is not read from the state the model was evaluated on"
                    else:
                        ok = True
                if ok:
                    r.inst(iid, t2["span"], "ok")
                else:
                    r.inst(iid, t2["span"], "violation")
                    r.fail(iid, t2["span"],
                           "%s: the reduced Helmholtz energy returned by `%s` for a `%s` is multiplied with %s instead of the dual temperature of "
                           "that state: the temperature derivatives of this order lose the product-rule terms" % (b.path, nm, sty[:60], why))
    # (b) who may read the real-valued reduced state variables: only the derive* constructors (which lift them into dual
    #     numbers), Clone and Debug — everywhere else the dual twin of the StateHD has to be used
    if not want:
        import json
        nread = 0
        for b in F.bodies:
            if not b.path.startswith("feos_core::"):
                continue
            hits = set()
            for bi, si, st in b.stmts():
                s_ = json.dumps(st["rv"])
                for f in ("reduced_temperature", "reduced_volume", "reduced_moles"):
                    if '"n": "%s"' % f in s_ and '"o": "feos_core::state::State"' in s_:
                        hits.add(f)
            for bi, t in b.calls():
                s_ = json.dumps(t["args"])
                for f in ("reduced_temperature", "reduced_volume", "reduced_moles"):
                    if '"n": "%s"' % f in s_ and '"o": "feos_core::state::State"' in s_:
                        hits.add(f)
            if not hits:
                continue
            nread += 1
            fn = b.path.split("::{closure")[0]
            last = fn.split("::")[-1]
            ALLOWED = ("derive0", "derive1", "derive2", "derive2_mixed", "derive3", "clone", "fmt")
            allowed = last in ALLOWED or "::new_nvt_unchecked" in fn or fn.endswith("State::<E>::new_nvt_unchecked")
            if not allowed:
                # a private helper shared by the derive* constructors (`derive_single(derivative, seed)`): it lifts the variables into
                # a StateHD like they do, and nobody else can call it
                fb = F.body(fn)
                if fb is not None and fb.get("vis") != "Public" and "StateHD<" in (fb.lty(0) or {}).get("s", ""):
                    callers = {c.path.split("::{closure")[0] for c in F.bodies for _bi, t_ in c.calls()
                               if F.callee_body(t_) is not None and F.callee_body(t_).path == fn}
                    allowed = bool(callers) and all(c.split("::")[-1] in ALLOWED and c.startswith("feos_core::state::") for c in callers)
            iid = "reduced|%s" % fn
            if allowed:
                r.inst(iid, b.file_line(), "ok", reads=sorted(hits))
            else:
                r.inst(iid, b.file_line(), "violation", reads=sorted(hits))
                r.fail(iid, b.file_line(), "%s reads the real-valued %s of the state: outside the derive* constructors the dual state variables of the "
                       "StateHD must be used, a real-valued copy drops derivative information" % (b.path, ", ".join(sorted(hits))))
        r.floor("readers of the reduced state variables", nread, 7)
    r.floor("beta*A -> A conversions on dual states", n, 9 if not want else 4)
    r.exhaustive = True
    return [r]
