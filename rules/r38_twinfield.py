"""R38 TWIN-FIELD — the uncorrected combining-rule energy `e_k_ij` is read only where the model means it.

Several parameter structs keep two near-identical matrices: `e_k_ij = sqrt(eps_i eps_j)` (combining rule only) and
`epsilon_k_ij = (1 - k_ij) e_k_ij` (with the binary interaction parameter).  Dispersion, effective diameters and pair
potentials use the corrected matrix; only the polar terms (Gross-Vrabec: uncorrected energies by definition) and the
temperature-dependent k_ij of ePC-SAFT read `e_k_ij`.  Reading the wrong twin compiles, gives identical results whenever
k_ij = 0, and makes a mixture behave differently from the same mixture padded with a component that switches the code
path (C09), from its functional twin (C08) and from what the binary record says (C14).  Rule: census of all readers of a
field named `e_k_ij` of a `*Parameters` struct; each reader must be in the reviewed list."""
import json
import re

from report import RuleResult

ALLOWED = {
    # owner struct suffix -> reviewed reader function suffixes (Clone / Debug always allowed)
    "PcSaftParameters": ("pcsaft::eos::polar::Dipole::helmholtz_energy", "pcsaft::eos::polar::Quadrupole::helmholtz_energy",
                         "pcsaft::eos::polar::DipoleQuadrupole::helmholtz_energy", "pcsaft::dft::polar::phi_polar_dipole",
                         "pcsaft::dft::polar::phi_polar_quadrupole", "pcsaft::dft::polar::phi_polar_dipole_quadrupole"),
    "GcPcSaftEosParameters": ("gc_pcsaft::eos::polar::Dipole::helmholtz_energy",),
    "ElectrolytePcSaftParameters": ("ElectrolytePcSaftParameters>::epsilon_k_ij_t",),
    "PetsParameters": (),
    "SaftVRMieParameters": (),
    "SaftVRQMieParameters": (),
}
ALWAYS = ("::clone", "::fmt", "::from_records", "::from_segments", "::subset", "::to_markdown")


def run(F):
    r = RuleResult("R38", "TWIN-FIELD: the uncorrected energy matrix e_k_ij is read only by the reviewed (polar) terms")
    n = 0
    readers = {}
    for b in F.bodies:
        root = b.path.split("::{closure")[0]
        if "_serde" in root or "::tests::" in root or "::test::" in root:
            continue
        txt = []
        for bi, si, st in b.stmts():
            txt.append(json.dumps(st["rv"]))
        for bi, t in b.calls():
            txt.append(json.dumps(t["args"]))
        s = " ".join(txt)
        for m in re.finditer(r'"n": "e_k_ij", "o": "([^"]+)"', s):
            owner = m.group(1).split("::")[-1]
            readers.setdefault((owner, root), b.file_line())
    for (owner, root), where in sorted(readers.items()):
        n += 1
        iid = "twin|%s.e_k_ij|%s" % (owner, root)
        if root.endswith(ALWAYS) or root.endswith(ALLOWED.get(owner, ())) and ALLOWED.get(owner):
            r.inst(iid, where, "ok")
        else:
            r.inst(iid, where, "violation")
            r.fail(iid, where,
                   "%s reads `%s.e_k_ij` (the combining-rule energy *without* the binary correction); every dispersion / diameter / potential routine "
                   "reads `epsilon_k_ij = (1 - k_ij) e_k_ij` — with the wrong twin a non-zero k_ij is silently ignored on this code path" % (root, owner))
    r.floor("readers of e_k_ij", n, 10)
    r.exhaustive = True
    return [r]
