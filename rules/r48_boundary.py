"""R48 BOUNDARY-SOURCE — the boundary part of a curvilinear convolution is taken from the *original* profile.

`CurvilinearConvolver` (spherical, polar, cylindrical grids) splits every profile f(r) into f(r) - f(R) and the constant
boundary value f(R), convolves the first with the FFT convolver and the second with a bulk convolver and adds the results.
All three operations (convolve, weighted_densities, functional_derivative) must take f(R) from the function's argument:
the local copy has f(R) subtracted in place, so its boundary lane is identically zero and the boundary term W(k=0) f(R)
would silently vanish — weighted densities and functional derivative are then no longer adjoint (C17).  Rule: the value
handed to `self.convolver_boundary.*` is traced backwards (through calls, `Vec::push`, iteration); it must not depend on
any local that is the target of an in-place `sub_assign`."""
from cfg import Defs
from facts import callee
from report import RuleResult


OWNING = {"to_owned", "clone", "to_vec", "mapv", "map", "into_owned", "collect", "from", "into"}


def _base_locals(b, defs, op, depth=0, out=None, views_only=False):
    """locals a (mutable) reference / iterator operand was derived from.  With `views_only` a call that produces an owned
    copy (`pd.to_owned()`) ends the chain: modifying the copy in place does not modify what it was copied from."""
    out = out if out is not None else set()
    if op.get("k") not in ("copy", "move") or depth > 10:
        return out
    l = op["place"]["l"]
    if l in out:
        return out
    out.add(l)
    for d in defs.of(l):
        if d[0] == "call":
            if views_only and str(callee(d[2])[2]) in OWNING:
                continue
            for a in d[2]["args"][:1]:
                _base_locals(b, defs, a, depth + 1, out, views_only)
        else:
            rv = d[4]
            if rv["k"] in ("use", "cast"):
                _base_locals(b, defs, rv["op"], depth + 1, out, views_only)
            elif rv["k"] == "ref":
                _base_locals(b, defs, {"k": "copy", "place": rv["place"]}, depth + 1, out, views_only)
    return out


def run(F):
    r = RuleResult("R48", "BOUNDARY-SOURCE: curvilinear convolutions take the boundary value from the original profile")
    n = 0
    for b in F.bodies:
        if b.is_closure() or "CurvilinearConvolver<T, D>" not in b.path or "Convolver<T, D>>::" not in b.path:
            continue
        defs = Defs(b)
        # locals modified in place by sub_assign (through lanes / iterators)
        modified = {}        # named local -> blocks of the in-place subtraction
        pushes = []          # (vec base locals, pushed operand)
        for bi, t in b.calls():
            nm = callee(t)[2]
            if nm == "sub_assign" and t["args"]:
                for x in _base_locals(b, defs, t["args"][0], views_only=True):
                    if b.lname(x):
                        modified.setdefault(x, set()).add(bi)
            if nm == "push" and len(t["args"]) == 2:
                # the vector pushed to is identified by refs / copies only (its allocation `Vec::with_capacity(x.len())` does not
                # make it "derived from" x)
                from cfg import roots
                pushes.append((roots(b, defs, t["args"][0]["place"]["l"]) if t["args"][0].get("k") in ("copy", "move") else set(), t["args"][1]))
        for bi, t in b.calls():
            if not t["args"]:
                continue
            recv = t["args"][0]
            if recv.get("k") not in ("copy", "move"):
                continue
            # receiver is (a reference to) the field convolver_boundary
            is_boundary = False
            for x in _base_locals(b, defs, recv):
                for d in defs.of(x):
                    if d[0] == "stmt" and d[4]["k"] == "ref" and any(isinstance(p, dict) and p.get("n") == "convolver_boundary" for p in d[4]["place"]["p"]):
                        is_boundary = True
            if any(isinstance(p, dict) and p.get("n") == "convolver_boundary" for p in recv["place"]["p"]):
                is_boundary = True
            if not is_boundary or callee(t)[2] not in ("convolve", "weighted_densities", "functional_derivative"):
                continue
            n += 1
            # backward closure of the data arguments
            seen = set()
            read_at = {}         # local -> blocks in which it is read on the way to the boundary argument
            work = [a["place"]["l"] for a in t["args"][1:] if a.get("k") in ("copy", "move")]
            while work and len(seen) < 500:
                l = work.pop()
                if l in seen:
                    continue
                seen.add(l)
                for bases, y in pushes:
                    if l in bases and y.get("k") in ("copy", "move"):
                        work.append(y["place"]["l"])
                for d in defs.of(l):
                    if d[0] == "call":
                        for a in d[2]["args"]:
                            if a.get("k") in ("copy", "move"):
                                work.append(a["place"]["l"])
                                read_at.setdefault(a["place"]["l"], set()).add(d[1])
                    else:
                        for o_ in ([d[4].get("op")] if d[4]["k"] in ("use", "cast") else []) + ([{"k": "copy", "place": d[4]["place"]}] if d[4]["k"] == "ref" else []):
                            if o_ and o_.get("k") in ("copy", "move"):
                                read_at.setdefault(o_["place"]["l"], set()).add(d[1])
                        rv = d[4]
                        k = rv["k"]
                        ops = [rv["op"]] if k in ("use", "cast", "repeat") else [rv["a"], rv["b"]] if k == "binop" else [rv["a"]] if k == "unop" else rv["ops"] if k == "agg" else []
                        if k in ("ref", "discr"):
                            work.append(rv["place"]["l"])
                        for o in ops:
                            if o.get("k") in ("copy", "move"):
                                work.append(o["place"]["l"])
            fn = b.path.split("::")[-1]
            iid = "boundary|%s|%s" % (fn, callee(t)[2])
            from cfg import reachable
            bad = []
            for x in seen & set(modified):
                # the read is stale only if it can happen after the in-place subtraction
                after = set()
                for mb in modified[x]:
                    after |= reachable(b, start=mb)
                if any(rb in after for rb in read_at.get(x, {0})):
                    bad.append(b.lname(x))
            bad = sorted(bad)
            if bad:
                r.inst(iid, t["span"], "violation", from_=bad)
                r.fail(iid, t["span"],
                       "CurvilinearConvolver::%s: the profile handed to the boundary convolver is derived from `%s`, from which the boundary value was "
                       "already subtracted in place — its boundary lane is zero and the boundary term of the convolution is lost" % (fn, "`, `".join(bad)))
            else:
                r.inst(iid, t["span"], "ok")
    if F.config == "full" or n:
        r.floor("boundary convolutions", n, 3)
    r.exhaustive = True
    return [r]
