"""property -> rules mapping and the run context (facts per cfg configuration, thorough-tier matrix)."""
import facts
import r04_conv
import r05_select
import r16_frame
import r06_validate
import r07_cache
import r08_toporder
import r09_shared

MATRIX = ["baseline", "nofeat", "norayon", "pcsaft", "pcsaft_dft", "epcsaft", "gc_pcsaft", "gc_pcsaft_dft",
          "pets", "pets_dft", "uvtheory", "saftvrmie", "saftvrqmie", "saftvrqmie_dft", "estimator"]


class Context:
    def __init__(self, tier):
        self.tier = tier
        self._extra = {}

    def F(self, config="full"):
        return facts.load(config)

    def configs(self):
        return ["full"] + (MATRIX if self.tier == "thorough" else [])

    def extra_evidence(self, prop):
        F = self.F()
        d = {"facts": {"treehash": F.treehash, "files_hashed": F.nfiles, "config": F.config,
                       "features": F.meta.get("features"), "bodies": F.n_bodies()}}
        d.update(self._extra)
        return d


def r4(ctx, prop):
    return r04_conv.run(ctx.F(), prop)


def r7(ctx, prop):
    return r07_cache.run(ctx.F())


def r6(ctx, prop):
    return r06_validate.run(ctx.F())


def r8(ctx, prop):
    return r08_toporder.run(ctx.F())


def r9(ctx, prop):
    return r09_shared.run(ctx.F())


def r5(ctx, prop):
    rs = r05_select.run(ctx.F())
    # per-property slice: C03 = new_npt, C05 = accelerated SS, C07 = TPD
    want = {"C03": ("gibbs|new_npt",), "C05": ("gibbs|accelerated",), "C07": ("tpd|",)}.get(prop)
    if want:
        for r in rs:
            r.instances = [i for i in r.instances if i["id"].startswith(want)]
            r.nontrivial = {i for i in r.nontrivial if i.startswith(want)}
            r.findings = [f for f in r.findings if any(w in f.key for w in want) or "floor" in f.key]
    return rs


def r16(ctx, prop):
    rs = r16_frame.run(ctx.F())
    want = {"C05": ("frame|",), "C18": ("spec|",)}.get(prop)
    if want:
        for r in rs:
            r.instances = [i for i in r.instances if i["id"].startswith(want)]
            r.nontrivial = {i for i in r.nontrivial if i.startswith(want)}
            r.findings = [f for f in r.findings if any(w in f.key for w in want) or ("floor" in f.key and prop == "C05")]
    return rs


PROPERTY_RULES = {
    "C11": [r9, r7],
    "C03": [r6, r4, r5],
    "C04": [r4],
    "C05": [r4, r5, r16],
    "C06": [r4],
    "C07": [r5, r4],
    "C18": [r4, r16],
}
