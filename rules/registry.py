"""property -> rules mapping and the run context (facts per cfg configuration, thorough-tier matrix)."""
import facts
import r01_dualflow
import r02_sweep
import r03_homog
import r04_conv
import r05_select
import r16_frame
import r17_determination
import r18_indexspace
import r19_paired
import r20_trisym
import r20b_gensym
import r21_clones
import r22_adjoint
import r24_errdrop
import r25_dupdef
import r26_stale
import r27_linear
import r28_puregen
import r29_energyscale
import r30_record
import r31_reject
import r32_virial
import r33_axispair
import r34_weights
import r35_residual
import r36_zerodensity
import r37_polarcap
import r38_twinfield
import r39_broadcast
import r40_ranges
import r41_unitonce
import r42_profilestate
import r43_selfnorm
import r44_argswap
import r45_positive
import r46_trivial
import r47_reshape
import r48_boundary
import r49_accumulator
import r50_guessspec
import r51_geometry
import r52_weightconst
import r53_excess
import r54_continuation
import r55_implicit
import r56_fftnorm
import r57_roleslot
import r60_evenguard
import r59_distinctidx
import r61_guessreturn
import r62_operatorarg
import r63_requiredguess
import r64_wdlayout
import r65_returnroles
import r66_optionsfamily
import r67_setterfield
import r68_nosplit
import r69_gather
import r70_axisflag
import r06_validate
import r07_cache
import r08_toporder
import r09_shared
import r10_fwd
import r11_const
import r12_subset
import r13_serde
import r14_pairkey
import r15_data

MATRIX = ["baseline", "nofeat", "norayon", "pcsaft", "pcsaft_dft", "epcsaft", "gc_pcsaft", "gc_pcsaft_dft",
          "pets", "pets_dft", "uvtheory", "saftvrmie", "saftvrqmie", "saftvrqmie_dft", "estimator"]


class Context:
    def __init__(self, tier):
        self.tier = tier
        self.config = "full"
        self._extra = {}

    def F(self, config=None):
        return facts.load(config or self.config)

    def configs(self):
        return ["full"] + (MATRIX if self.tier == "thorough" else [])

    def extra_evidence(self, prop):
        F = self.F("full")
        d = {"facts": {"treehash": F.treehash, "files_hashed": F.nfiles, "config": F.config,
                       "features": F.meta.get("features"), "bodies": F.n_bodies()},
             "cfg_configurations": self.configs()}
        d.update(self._extra)
        return d


def r4(ctx, prop):
    return r04_conv.run(ctx.F(), prop)


def r7(ctx, prop):
    return r07_cache.run(ctx.F())


def r6(ctx, prop):
    return r06_validate.run(ctx.F())


def r8(ctx, prop):
    return r08_toporder.run(ctx.F())


def r9(ctx, prop):
    return r09_shared.run(ctx.F())


def r5(ctx, prop):
    rs = r05_select.run(ctx.F())
    # per-property slice: C03 = new_npt, C05 = accelerated SS, C07 = TPD
    want = {"C03": ("gibbs|new_npt",), "C05": ("gibbs|accelerated",), "C07": ("tpd|",)}.get(prop)
    if want:
        for r in rs:
            r.instances = [i for i in r.instances if i["id"].startswith(want)]
            r.nontrivial = {i for i in r.nontrivial if i.startswith(want)}
            r.findings = [f for f in r.findings if any(w in f.key for w in want) or "floor" in f.key]
    return rs


R24_SCOPES = {
    "C01": ("association::Association",),
    "C03": ("feos_core::state::State", "feos_core::density_iteration", "state::builder"),
    "C04": ("phase_equilibria::vle_pure", "phase_equilibria::phase_diagram_pure"),
    "C05": ("phase_equilibria::tp_flash", "phase_equilibria::bubble_dew", "phase_equilibria::phase_diagram_binary",
            "phase_equilibria::phase_envelope"),
    "C06": ("state::critical_point",),
    "C07": ("phase_equilibria::stability_analysis", "phase_equilibria::tp_flash"),
    "C12": ("phase_equilibria::vle_pure", "phase_equilibria::phase_diagram_pure", "phase_equilibria::tp_flash", "phase_equilibria::bubble_dew",
            "phase_equilibria::phase_diagram_binary", "phase_equilibria::phase_envelope", "state::critical_point"),
    "C18": ("feos_dft::",),
    "C20": ("estimator::",),
}


def r24(ctx, prop):
    return r24_errdrop.run(ctx.F(), R24_SCOPES[prop])


R26_SCOPES = {
    "C01": ("feos::",),
    "C03": ("feos_core::state::State", "feos_core::density_iteration", "state::builder"),
    "C04": ("phase_equilibria::vle_pure", "phase_equilibria::phase_diagram_pure"),
    "C05": ("phase_equilibria::tp_flash", "phase_equilibria::bubble_dew", "phase_equilibria::phase_diagram_binary",
            "phase_equilibria::phase_envelope"),
    "C06": ("state::critical_point",),
    "C07": ("phase_equilibria::stability_analysis",),
    "C17": ("feos_dft::functional", "feos_dft::convolver", "::dft::", "FunctionalContribution", "feos_dft::solver", "feos_dft::profile"),
    "C18": ("feos_dft::solver", "feos_dft::profile", "feos_dft::interface", "feos_dft::adsorption", "feos_dft::pdgt"),
}


R28_SCOPES = {
    "C01": ("feos_core::state", "feos::", "feos_core::equation_of_state"),
    "C06": ("state::critical_point",),
    "C14": ("feos_core::parameter", "parameter"),
    "C17": ("feos_dft::", "::dft::", "FunctionalContribution"),
}


def r28(ctx, prop):
    return r28_puregen.run(ctx.F(), R28_SCOPES[prop])


def r29(ctx, prop):
    return r29_energyscale.run(ctx.F(), None)


R31_SCOPES = {
    "C03": ("feos_core::state::State", "feos_core::density_iteration", "state::builder", "feos_core::state::validate", "feos_core::state::newton",
            "Residual::validate_moles"),
    "C04": ("phase_equilibria::vle_pure", "phase_equilibria::phase_diagram_pure", "PhaseEquilibrium::<E, 2>::check_trivial_solution"),
    "C05": ("phase_equilibria::tp_flash", "phase_equilibria::bubble_dew", "phase_equilibria::phase_diagram_binary",
            "phase_equilibria::phase_envelope", "phase_diagram_pure::PhaseDiagram<E, 2>>"),
    "C06": ("state::critical_point",),
    "C07": ("phase_equilibria::stability_analysis", "vle_init_stability"),
}


def r31(ctx, prop):
    return r31_reject.run(ctx.F(), R31_SCOPES[prop])


R39_SCOPES = {"C02": ("feos_core::state", "feos_core::cubic", "feos::"), "C01": ("feos_core::state", "feos::"),
              "C05": ("feos_core::phase_equilibria",), "C18": ("feos_dft::",), "C06": ("state::critical_point",)}


def r39(ctx, prop):
    return r39_broadcast.run(ctx.F(), R39_SCOPES[prop])


R40_SCOPES = dict(R25_SCOPES) if "R25_SCOPES" in globals() else {}


def r40(ctx, prop):
    sc = dict(R25_SCOPES)
    sc.update({"C09": ("feos::",), "C14": ("parameter",), "C02": ("feos::", "feos_core::state", "feos_core::cubic")})
    return r40_ranges.run(ctx.F(), sc[prop])


R44_SCOPES = {"C08": ("feos::",), "C05": ("feos_core::phase_equilibria",), "C03": ("feos_core::state", "feos_core::density_iteration"),
              "C10": ("feos_core::state", "ideal_gas"), "C18": ("feos_dft::",), "C17": ("feos_dft::", "::dft::"), "C01": ("feos::", "feos_core::state")}


def r44(ctx, prop):
    return r44_argswap.run(ctx.F(), R44_SCOPES[prop])


def r45(ctx, prop):
    return r45_positive.run(ctx.F())


def r46(ctx, prop):
    return r46_trivial.run(ctx.F())


def r47(ctx, prop):
    return r47_reshape.run(ctx.F())


def r48(ctx, prop):
    return r48_boundary.run(ctx.F())


R20B_SCOPES = {"C01": ("feos_core::state",), "C02": ("feos_core::state",), "C06": ("state::critical_point",), "C08": ("feos::",),
               "C09": ("feos::",), "C14": ("parameter", "from_segments", "from_records")}


def r20b(ctx, prop):
    return r20b_gensym.run(ctx.F(), R20B_SCOPES[prop])


def r49(ctx, prop):
    return r49_accumulator.run(ctx.F())


def r50(ctx, prop):
    return [r50_guessspec.run(ctx.F())]


def r51(ctx, prop):
    return r51_geometry.run(ctx.F())


def r52(ctx, prop):
    return r52_weightconst.run(ctx.F())


def r53(ctx, prop):
    return r53_excess.run(ctx.F())


def r54(ctx, prop):
    return r54_continuation.run(ctx.F())


def r55(ctx, prop):
    return r55_implicit.run(ctx.F())


def r56(ctx, prop):
    return r56_fftnorm.run(ctx.F())


def r57(ctx, prop):
    return r57_roleslot.run(ctx.F())


def r70(ctx, prop):
    return r70_axisflag.run(ctx.F())


def r69(ctx, prop):
    return r69_gather.run(ctx.F())


def r68(ctx, prop):
    return r68_nosplit.run(ctx.F())


def r67(ctx, prop):
    return r67_setterfield.run(ctx.F())


def r66(ctx, prop):
    return r66_optionsfamily.run(ctx.F())


def r65(ctx, prop):
    return r65_returnroles.run(ctx.F())


def r64(ctx, prop):
    return r64_wdlayout.run(ctx.F())


def r63(ctx, prop):
    return r63_requiredguess.run(ctx.F())


def r62(ctx, prop):
    return r62_operatorarg.run(ctx.F())


def r61(ctx, prop):
    return r61_guessreturn.run(ctx.F())


def r59(ctx, prop):
    return r59_distinctidx.run(ctx.F())


def r60(ctx, prop):
    return r60_evenguard.run(ctx.F())


def r43(ctx, prop):
    return r43_selfnorm.run(ctx.F())


def r42(ctx, prop):
    return r42_profilestate.run(ctx.F())


def r41(ctx, prop):
    return r41_unitonce.run(ctx.F())


def r38(ctx, prop):
    return r38_twinfield.run(ctx.F())


def r37(ctx, prop):
    return r37_polarcap.run(ctx.F())


def r1_guard_idealgas(ctx, prop):
    rs = _r1(ctx, prop, ("R1b", "R1d"), _sel_idealgas)
    for r in rs:
        r.floors = []
        r.findings = [f for f in r.findings if "floor|" not in f.key]
    return rs


def r36(ctx, prop):
    return r36_zerodensity.run(ctx.F())


def r35(ctx, prop):
    return r35_residual.run(ctx.F())


def r34(ctx, prop):
    return r34_weights.run(ctx.F())


def r33(ctx, prop):
    return r33_axispair.run(ctx.F())


def r32(ctx, prop):
    return r32_virial.run(ctx.F())


def r30(ctx, prop):
    return r30_record.run(ctx.F())


def r27(ctx, prop):
    return r27_linear.run(ctx.F())


def r26(ctx, prop):
    return r26_stale.run(ctx.F(), R26_SCOPES[prop])


R25_SCOPES = {
    "C01": ("state::residual_properties", "state::properties"),
    "C03": ("feos_core::state::State", "feos_core::density_iteration", "state::builder"),
    "C04": ("phase_equilibria::vle_pure", "phase_equilibria::phase_diagram_pure"),
    "C05": ("phase_equilibria::tp_flash", "phase_equilibria::bubble_dew", "phase_equilibria::phase_diagram_binary",
            "phase_equilibria::phase_envelope"),
    "C06": ("state::critical_point",),
    "C07": ("phase_equilibria::stability_analysis",),
    "C08": ("feos::",),
    "C10": ("ideal_gas",),
    "C17": ("feos_dft::functional", "feos_dft::convolver", "::dft::", "FunctionalContribution", "feos_dft::solver", "feos_dft::profile"),
    "C18": ("feos_dft::solver", "feos_dft::profile", "feos_dft::interface", "feos_dft::adsorption", "feos_dft::pdgt"),
    "C20": ("estimator::", "EntropyScaling", "state::residual_properties"),
}


R25_FLOORS = {"C01": 55, "C03": 65, "C04": 110, "C05": 280, "C06": 80, "C07": 20, "C08": 1200, "C10": 45, "C17": 300,
              "C18": 400, "C20": 180}


def r25(ctx, prop):
    return r25_dupdef.run(ctx.F(), R25_SCOPES[prop], floor=R25_FLOORS[prop])


def r22(ctx, prop):
    return r22_adjoint.run(ctx.F())


def r21(ctx, prop):
    want = {"C06": ("criticality",), "C20": ("entropy scaling",), "C13": ("virial",), "C14": ("parameter construction",),
            "C17": ("second-derivative", "convolver", "functional", "FMT"), "C19": ("second-derivative",)}.get(prop)
    return r21_clones.run(ctx.F(), want)


def r20(ctx, prop):
    return r20_trisym.run(ctx.F())


def r19(ctx, prop):
    return r19_paired.run(ctx.F())


def r18(ctx, prop):
    return r18_indexspace.run(ctx.F())


def r17(ctx, prop):
    return r17_determination.run(ctx.F())


def r16(ctx, prop):
    rs = r16_frame.run(ctx.F())
    want = {"C05": ("frame|", "guess|tp_flash"), "C18": ("spec|",), "C04": ("guess|pure",), "C12": ("guess|",)}.get(prop)
    if want:
        for r in rs:
            r.instances = [i for i in r.instances if i["id"].startswith(want)]
            r.nontrivial = {i for i in r.nontrivial if i.startswith(want)}
            r.findings = [f for f in r.findings if any(w in f.key for w in want) or ("floor" in f.key and prop == "C05")]
    return rs


def _r1(ctx, prop, want, sel=None):
    key = ("r1", sel.__name__ if sel else None)
    rs = r01_dualflow.run(ctx.F(), sel)
    return [r for r in rs if r.rule in want]


def r1_all(ctx, prop):
    return _r1(ctx, prop, ("R1a", "R1c"))


def r1_sinks(ctx, prop):
    return _r1(ctx, prop, ("R1a",))


def r1_guard(ctx, prop):
    return _r1(ctx, prop, ("R1b", "R1d"))


def _sel_functional(fk):
    return "FunctionalContribution" in fk or "::dft::" in fk or fk.startswith("feos_dft::")


def _sel_idealgas(fk):
    return "IdealGas" in fk or "::ideal_gas::" in fk


def r1_functional(ctx, prop):
    rs = _r1(ctx, prop, ("R1a", "R1c"), _sel_functional)
    for r in rs:
        r.floors = []
        r.findings = [f for f in r.findings if "floor|" not in f.key]
    return rs


def r1_idealgas(ctx, prop):
    rs = _r1(ctx, prop, ("R1a", "R1c"), _sel_idealgas)
    for r in rs:
        r.floors = []
        r.findings = [f for f in r.findings if "floor|" not in f.key]
    return rs


def r3(ctx, prop):
    rs = r03_homog.run(ctx.F())
    if prop == "C10":
        for r in rs:
            r.instances = [i for i in r.instances if i["id"].startswith(("idealgas|", "premise|"))]
            r.nontrivial = {i for i in r.nontrivial if i.startswith(("idealgas|", "premise|"))}
            r.findings = [f for f in r.findings if "idealgas|" in f.key or "premise|" in f.key or "IdealGas" in f.key]
            r.floors = []
    return rs


def r2(ctx, prop):
    return r02_sweep.run(ctx.F())


def r10_wrapper(ctx, prop):
    return r10_fwd.run(ctx.F(), ("wrapper",))


def r10_transport(ctx, prop):
    rs = r10_fwd.run(ctx.F(), ("wrapper", "transport"))
    # C20: only the EntropyScaling forwarders of the wrapper rule
    for r in rs:
        if r.rule == "R10a":
            r.instances = [i for i in r.instances if "EntropyScaling" in i["id"]]
            r.nontrivial = {i for i in r.nontrivial if "EntropyScaling" in i}
            r.findings = [f for f in r.findings if "EntropyScaling" in f.key or "floor|" in f.key]
    return rs


def r10_selector(ctx, prop):
    return r10_fwd.run(ctx.F(), ("selector",))


R10F_SCOPES = {
    "C10": None,
    "C01": ("feos_core::state",),
    "C04": ("phase_equilibria::vle_pure", "phase_equilibria::phase_diagram_pure"),
    "C05": ("phase_equilibria::tp_flash", "phase_equilibria::bubble_dew", "phase_equilibria::phase_diagram_binary",
            "phase_equilibria::phase_envelope", "phase_equilibria::PhaseEquilibrium"),
    "C07": ("phase_equilibria::stability_analysis",),
    "C20": ("estimator::", "state::residual_properties"),
    "C16": ("feos_dft::adsorption", "feos_dft::solvation", "feos_dft::profile", "feos_dft::interface"),
    "C19": ("feos_dft::adsorption", "feos_dft::profile", "feos_dft::interface", "feos_dft::pdgt"),
}


def r10_selconst(ctx, prop):
    return r10_fwd.run(ctx.F(), ("selector_constants",), R10F_SCOPES[prop])


def r10_identifier(ctx, prop):
    return r10_fwd.run(ctx.F(), ("identifier",))


def r11(ctx, prop):
    return r11_const.run(ctx.F())


def r13(ctx, prop):
    return r13_serde.run(ctx.F())


def r14(ctx, prop):
    return r14_pairkey.run(ctx.F())


def r15(ctx, prop):
    return r15_data.run(ctx.F())


def r12(ctx, prop):
    return r12_subset.run(ctx.F())


PROPERTY_RULES = {
    "C08": [r10_wrapper, r11, r2, r20, r21, r25, r27, r37, r38, r40, r44, r20b, r1_functional],
    "C09": [r12, r18, r20, r10_wrapper, r30, r38, r40, r20b, r14],
    "C02": [r3, r7, r39, r40, r1_sinks, r20b, r29],
    "C10": [r10_selector, r8, r1_idealgas, r3, r19, r25, r29, r10_selconst, r1_guard_idealgas, r44],
    "C14": [r14, r13, r10_identifier, r21, r27, r28, r38, r40, r47, r20b, r49],
    "C12": [r4, r16, r50, r54, r24, r61, r63],
    "C19": [r55, r1_functional, r8, r21, r10_selconst, r62, r18, r69],
    "C15": [r15],
    "C16": [r51, r52, r53, r56, r48, r10_selconst, r55, r64, r18, r69],
    "C20": [r10_transport, r21, r25, r24, r34, r10_selconst, r41, r47, r60],
    "C01": [r1_all, r2, r7, r8, r4, r25, r24, r26, r28, r29, r39, r40, r44, r20b, r10_selconst],
    "C13": [r1_guard, r8, r21, r32, r36, r43],
    "C17": [r1_functional, r8, r22, r25, r21, r26, r28, r33, r40, r44, r47, r48, r62, r70],
    "C11": [r9, r7],
    "C03": [r6, r17, r4, r5, r25, r24, r26, r31, r40, r43, r44, r67],
    "C04": [r4, r16, r25, r24, r26, r31, r10_selconst, r40, r46, r50, r65, r66],
    "C05": [r4, r5, r16, r25, r24, r26, r31, r10_selconst, r39, r40, r43, r44, r46, r57, r65, r66, r68],
    "C06": [r4, r1_all, r21, r25, r24, r26, r28, r31, r39, r40, r20b, r50, r59, r66],
    "C07": [r5, r4, r25, r24, r26, r31, r10_selconst, r40, r43, r46, r66, r68],
    "C18": [r4, r16, r25, r24, r26, r35, r39, r40, r42, r44, r45, r18, r69],
}


# rules whose facts do not depend on the cfg configuration (source-level / data-level): run on "full" only
CFG_INDEPENDENT = {"r13", "r15"}

# witnesses (thorough tier) per property: prefixes of the witness names in engines/witness/src/lib.rs
WITNESSES = {
    "C03": ("W1", "W3", "W4"),
    "C11": ("W2", "W5"),
    "C04": ("W6",),
    "C05": ("W6",),
}
