"""R54 CONTINUATION — a point of a phase diagram is the solve of *this* iteration; what is carried over is only a guess.

C12: "each point of a phase diagram equals the stand-alone calculation at that point regardless of the number of points, the
direction of traversal or failures at earlier points".  The diagram builders loop over the specification, call the
stand-alone solver with the previous result as the initial guess and push the result.  Two facts about that loop are visible
in its shape and are necessary for the property:

  (a) the value pushed into the result list is produced by a solver call made in the *same* iteration: it derives from the
      result of a call inside the loop, and a definition of the pushed variable inside the loop dominates the push (a variable
      that is only conditionally refreshed — "keep the previous equilibrium if this point fails" — would store the neighbouring
      point's equilibrium as this point's);
  (b) loop-carried state (the previous equilibrium, its temperature / pressure, its composition) reaches a solver only through
      an *optional* parameter (`Option<..>`: initial state, `tp_init`, composition guess) — never as a specified quantity.

Whether the solver then converges to the same solution from every guess is numerical and not decided (see C12 in §5)."""
from cfg import Defs, dominators
from facts import callee
from report import RuleResult
from r26_stale import natural_loops

SCOPE = ("phase_equilibria::phase_diagram_pure", "phase_equilibria::phase_diagram_binary", "phase_equilibria::phase_envelope")
THROUGH = ("clone", "as_ref", "as_mut", "ok", "unwrap", "expect", "deref", "to_owned", "cloned", "copied", "branch", "into", "from",
           "vapor", "liquid", "from_state", "Some", "unwrap_or", "map", "as_deref")


def _solver_result(F, t):
    """call of a library function returning a (Result / Option of a) PhaseEquilibrium or State"""
    cb = F.callee_body(t)
    if cb is None or not cb.path.startswith("feos_core::") or cb.is_closure():
        return None
    rs = (cb.lty(0) or {}).get("s", "")
    if ("PhaseEquilibrium<" in rs or "state::State<" in rs) and rs.startswith(("std::result::Result<", "std::option::Option<")):
        return cb
    return None


def run(F):
    r = RuleResult("R54", "CONTINUATION: diagram points are this iteration's solve; carried state enters solvers only as an optional guess")
    n_push = n_guess = 0
    for b in F.bodies:
        if b.is_closure() or not any(s in b.path for s in SCOPE) or "::tests::" in b.path:
            continue
        loops, dom = natural_loops(b)
        if not loops:
            continue
        defs = Defs(b)
        fn = b.path.split("::")[-1]
        for head, body in sorted(loops.items()):
            solver_calls = [(bi, t, _solver_result(F, t)) for bi, t in b.calls() if bi in body]
            solver_calls = [x for x in solver_calls if x[2] is not None]
            if not solver_calls:
                continue
            solver_dests = {t["dest"]["l"]: bi for bi, t, _ in solver_calls}
            # locals with a definition inside the loop and one outside (loop-carried)
            carried = set()
            for l in range(len(b.locals)):
                ds = defs.of(l)
                if not ds or not b.lname(l):
                    continue
                inside = [d for d in ds if d[1] in body]
                outside = [d for d in ds if d[1] not in body]
                if inside and outside:
                    carried.add(l)

            def origins(start):
                """(solver-call blocks, named locals) a value derives from, through clones / payload reads / copies"""
                calls_, named, seen, work = set(), set(), set(), [start]
                while work and len(seen) < 300:
                    l = work.pop()
                    if l in seen:
                        continue
                    seen.add(l)
                    if b.lname(l):
                        named.add(l)
                    for d in defs.of(l):
                        if d[0] == "call":
                            if l in solver_dests and d[1] == solver_dests[l]:
                                calls_.add(d[1])
                            elif str(callee(d[2])[2]) in THROUGH:
                                work += [a["place"]["l"] for a in d[2]["args"] if a.get("k") in ("copy", "move")]
                        else:
                            rv = d[4]
                            if rv["k"] in ("use", "cast") and rv["op"].get("k") in ("copy", "move"):
                                work.append(rv["op"]["place"]["l"])
                            elif rv["k"] in ("ref", "discr"):
                                work.append(rv["place"]["l"])
                            elif rv["k"] == "agg":
                                work += [o["place"]["l"] for o in rv["ops"] if o.get("k") in ("copy", "move")]
                return calls_, named

            # (a) pushes into a result list inside the loop
            for bi, t in b.calls():
                if bi not in body or callee(t)[2] != "push" or len(t["args"]) != 2 or t["args"][1].get("k") not in ("copy", "move"):
                    continue
                ty = (b.opty(t["args"][1]) or {}).get("s", "")
                if "PhaseEquilibrium<" not in ty and "state::State<" not in ty:
                    continue
                n_push += 1
                calls_, named = origins(t["args"][1]["place"]["l"])
                iid = "continuation|%s|push@%s" % (fn, "loop%d" % head)
                fresh = bool(calls_)
                # a definition inside the loop of every named variable on the way dominates the push
                stale = []
                for l in named & carried:
                    inside = [d for d in defs.of(l) if d[1] in body]
                    if not any(d[1] in dom.get(bi, set()) for d in inside):
                        stale.append(b.lname(l))
                if fresh and not stale:
                    r.inst(iid, t["span"], "ok")
                else:
                    r.inst(iid, t["span"], "violation")
                    r.fail("continuation|%s|push" % fn, t["span"],
                           "%s: the equilibrium stored for this point %s — a point of the diagram would repeat a neighbouring point's "
                           "equilibrium instead of the stand-alone solution (or be skipped)" % (
                               fn, ("is taken from `%s`, which is not re-assigned on every path of the iteration" % "`, `".join(sorted(stale))) if stale
                               else "does not come from a solver call of the same iteration"))
            # (b) carried state reaches solvers only through Option-typed parameters
            for bi, t, cb in solver_calls:
                for ai, a in enumerate(t["args"]):
                    if a.get("k") not in ("copy", "move") or ai >= cb["arg_count"]:
                        continue
                    _, named = origins(a["place"]["l"])
                    hit = named & carried
                    if not hit:
                        continue
                    n_guess += 1
                    pty = (cb.lty(ai + 1) or {}).get("s", "")
                    pname = cb.lname(ai + 1) or "#%d" % (ai + 1)
                    iid = "continuation|%s|%s(%s)" % (fn, cb.path.split("::")[-1], pname)
                    if pty.startswith(("std::option::Option<", "core::option::Option<")) or "init" in pname or "guess" in pname:
                        r.inst(iid, t["span"], "ok", carried=sorted(b.lname(x) for x in hit))
                    else:
                        r.inst(iid, t["span"], "violation")
                        r.fail("continuation|%s|%s|%s" % (fn, cb.path.split("::")[-1], pname), t["span"],
                               "%s: `%s`, carried over from the previous point, is handed to %s as its parameter `%s` (%s), which is not an "
                               "optional starting value: the point depends on its predecessor" % (
                                   fn, "`, `".join(sorted(b.lname(x) for x in hit)), cb.path.split("::")[-1], pname, pty[:60]))
    r.floor("diagram points pushed inside continuation loops", n_push, 4)
    r.floor("carried guesses handed to solvers", n_guess, 4)
    r.exhaustive = True
    return [r]
