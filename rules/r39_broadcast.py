"""R39 BROADCAST — no arithmetic between arrays of different rank (implicit ndarray broadcasting).

`ndarray` silently broadcasts a 1-D array against a 2-D array: `dmu_dni - vi * dp_dni` with a matrix on the left and a vector
on the right type-checks and subtracts `v_j p_j` from *every row* — element (i, j) receives the j-th entry where the formula
means an outer product v_i p_j.  The rule reads the resolved operand types of every `+ - * /` (and the assigning forms)
whose two operands are concrete-rank ndarray arrays (also inside `Quantity<..>`): different ranks are a violation unless
the site is reviewed (one on the pinned tree).  Generic-dimension code (`Array<T, D>`) is not judged."""
import re

from facts import callee
from report import RuleResult

OPS = ("add", "sub", "mul", "div", "add_assign", "sub_assign", "mul_assign", "div_assign")
REVIEWED = {
    "feos_dft::pdgt::PdgtFunctionalProperties::solve_pdgt": "density profile (components x grid) times the 1-D grid spacing / integration weights along the last axis: intended broadcasting",
}


def rank(s):
    if not s or "ndarray::ArrayBase" not in s:
        return None
    m = re.findall(r"ndarray::Dim<\[usize; (\d)\]>", s)
    if m and len(set(m)) == 1:
        return int(m[0])
    return None


def run(F, scopes=None):
    r = RuleResult("R39", "BROADCAST: no arithmetic between arrays of different rank outside the reviewed site")
    n = 0
    for b in F.bodies:
        if "::tests::" in b.path or "::test::" in b.path:
            continue
        root = b.path.split("::{closure")[0]
        if scopes and not any(s in root for s in scopes):
            continue
        for bi, t in b.calls():
            nm = callee(t)[2]
            if nm not in OPS or len(t["args"]) != 2:
                continue
            r0 = rank((b.opty(t["args"][0]) or {}).get("s"))
            r1 = rank((b.opty(t["args"][1]) or {}).get("s"))
            if r0 is None or r1 is None:
                continue
            n += 1
            if r0 == r1:
                continue
            iid = "broadcast|%s|%s:%d~%d" % (root, nm, r0, r1)
            if root in REVIEWED:
                r.inst(iid, t["span"], "exempt", reason=REVIEWED[root])
            else:
                r.inst(iid, t["span"], "violation")
                r.fail(iid, t["span"],
                       "%s: `%s` between a rank-%d and a rank-%d array: ndarray broadcasts the smaller one along the leading axis — element (i, j) "
                       "receives the j-th entry where an outer product or an explicit row / column operation is meant" % (root, nm, r0, r1))
    r.inst("broadcast|census", "-", "ok", array_operations=n, nontrivial=n > 0)
    r.floor("array-array operations with concrete ranks", n, 1)
    r.exhaustive = True
    return [r]
