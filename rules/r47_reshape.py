"""R47 RESHAPE — layout-sensitive array constructions are reviewed sites.

`Array::from_shape_vec((r, c), flat)`, `into_shape*`, `to_shape` reinterpret a flat buffer in row-major order; a transposition
(`(N, n)` for data concatenated component by component) has the right shape, panics nowhere and scrambles which coefficient
belongs to which component as soon as there is more than one component.  The library fills its per-component matrices
column by column (`column_mut(i).assign(..)`) and reshapes only to flatten / restore the grid axes of weighted densities:
14 reviewed sites in 6 functions.  Rule: census of all reshape / transpose calls in non-test code; a new site, or more
calls in a reviewed function, is a violation."""
from facts import callee
from report import RuleResult

RESHAPES = ("from_shape_vec", "from_shape_vec_unchecked", "into_shape", "into_shape_with_order", "into_shape_clone", "to_shape",
            "t", "reversed_axes", "permuted_axes", "swap_axes", "from_shape_ptr")
REVIEWED = {
    ("NonAddHardSphereFunctional as feos_dft::FunctionalContribution>::helmholtz_energy_density", "into_shape_with_order"): (2, "weighted densities of all components viewed as (n, grid) and back"),
    ("HelmholtzEnergyFunctional::functional_derivative", "into_shape_with_order"): (3, "grid axes flattened to (nwd, ngrid) for the contribution, result views reshaped alike"),
    ("PdgtProperties::pdgt_properties", "t"): (1, "transpose of the symmetric influence matrix product"),
    ("DFTProfile<D, F>>::entropy_density_contributions", "into_shape_with_order"): (2, "flatten / restore grid axes"),
    ("DFTProfile<D, F>>::intrinsic_helmholtz_energy_density", "into_shape_with_order"): (2, "flatten / restore grid axes"),
    ("DFTProfile<D, F>>::second_partial_derivatives", "into_shape_with_order"): (4, "flatten grid axes for first / second partial derivatives"),
}


def run(F):
    r = RuleResult("R47", "RESHAPE: layout-sensitive array constructions occur only at the reviewed sites")
    counts = {}
    where = {}
    for b in F.bodies:
        if "::tests::" in b.path or "::test::" in b.path:
            continue
        root = b.path.split("::{closure")[0]
        for bi, t in b.calls():
            n = callee(t)[2]
            if n in RESHAPES:
                counts[(root, n)] = counts.get((root, n), 0) + 1
                where[(root, n)] = t["span"]
    total = 0
    # sites that left a reviewed function (the function was split: `functional_derivative` -> `partial_derivatives` + convolution)
    # may reappear, per reshape operation, in functions of the same crate without a row of their own
    vacated = {}
    for (fn, nm), (cnt, _) in REVIEWED.items():
        have = sum(c for (root, n), c in counts.items() if root.endswith(fn) and n == nm)
        if have < cnt:
            vacated[nm] = vacated.get(nm, 0) + cnt - have
    for (root, n), c in sorted(counts.items()):
        total += c
        row = [v for (fn, nm), v in REVIEWED.items() if root.endswith(fn) and nm == n]
        iid = "reshape|%s|%s" % (root, n)
        if row and c <= row[0][0]:
            r.inst(iid, where[(root, n)], "ok", calls=c, reviewed=row[0][1])
        elif not row and c <= vacated.get(n, 0):
            vacated[n] -= c
            r.inst(iid, where[(root, n)], "ok", calls=c, reviewed="moved out of a reviewed function (same operation, total unchanged)")
        else:
            r.inst(iid, where[(root, n)], "violation", calls=c)
            r.fail(iid, where[(root, n)],
                   "%s: %d call(s) of `%s` (%s reviewed): a flat buffer is reinterpreted in row-major order — check that the outer axis of the shape is "
                   "the outer index of the data (component-major data needs shape (n, N), not (N, n))" % (root, c, n, row[0][0] if row else "none"))
    r.floor("reshape / transpose calls", total, 10)
    r.exhaustive = True
    return [r]
