"""R31 REJECT — every way an algorithm can refuse to answer is a reviewed rejection.

The properties promise success on a calibrated domain ("for every substance ... the solver succeeds", "a state is found for
every phase hint").  Whether a given input converges is numerical, but *where the code decides to give up* is visible in
its shape: every construction of an `EosError` value in the solver modules is an explicit rejection, entered from the
branches of the conditions that guard it.  The rule takes the census of these rejections — (function, error variant,
message tag) with the number of distinct branch edges that lead into it — and compares it with the reviewed table
tables/r31.toml: a new rejection, or a reviewed rejection that can now be entered from more branches (`if rho <= 0 {Err}`
widened to `if rho <= 0 || rho > max {Err}`), is reported.  Re-ordering the tests of a rejection is silent; entering it from fewer branch edges (`a || b` turned into `a && b`: a
precondition check that lets invalid input through) is reported as well."""
import os
import tomllib
from collections import defaultdict

from facts import callee
from report import RuleResult

HERE = os.path.dirname(os.path.abspath(__file__))


def _disjuncts(F, body, want, depth=0):
    """number of distinct ways a small bool body returns `want`: branch edges into blocks that store the constant, plus one per
    non-constant tail (`.. || last()`), recursively through predicate closures.  A condition keeps its weight when it is
    moved from an `if a || b || c` into `let bad = |x| a || b || c` or `(0..n).any(|i| ..)`."""
    if body is None or depth > 3 or (body.lty(0) or {}).get("s") != "bool" or len(body.blocks) > 60:
        return 1
    from cfg import Defs
    preds = body.preds()
    n = 0
    for bi, blk in enumerate(body.blocks):
        if blk.get("cleanup"):
            continue
        for st in blk["stmts"]:
            if st["place"]["l"] != 0 or st["place"]["p"]:
                continue
            rv = st["rv"]
            if rv["k"] == "use" and rv["op"].get("k") == "const":
                if str(rv["op"].get("text")) == ("true" if want else "false"):
                    # edges into this block, looking through empty goto blocks
                    work, seen, cnt = [bi], set(), 0
                    while work:
                        x = work.pop()
                        if x in seen:
                            continue
                        seen.add(x)
                        for p in preds[x]:
                            pb = body.blocks[p]
                            if pb.get("cleanup"):
                                continue
                            if pb["term"]["k"] == "goto" and not pb["stmts"]:
                                work.append(p)
                            else:
                                cnt += 1
                    n += max(cnt, 1)
            else:
                n += 1
        t = blk["term"]
        if t["k"] == "call" and t["dest"]["l"] == 0 and not t["dest"]["p"]:
            n += _call_weight(F, body, t, want, depth + 1)
    return max(n, 1)


def _call_weight(F, b, t, want, depth=0):
    import boolsum
    name = callee(t)[2]
    if name in ("call", "call_mut", "call_once") and t["args"]:
        return _disjuncts(F, F.body(boolsum.closure_def_of_type(b.opty(t["args"][0])) or ""), want, depth)
    if name in ("any", "find", "position") and len(t["args"]) == 2:
        return _disjuncts(F, F.body(boolsum.closure_def_of_type(b.opty(t["args"][1])) or ""), want, depth)
    if name == "all" and len(t["args"]) == 2:
        return _disjuncts(F, F.body(boolsum.closure_def_of_type(b.opty(t["args"][1])) or ""), not want, depth)
    cb = F.callee_body(t)
    if cb is not None and (cb.lty(0) or {}).get("s") == "bool" and not cb.path.startswith(("std::", "core::", "ndarray::")):
        return _disjuncts(F, cb, want, depth)
    return 1


def _edge_weight(F, b, p, e):
    """weight of the branch edge p -> e: 1, or — when the branch tests the result of a predicate closure / bool helper /
    any / all / find over a predicate — the number of ways that predicate produces the value that takes this edge"""
    from cfg import Defs
    t = b.blocks[p]["term"]
    if t["k"] != "switch" or t["op"].get("k") not in ("copy", "move"):
        return 1
    tg = dict((v, x) for v, x in t["targets"])
    if tg.get("0") == e and t["otherwise"] != e:
        want = False
    elif t["otherwise"] == e or tg.get("1") == e:
        want = True
    else:
        return 1
    defs = _DEFS.get(id(b))
    if defs is None:
        defs = _DEFS[id(b)] = Defs(b)
    l = t["op"]["place"]["l"]
    for _ in range(5):
        ds = defs.of(l)
        if len(ds) > 1 and all(d[0] == "stmt" and not d[3]["p"] for d in ds):
            # a named bool assembled by short-circuit evaluation (`let bad = a || b;`): one way per assignment that can
            # produce the value taking this edge
            w = 0
            for d in ds:
                rv = d[4]
                for _hop in range(3):      # `done = move _tmp` with `_tmp = Some(..)`
                    if rv["k"] == "use" and rv["op"].get("k") in ("copy", "move") and not rv["op"]["place"]["p"]:
                        d2 = defs.of(rv["op"]["place"]["l"])
                        if len(d2) == 1 and d2[0][0] == "stmt":
                            rv = d2[0][4]
                            continue
                    break
                if rv["k"] == "use" and rv["op"].get("k") == "const" and str(rv["op"].get("text")) in ("true", "false"):
                    if (str(rv["op"]["text"]) == "true") == want:
                        w += max(1, len([p_ for p_ in b.preds()[d[1]] if not b.blocks[p_].get("cleanup")]))
                elif rv["k"] == "agg" and "vidx" in rv["kind"] and not rv["kind"].get("fields", None) is None:
                    # an Option / two-variant flag assembled on two paths (`break 'l Some(i)` / `None`): only the assignment of
                    # the tested variant leads into this edge
                    if (rv["kind"]["vidx"] == 1) == want:
                        w += 1
                else:
                    w += 1
            return max(w, 1)
        if len(ds) != 1:
            return 1
        d = ds[0]
        if d[0] == "call":
            nm = callee(d[2])[2]
            if nm in ("find", "position"):
                return _call_weight(F, b, d[2], True) if want else 1
            return _call_weight(F, b, d[2], want)
        rv = d[4]
        if rv["k"] == "unop" and rv["op"] == "Not" and rv["a"].get("k") in ("copy", "move"):
            want = not want
            l = rv["a"]["place"]["l"]
        elif rv["k"] in ("use",) and rv["op"].get("k") in ("copy", "move"):
            l = rv["op"]["place"]["l"]
        elif rv["k"] == "discr":
            l = rv["place"]["l"]
        else:
            return 1
    return 1


_DEFS = {}


def census(F, scopes):
    out = defaultdict(list)
    for b in F.bodies:
        if b.get("exp") or not b.path.startswith("feos_core::") or not any(s in b.path for s in scopes):
            continue
        preds = None
        for bi, blk in enumerate(b.blocks):
            if blk.get("cleanup"):
                continue
            for st in blk["stmts"]:
                rv = st["rv"]
                if not (rv["k"] == "agg" and rv["kind"].get("t") == "adt" and str(rv["kind"].get("adt", "")).endswith("EosError")):
                    continue
                if st.get("exp"):
                    continue
                preds = preds or b.preds()
                # start of the straight-line chain that builds the error value
                e = bi
                tag = ""
                steps = 0
                while steps < 12:
                    steps += 1
                    ps = [p for p in preds[e] if not b.blocks[p].get("cleanup")]
                    if len(ps) != 1:
                        break
                    p = ps[0]
                    tk = b.blocks[p]["term"]["k"]
                    if tk == "switch":
                        break
                    if tk == "call":
                        t = b.blocks[p]["term"]
                        for a in t["args"]:
                            if a.get("k") == "const" and a.get("text") and '"' in str(a.get("text")) and not tag:
                                tag = str(a["text"]).strip('"')[:40]
                    if len(b.succ(p)) != 1:
                        break
                    e = p
                entries = [p for p in preds[e] if not b.blocks[p].get("cleanup")]
                n_edges = sum(_edge_weight(F, b, p, e) for p in entries) if entries else 1
                fn = b.path.split("::{closure")[0]
                out[(fn, rv["kind"].get("variant"), tag)].append(dict(span=st.get("span", b.file_line()), edges=n_edges))
    return out


def _fn_match(fn, suffix):
    """def-path suffix match on a segment boundary (`_new` must not match a row for `new`)"""
    return fn == suffix or (fn.endswith(suffix) and fn[-len(suffix) - 1] in ":> "[0:3])


def run(F, scopes, rule_id="R31"):
    r = RuleResult(rule_id, "REJECT: explicit rejections (EosError constructions) and the branches leading into them are reviewed")
    with open(os.path.join(HERE, "..", "tables", "r31.toml"), "rb") as f:
        table = tomllib.load(f).get("reject", [])
    cs = census(F, scopes)
    # (1) a function that was moved to another module keeps its reviewed rows: a row whose `fn` matches no function any more is
    #     adopted by the unique row-less function with the same name.  (2) rejections inside a private helper that has no row of
    #     its own are charged to the functions that call it (the helper was extracted from them).
    roots = {b.path for b in F.bodies if not b.is_closure()}
    has_rows = lambda fn: any(_fn_match(fn, t["fn"]) for t in table)
    orphan = [t for t in table if not any(_fn_match(x, t["fn"]) for x in roots)]
    alias = {}
    for fn in {k[0] for k in cs}:
        if has_rows(fn):
            continue
        last = fn.split("::")[-1]
        cand = {t["fn"] for t in orphan if t["fn"].split("::")[-1] == last}
        if len(cand) == 1:
            alias[fn] = cand.pop()
    vis = {b.path: b.get("vis") for b in F.bodies if not b.is_closure()}
    callers = None
    moved = {}
    for key in list(cs):
        fn = key[0]
        if has_rows(fn) or fn in alias or vis.get(fn) == "Public":
            continue
        if callers is None:
            callers = {}
            for b in F.bodies:
                src = b.path.split("::{closure")[0]
                for bi, t in b.calls():
                    cb = F.callee_body(t)
                    if cb is not None and not cb.is_closure():
                        callers.setdefault(cb.path, set()).add(src)
        tgt = [c for c in callers.get(fn, ()) if has_rows(c) and any(sc in c for sc in scopes)]
        if tgt:
            sites = cs.pop(key)
            for c in tgt:
                moved.setdefault((c, key[1], key[2]), []).extend(sites)
    for k_, v_ in moved.items():
        cs.setdefault(k_, [])
        cs[k_] = cs[k_] + v_
    n = 0
    # the message tag is text (changing an error message is not a change of behaviour): rejections are compared per
    # (function, error variant), summed over the tags reviewed for that pair
    pooled = defaultdict(list)
    for (fn, variant, tag), sites in cs.items():
        pooled[(fn, variant)] += [dict(s_, tag=tag) for s_ in sites]
    for (fn, variant), sites in sorted(pooled.items()):
        n += len(sites)
        edges = sum(s_["edges"] for s_ in sites)
        tags = ",".join(sorted({s_["tag"] for s_ in sites}))
        rows = [t for t in table if (_fn_match(fn, t["fn"]) or alias.get(fn) == t["fn"]) and t["variant"] == variant]
        iid = "reject|%s|%s|%s" % (fn, variant, tags)
        if not rows:
            r.inst(iid, sites[0]["span"], "violation")
            r.fail(iid, sites[0]["span"],
                   "%s: a new explicit rejection `EosError::%s(%s)` — inputs reaching it are now refused; not one of the reviewed rejections" % (fn, variant, tags))
            continue
        want_sites = sum(t.get("sites", 1) for t in rows)
        want_edges = sum(t.get("edges", 1) for t in rows)
        if len(sites) > want_sites or edges > want_edges:
            r.inst(iid, sites[-1]["span"], "violation", sites=len(sites), edges=edges)
            r.fail(iid + "|widened", sites[-1]["span"],
                   "%s: the rejection `EosError::%s(%s)` can now be entered from %d branch edge(s) at %d site(s) (reviewed: %d / %d): the set of "
                   "refused inputs was widened" % (fn, variant, tags, edges, len(sites), want_edges, want_sites))
        elif len(sites) < want_sites or edges < want_edges:
            r.inst(iid, sites[-1]["span"], "violation", sites=len(sites), edges=edges)
            r.fail(iid + "|narrowed", sites[-1]["span"],
                   "%s: the rejection `EosError::%s(%s)` is entered from %d branch edge(s) at %d site(s) only (reviewed: %d / %d): a precondition that "
                   "used to refuse the input (`a || b`) now needs all of its parts to hold (`a && b`) — inputs without a solution are accepted"
                   % (fn, variant, tags, edges, len(sites), want_edges, want_sites))
        else:
            r.inst(iid, sites[0]["span"], "ok", sites=len(sites), edges=edges)
    r.floor("explicit rejections examined", n, 1)
    r.exhaustive = True
    r.blind.append("rejections inside callees of other crates and errors produced by `?` on foreign results are not counted; "
                   "only the number of branch edges is compared, not the conditions themselves")
    return [r]
