"""R31 REJECT — every way an algorithm can refuse to answer is a reviewed rejection.

The properties promise success on a calibrated domain ("for every substance ... the solver succeeds", "a state is found for
every phase hint").  Whether a given input converges is numerical, but *where the code decides to give up* is visible in
its shape: every construction of an `EosError` value in the solver modules is an explicit rejection, entered from the
branches of the conditions that guard it.  The rule takes the census of these rejections — (function, error variant,
message tag) with the number of distinct branch edges that lead into it — and compares it with the reviewed table
tables/r31.toml: a new rejection, or a reviewed rejection that can now be entered from more branches (`if rho <= 0 {Err}`
widened to `if rho <= 0 || rho > max {Err}`), is reported.  Re-ordering the tests of a rejection is silent; entering it from fewer branch edges (`a || b` turned into `a && b`: a
precondition check that lets invalid input through) is reported as well."""
import os
import tomllib
from collections import defaultdict

from facts import callee
from report import RuleResult

HERE = os.path.dirname(os.path.abspath(__file__))


def census(F, scopes):
    out = defaultdict(list)
    for b in F.bodies:
        if b.get("exp") or not b.path.startswith("feos_core::") or not any(s in b.path for s in scopes):
            continue
        preds = None
        for bi, blk in enumerate(b.blocks):
            if blk.get("cleanup"):
                continue
            for st in blk["stmts"]:
                rv = st["rv"]
                if not (rv["k"] == "agg" and rv["kind"].get("t") == "adt" and str(rv["kind"].get("adt", "")).endswith("EosError")):
                    continue
                if st.get("exp"):
                    continue
                preds = preds or b.preds()
                # start of the straight-line chain that builds the error value
                e = bi
                tag = ""
                steps = 0
                while steps < 12:
                    steps += 1
                    ps = [p for p in preds[e] if not b.blocks[p].get("cleanup")]
                    if len(ps) != 1:
                        break
                    p = ps[0]
                    tk = b.blocks[p]["term"]["k"]
                    if tk == "switch":
                        break
                    if tk == "call":
                        t = b.blocks[p]["term"]
                        for a in t["args"]:
                            if a.get("k") == "const" and a.get("text") and '"' in str(a.get("text")) and not tag:
                                tag = str(a["text"]).strip('"')[:40]
                    if len(b.succ(p)) != 1:
                        break
                    e = p
                entries = [p for p in preds[e] if not b.blocks[p].get("cleanup")]
                n_edges = len(entries) if entries else 1
                fn = b.path.split("::{closure")[0]
                out[(fn, rv["kind"].get("variant"), tag)].append(dict(span=st.get("span", b.file_line()), edges=n_edges))
    return out


def run(F, scopes, rule_id="R31"):
    r = RuleResult(rule_id, "REJECT: explicit rejections (EosError constructions) and the branches leading into them are reviewed")
    with open(os.path.join(HERE, "..", "tables", "r31.toml"), "rb") as f:
        table = tomllib.load(f).get("reject", [])
    cs = census(F, scopes)
    n = 0
    for (fn, variant, tag), sites in sorted(cs.items()):
        n += len(sites)
        edges = sum(s["edges"] for s in sites)
        rows = [t for t in table if fn.endswith(t["fn"]) and t["variant"] == variant and t.get("tag", "") == tag]
        iid = "reject|%s|%s|%s" % (fn, variant, tag)
        if not rows:
            r.inst(iid, sites[0]["span"], "violation")
            r.fail(iid, sites[0]["span"],
                   "%s: a new explicit rejection `EosError::%s(%s)` — inputs reaching it are now refused; not one of the reviewed rejections" % (fn, variant, tag))
            continue
        row = rows[0]
        if len(sites) > row.get("sites", 1) or edges > row.get("edges", 1):
            r.inst(iid, sites[-1]["span"], "violation", sites=len(sites), edges=edges)
            r.fail(iid + "|widened", sites[-1]["span"],
                   "%s: the rejection `EosError::%s(%s)` can now be entered from %d branch edge(s) at %d site(s) (reviewed: %d / %d): the set of "
                   "refused inputs was widened" % (fn, variant, tag, edges, len(sites), row.get("edges", 1), row.get("sites", 1)))
        elif len(sites) < row.get("sites", 1) or edges < row.get("edges", 1):
            r.inst(iid, sites[-1]["span"], "violation", sites=len(sites), edges=edges)
            r.fail(iid + "|narrowed", sites[-1]["span"],
                   "%s: the rejection `EosError::%s(%s)` is entered from %d branch edge(s) at %d site(s) only (reviewed: %d / %d): a precondition that "
                   "used to refuse the input (`a || b`) now needs all of its parts to hold (`a && b`) — inputs without a solution are accepted"
                   % (fn, variant, tag, edges, len(sites), row.get("edges", 1), row.get("sites", 1)))
        else:
            r.inst(iid, sites[0]["span"], "ok", sites=len(sites), edges=edges)
    r.floor("explicit rejections examined", n, 1)
    r.exhaustive = True
    r.blind.append("rejections inside callees of other crates and errors produced by `?` on foreign results are not counted; "
                   "only the number of branch edges is compared, not the conditions themselves")
    return [r]
