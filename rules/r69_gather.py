"""R69 SEGMENT-GATHER — a per-component quantity is spread over the segments through the segment -> component map.

C19 / C16 / C18: the generic DFT code is written over *segments*; bulk quantities of the equation of state live on *components*.
`HelmholtzEnergyFunctional::component_index()` is the map between them and the idiom for spreading a component quantity over the
segments is `component_index().mapv(|i| q[i])` (bulk partial densities in the residual and in every implicit-derivative system, the
`v_i dp/dT` source term of `drho_dt`).  A mapping closure that ignores its argument (`mapv(|_| x)`) replaces the per-component
quantity by one uniform number — "the partial molar volume is the molar volume" — which is exact for pure fluids and for ideal
bulk phases and wrong for every non-ideal mixture (seed C19j: dN/dT of methane in a methane/butane pore 8.7 % off).

(The floor on the number of sites is 2, not today's 5: four of the five sites spell out the same bulk-density gather and a helper
that factors them out — agent neutral `VC18-n1` — is behaviour-preserving.)

Rule: in `feos_dft`, every closure handed to `mapv` / `map` / `mapv_into` whose receiver derives from the result of
`component_index()` reads its argument.  (What is indexed with it is R18's obligation; the values are numerical.)"""
from cfg import Defs
from facts import callee
from report import RuleResult

THROUGH = ("deref", "view", "iter", "into_iter", "borrow", "as_ref", "to_owned", "into_owned", "clone", "to_vec")
MAPS = ("mapv", "map", "mapv_into", "mapv_into_any", "map_collect")


def _from_ci(b, defs, l, depth=0, seen=None):
    seen = seen if seen is not None else set()
    if l in seen or depth > 14:
        return False
    seen.add(l)
    for d in defs.of(l):
        if d[0] == "call":
            nm = str(callee(d[2])[2])
            if nm == "component_index":
                return True
            if nm in THROUGH and d[2]["args"] and d[2]["args"][0].get("k") in ("copy", "move"):
                if _from_ci(b, defs, d[2]["args"][0]["place"]["l"], depth + 1, seen):
                    return True
        else:
            rv = d[4]
            src = None
            if rv["k"] in ("use", "cast") and rv["op"].get("k") in ("copy", "move"):
                src = rv["op"]["place"]["l"]
            elif rv["k"] == "ref":
                src = rv["place"]["l"]
            if src is not None and _from_ci(b, defs, src, depth + 1, seen):
                return True
    return False


def _reads(cb, local):
    def in_place(pl):
        return pl["l"] == local or any(isinstance(q, dict) and q.get("idx") == local for q in pl["p"])

    def in_op(o):
        return o is not None and o.get("k") in ("copy", "move") and in_place(o["place"])
    for blk in cb.blocks:
        for st in blk["stmts"]:
            rv = st["rv"]
            ops = []
            if rv["k"] in ("use", "cast", "repeat"):
                ops = [rv["op"]]
            elif rv["k"] in ("ref", "discr"):
                if in_place(rv["place"]):
                    return True
            elif rv["k"] == "unop":
                ops = [rv["a"]]
            elif rv["k"] == "binop":
                ops = [rv["a"], rv["b"]]
            elif rv["k"] == "agg":
                ops = rv["ops"]
            if any(in_op(o) for o in ops):
                return True
            if any(isinstance(q, dict) and q.get("idx") == local for q in st["place"]["p"]):
                return True
        t = blk["term"]
        if t["k"] == "call" and any(in_op(a) for a in t["args"]):
            return True
        if t["k"] == "switch" and in_op(t["op"]):
            return True
    return False


def run(F):
    r = RuleResult("R69", "SEGMENT-GATHER: closures mapped over component_index() read the component index they are given")
    n = 0
    for b in F.bodies:
        if b.crate != "feos_dft" or "::tests::" in b.path or "::python::" in b.path:
            continue
        defs = None
        for bi, t in b.calls():
            if str(callee(t)[2]) not in MAPS or len(t["args"]) < 2 or t["args"][0].get("k") not in ("copy", "move"):
                continue
            defs = defs or Defs(b)
            if not _from_ci(b, defs, t["args"][0]["place"]["l"]):
                continue
            fn = b.path.split("::", 1)[-1]
            cl = None
            a1 = t["args"][1]
            if a1.get("k") in ("copy", "move"):
                for d in defs.of(a1["place"]["l"]):
                    if d[0] == "stmt" and d[4]["k"] == "agg" and "closure" in str(d[4].get("kind")):
                        nm = d[4]["kind"].get("def") or ""
                        cl = next((c for c in F.bodies if c.is_closure() and c.path == nm), None)
            if cl is None:
                # a zero-sized closure (captures nothing) is a constant operand; find it by its type
                ty = (b.opty(a1) or {}).get("s", "")
                cl = next((c for c in F.bodies if c.is_closure() and c.path.startswith(b.path + "::{closure#") and c.file_line().split(" ")[0] in ty), None)
            n += 1
            k = sum(1 for i in r.instances if i["id"].startswith("gather|%s|" % fn))
            iid = "gather|%s|%d" % (fn, k)
            if cl is None:
                r.inst(iid, t["span"], "undecided", note="mapping function is not a local closure")
                continue
            if _reads(cl, 2):
                r.inst(iid, t["span"], "ok", closure=cl.path.split("::")[-1])
            else:
                r.inst(iid, t["span"], "violation")
                r.fail("gather|%s|index-ignored" % fn.split("::")[-1], t["span"],
                       "%s: the closure mapped over component_index() does not read its argument — every segment receives the same "
                       "value instead of the value of its own component (exact for pure fluids only)" % fn)
    r.floor("closures mapped over component_index() in feos_dft", n, 2)
    r.exhaustive = True
    return [r]
