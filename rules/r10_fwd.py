"""R10 FWD — forwarders and name-paired selectors.

(a) wrapper fidelity: in every `impl T for W` of a local trait, each method m may call methods *of the same trait*
    on a receiver type other than Self only if they are m itself (EquationOfState<I,R>, derive-generated enum
    dispatch for ResidualModel / FunctionalContributionVariant ..., on the expanded code).
(b) transport pairing: State::{X, ln_X_reduced, X_reference} call only EntropyScaling methods whose name starts
    with X; X = reference * exp(correlation) structurally (calls X_reference, X_correlation and f64::exp).
    Estimator data sets named after a transport property call the same-named State method.
(c) contribution selector: State::contributions and State::get_or_compute_derivative return / evaluate exactly the
    named part(s) for each Contributions variant.
(d) identifier selector: Identifier::as_string reads field snake_case(V) on the arm of IdentifierOption::V."""
import re

from cfg import Defs, reachable, value_roots, provenance, dominators
from facts import callee
from report import RuleResult

LOCAL = ("feos", "feos_core", "feos_dft")


def snake(s):
    return re.sub(r"(?<!^)(?=[A-Z])", "_", s).lower()


def closures_recursive(F, path):
    out = []
    for c in F.closures_of(path):
        out.append(c)
    # nested closures have parent == typeck root, so closures_of(root) already returns all
    return out


def consistent_reach(body, defs, constraints):
    """reachability from the entry keeping, at every switch on discriminant(L) for L in `constraints`,
    only the edge(s) consistent with constraints[L] (a discriminant value as string)"""
    removed = set()
    for bi, blk in enumerate(body.blocks):
        t = blk["term"]
        if t["k"] != "switch" or t["op"]["k"] not in ("copy", "move"):
            continue
        dl = t["op"]["place"]["l"]
        ds = defs.of(dl)
        if len(ds) != 1 or ds[0][0] != "stmt" or ds[0][4]["k"] != "discr":
            continue
        roots = value_roots(body, defs, ds[0][4]["place"])
        hit = [l for l in roots if l in constraints]
        if len(hit) != 1 or len(roots) != 1:
            continue
        want = constraints[hit[0]]
        listed = {v for v, _ in t["targets"]}
        for v, tgt in t["targets"]:
            if v != want:
                removed.add((bi, tgt))
        if want in listed:
            # otherwise-edge not taken — unless it shares the target with the wanted value
            tv = dict((v, tg) for v, tg in t["targets"])
            if t["otherwise"] != tv[want]:
                removed.add((bi, t["otherwise"]))
        # an edge removed for one value may coincide with the wanted target
        tv = dict((v, tg) for v, tg in t["targets"])
        keep = tv.get(want, t["otherwise"])
        removed.discard((bi, keep))
    return reachable(body, removed)


def run(F, parts=None, scopes=None):
    out = []
    if parts is None or "wrapper" in parts:
        out.append(wrapper(F))
    if parts is None or "transport" in parts:
        out.append(transport(F))
    if parts is None or "selector" in parts:
        out.append(selector(F))
    if parts is None or "identifier" in parts:
        out.append(identifier(F))
    if parts is not None and "selector_constants" in parts:
        out.append(selector_constants(F, scopes))
    return out


# ------------------------------------------------------------------ (a)
def wrapper(F):
    r = RuleResult("R10a", "FWD: wrapper / enum-dispatch methods forward to the same-named method")
    n_methods = 0
    n_fwd = 0
    for b in F.bodies:
        if b.is_closure():
            continue
        tr = b.get("impl_trait")
        if not tr or tr.split("::")[0] not in LOCAL:
            continue
        m = b["name"]
        self_ty = b.get("impl_self")
        n_methods += 1
        bodies = [b] + closures_recursive(F, b.path)
        cross = []
        for bb in bodies:
            for bi, t in bb.calls():
                p, ctr, name = callee(t)
                if ctr != tr:
                    continue
                st = bb.ty(t["fn"]["self_ty"])["s"] if "self_ty" in t["fn"] else None
                if st is None or st == self_ty or st == "Self":
                    continue
                cross.append((name, st, t["span"]))
        if not cross:
            continue
        n_fwd += 1
        iid = "fwd|%s" % b.path
        bad = [c for c in cross if c[0] != m]
        if bad:
            r.inst(iid, bad[0][2], "violation", calls=sorted({c[0] for c in cross}))
            r.fail("%s|forwards-to|%s" % (b.path, ",".join(sorted({c[0] for c in bad}))), bad[0][2],
                   "%s (impl of %s::%s for %s) calls %s::%s on the wrapped model %s instead of %s: the wrapped model no longer equals the bare model"
                   % (b.path, tr, m, self_ty, tr.split("::")[-1], bad[0][0], bad[0][1], m))
        else:
            r.inst(iid, cross[0][2], "ok", receivers=sorted({c[1] for c in cross})[:4])
    r.floor("trait-impl methods of local traits scanned", n_methods, 300)
    r.floor("forwarding methods (cross-receiver calls of the own trait)", n_fwd, 40)
    r.exhaustive = True
    return r


# ------------------------------------------------------------------ (b)
TRANSPORT = ("viscosity", "diffusion", "thermal_conductivity")


def transport(F):
    r = RuleResult("R10b", "FWD: transport getters are name-paired with the EntropyScaling methods they use")
    n = 0
    for b in F.bodies:
        if b.is_closure() or "state::residual_properties::<impl state::State<E>>::" not in b.path:
            continue
        name = b["name"]
        x = None
        kind = None
        for X in TRANSPORT:
            if name == X:
                x, kind = X, "value"
            elif name == "ln_%s_reduced" % X:
                x, kind = X, "ln"
            elif name == "%s_reference" % X:
                x, kind = X, "ref"
        if x is None:
            continue
        n += 1
        defs = Defs(b)
        es = []
        has_exp = False
        for bi, t in b.calls():
            p, tr, cn = callee(t)
            if tr and tr.endswith("EntropyScaling"):
                es.append((cn, t))
            if cn == "exp" and ("f64" in p):
                has_exp = True
        names = sorted({c for c, _ in es})
        want = {"value": ["%s_correlation" % x, "%s_reference" % x], "ln": ["%s_correlation" % x], "ref": ["%s_reference" % x]}[kind]
        iid = "transport|%s" % name
        problems = []
        via_state = sorted({callee(t)[2] for bi, t in b.calls() if "State" in str(callee(t)[0]) and callee(t)[2] in ("%s_reference" % x, "ln_%s_reduced" % x)})
        if kind == "value" and not names and set(via_state) == {"%s_reference" % x, "ln_%s_reduced" % x}:
            # X = X_reference() * exp(ln_X_reduced()): assembled from the State's own getters of the same property, which are
            # judged as instances of their own
            names = want
        if names != want:
            problems.append("calls EntropyScaling::%s, expected %s" % (names, want))
        if kind == "value" and not has_exp:
            problems.append("does not apply exp() to the correlation")
        # the correlation's first argument is the residual molar entropy
        for cn, t in es:
            if cn.endswith("_correlation"):
                a = t["args"][1]
                if a["k"] in ("copy", "move"):
                    _, stops = provenance(b, defs, [a["place"]["l"]], call_names=("to_reduced", "into_value", "convert_into"))
                    if not any("residual_molar_entropy" in s for s in stops):
                        problems.append("%s is not evaluated at the residual molar entropy (%s)" % (cn, sorted(stops)[:3]))
                else:
                    problems.append("%s is evaluated at a constant" % cn)
        if problems:
            r.inst(iid, b.file_line(), "violation")
            r.fail("transport|%s" % name, b.file_line(), "State::%s: %s" % (name, "; ".join(problems)))
        else:
            r.inst(iid, b.file_line(), "ok", calls=names)
    r.floor("transport getters", n, 9)
    # estimator data sets
    feats = F.meta.get("features") or []
    if "all_models" in feats or "estimator" in feats:
        n_ds = 0
        for b in F.bodies:
            if b.is_closure() or b["name"] != "predict" or not (b.get("impl_trait") or "").endswith("DataSet"):
                continue
            st = (b.get("impl_self") or "")
            tname = st.split("::")[-1].split("<")[0]
            x = snake(tname)
            if x not in TRANSPORT:
                continue
            n_ds += 1
            called = set()
            for bb in [b] + F.closures_of(b.path):
                for bi, t in bb.calls():
                    p, tr, cn = callee(t)
                    if cn in TRANSPORT and "state::State" in p.replace("feos_core::State", "state::State") or (cn in TRANSPORT and "State" in p):
                        called.add(cn)
                    for a_ in t["args"]:       # `predict_pure_property(.., State::viscosity)`
                        if a_.get("k") == "const" and "fn" in a_ and a_["fn"].get("name") in TRANSPORT and "State" in str(a_["fn"].get("path")):
                            called.add(a_["fn"]["name"])
            iid = "dataset|%s" % tname
            if called != {x}:
                r.inst(iid, b.file_line(), "violation")
                r.fail("dataset|%s|predict" % tname, b.file_line(), "estimator data set %s predicts with State::%s instead of State::%s" % (tname, sorted(called), x))
            else:
                r.inst(iid, b.file_line(), "ok")
        r.floor("transport data sets", n_ds, 3)
    r.exhaustive = True
    return r


# ------------------------------------------------------------------ (c)
def selector(F):
    r = RuleResult("R10c", "FWD: the contribution selector returns exactly the named part(s)")
    variants = None
    for c, a in F.items("adts"):
        if a["path"] == "feos_core::state::Contributions":
            variants = [v["name"] for v in a["variants"]]
    if not variants or sorted(variants) != ["IdealGas", "Residual", "Total"]:
        r.fail("selector|enum", "-", "Contributions enum not found or its variants changed: %s" % variants)
        return r
    want = {"IdealGas": {"ideal"}, "Residual": {"residual"}, "Total": {"ideal", "residual"}}
    # --- State::contributions(ideal_gas, residual, contributions)
    # identified by its shape, not by its name: a function of feos-core taking one `Contributions` selector and two values of
    # one type and returning that type (today `State::contributions(ideal_gas, residual, contributions)`)
    def _is_combinator(b_):
        if b_.is_closure() or not b_.path.startswith("feos_core::state") or "::tests::" in b_.path:
            return False
        tys = [b_.lty(l)["s"] for l in range(1, b_["arg_count"] + 1)]
        sel_ = [x for x in tys if x.endswith("Contributions")]
        rest = [x for x in tys if not x.endswith("Contributions")]
        return len(sel_) == 1 and len(rest) == 2 and rest[0] == rest[1] == (b_.lty(0) or {}).get("s")
    bs = [b for b in F.bodies if _is_combinator(b)]
    combinators = {b.path for b in bs}
    if not bs:
        r.fail("selector|contributions|missing", "-", "State::contributions not found")
    else:
        b = bs[0]
        defs = Defs(b)
        sel = [l for l in range(1, b["arg_count"] + 1) if b.lty(l)["s"].endswith("Contributions")]
        q = [l for l in range(1, b["arg_count"] + 1) if l not in sel]
        if len(sel) != 1 or len(q) != 2:
            r.fail("selector|contributions|signature", b.file_line(), "State::contributions: unexpected signature")
        else:
            role = {q[0]: "ideal", q[1]: "residual"}
            if "res" in (b.lname(q[0]) or "") and "ideal" in (b.lname(q[1]) or ""):
                role = {q[0]: "residual", q[1]: "ideal"}
            for vi, v in enumerate(variants):
                reach = consistent_reach(b, defs, {sel[0]: str(vi)})
                got = set()
                for bi, si, st in b.stmts():
                    if bi in reach and st["place"]["l"] == 0 and not st["place"]["p"]:
                        ops = []
                        rv = st["rv"]
                        if rv["k"] == "use":
                            ops = [rv["op"]]
                        for o in ops:
                            if o["k"] in ("copy", "move"):
                                pr, _ = provenance(b, defs, [o["place"]["l"]], all_args_names=("add",))
                                got |= {role[x] for x in pr if x in role}
                for bi, t in b.calls():
                    if bi in reach and t["dest"]["l"] == 0:
                        for a in t["args"]:
                            if a["k"] in ("copy", "move"):
                                pr, _ = provenance(b, defs, [a["place"]["l"]])
                                got |= {role[x] for x in pr if x in role}
                iid = "selector|contributions|%s" % v
                if got == want[v]:
                    r.inst(iid, b.file_line(), "ok", parts=sorted(got))
                else:
                    r.inst(iid, b.file_line(), "violation", parts=sorted(got))
                    r.fail("selector|contributions|%s" % v, b.file_line(), "State::contributions returns %s for Contributions::%s (expected %s)" % (sorted(got), v, sorted(want[v])))
    # --- State::get_or_compute_derivative
    bs = [b for b in F.bodies if b.path.endswith("state::properties::<impl state::State<E>>::get_or_compute_derivative")]
    if not bs:
        r.fail("selector|derivative|missing", "-", "State::get_or_compute_derivative not found")
    else:
        b = bs[0]
        defs = Defs(b)
        sel = [l for l in range(1, b["arg_count"] + 1) if b.lty(l)["s"].endswith("Contributions")]
        def _reaches(t, name, depth=0):
            """the call is `name`, or a private helper of State (e.g. an extracted `compute_derivative_ideal_gas`) that evaluates it"""
            if callee(t)[2] == name:
                return True
            cb = F.callee_body(t)
            if cb is None or depth > 1 or not cb.path.startswith("feos_core::state::") or cb.get("vis") == "Public":
                return False
            bodies = [cb] + [c for c in F.bodies if c.is_closure() and (c.d.get("parent") or "") == cb.path]
            return any(_reaches(t2, name, depth + 1) for x in bodies for _, t2 in x.calls())
        res_calls = [bi for bi, t in b.calls() if _reaches(t, "get_or_compute_derivative_residual")]
        ig_calls = [bi for bi, t in b.calls() if _reaches(t, "ideal_gas_helmholtz_energy") and bi not in res_calls]
        if len(sel) != 1 or not res_calls or not ig_calls:
            r.fail("selector|derivative|shape", b.file_line(), "get_or_compute_derivative: selector parameter or part evaluations not found")
        else:
            # Option locals holding the parts
            def holder(call_blocks):
                hs = set()
                for bi in call_blocks:
                    t = b.blocks[bi]["term"]
                    # follow dest into Some(..) aggregates
                    work = [t["dest"]["l"]]
                    seen = set()
                    while work:
                        l = work.pop()
                        if l in seen:
                            continue
                        seen.add(l)
                        for bj, si, st in b.stmts():
                            rv = st["rv"]
                            uses = []
                            if rv["k"] == "use":
                                uses = [rv["op"]]
                            elif rv["k"] == "agg":
                                uses = rv["ops"]
                            elif rv["k"] == "binop":
                                uses = [rv["a"], rv["b"]]
                            for o in uses:
                                if o.get("k") in ("copy", "move") and o["place"]["l"] == l and not st["place"]["p"]:
                                    if rv["k"] == "agg" and rv["kind"].get("variant") == "Some":
                                        hs.add(st["place"]["l"])
                                    work.append(st["place"]["l"])
                        for bj, t2 in b.calls():
                            for o in t2["args"]:
                                if o.get("k") in ("copy", "move") and o["place"]["l"] == l and callee(t2)[2] in ("mul", "branch"):
                                    work.append(t2["dest"]["l"])
                return hs
            for vi, v in enumerate(variants):
                reach = consistent_reach(b, defs, {sel[0]: str(vi)})
                got = set()
                if any(x in reach for x in res_calls):
                    got.add("residual")
                if any(x in reach for x in ig_calls):
                    got.add("ideal")
                iid = "selector|derivative|%s" % v
                if got == want[v]:
                    r.inst(iid, b.file_line(), "ok", evaluates=sorted(got))
                else:
                    r.inst(iid, b.file_line(), "violation", evaluates=sorted(got))
                    r.fail("selector|derivative|%s" % v, b.file_line(), "get_or_compute_derivative evaluates %s for Contributions::%s (expected %s)" % (sorted(got), v, sorted(want[v])))
            # the final combination: find the two Option locals matched as a tuple
            opt_ideal = opt_res = None
            for bi, si, st in b.stmts():
                rv = st["rv"]
                if rv["k"] == "agg" and rv["kind"].get("t") == "tuple" and len(rv["ops"]) == 2:
                    tys = [b.opty(o)["s"] if b.opty(o) else "" for o in rv["ops"]]
                    if all(t_.startswith("std::option::Option<f64>") for t_ in tys):
                        a0, a1 = rv["ops"]
                        if a0["k"] in ("copy", "move") and a1["k"] in ("copy", "move"):
                            opt_ideal = list(value_roots(b, defs, a0["place"]))[0]
                            opt_res = list(value_roots(b, defs, a1["place"]))[0]
            if opt_ideal is None:
                # no (Option, Option) pair: the parts are combined directly in the arms of a match on the selector.  For each
                # variant, the value returned on the paths consistent with it is a sum (`+` only) of exactly the wanted parts.
                part_of = {}
                for bi in res_calls:
                    part_of[b.blocks[bi]["term"]["dest"]["l"]] = "residual"
                for bi in ig_calls:
                    part_of[b.blocks[bi]["term"]["dest"]["l"]] = "ideal"
                for vi, v in enumerate(variants):
                    reach = consistent_reach(b, defs, {sel[0]: str(vi)})
                    got = set()
                    work = []
                    for bi, si2, st in b.stmts():
                        if bi in reach and st["place"]["l"] == 0 and not st["place"]["p"]:
                            work.append(("rv", st["rv"]))
                    for bi, t in b.calls():
                        if bi in reach and t["dest"]["l"] == 0 and not t["dest"]["p"]:
                            work.append(("call", bi, t))
                    seen = set()
                    steps = 0
                    while work and steps < 200:
                        steps += 1
                        w = work.pop()
                        ops = []
                        if w[0] == "call":
                            bi, t = w[1], w[2]
                            if bi in res_calls:
                                got.add("residual")
                            elif bi in ig_calls:
                                got.add("ideal")
                            elif callee(t)[2] == "add":
                                ops = t["args"]
                            else:
                                got.add("other:" + str(callee(t)[2]))
                        else:
                            rv = w[1]
                            if rv["k"] == "use":
                                ops = [rv["op"]]
                            elif rv["k"] == "binop" and rv["op"] == "Add":
                                ops = [rv["a"], rv["b"]]
                            elif rv["k"] == "binop":
                                got.add("non-add:" + rv["op"])
                            else:
                                got.add("other:" + rv["k"])
                        for o in ops:
                            if o.get("k") not in ("copy", "move"):
                                got.add("const")
                                continue
                            l = o["place"]["l"]
                            if l in seen:
                                continue
                            seen.add(l)
                            for d in defs.of(l):
                                if d[0] == "call":
                                    if d[1] in reach:
                                        work.append(("call", d[1], d[2]))
                                elif d[1] in reach:
                                    work.append(("rv", d[4]))
                    iid = "selector|derivative|combine(%s)" % v
                    if got == want[v]:
                        r.inst(iid, b.file_line(), "ok")
                    else:
                        r.inst(iid, b.file_line(), "violation", got=sorted(got))
                        r.fail(iid, b.file_line(), "get_or_compute_derivative returns the combination %s for Contributions::%s (expected the sum of %s)" % (
                            sorted(got), v, sorted(want[v])))
            else:
                # which Option local holds which part: by the call feeding its Some(..)
                def feeds(opt, blocks):
                    pr, stops = provenance(b, defs, [opt], all_args_names=("mul", "add"), call_names=("branch",))
                    return stops
                si_ = feeds(opt_ideal, None)
                sr_ = feeds(opt_res, None)
                ok_roles = any("ideal_gas_helmholtz_energy" in s for s in si_) and any("get_or_compute_derivative_residual" in s for s in sr_) \
                    and not any("get_or_compute_derivative_residual" in s for s in si_) and not any("ideal_gas_helmholtz_energy" in s for s in sr_)
                if not ok_roles:
                    r.inst("selector|derivative|roles", b.file_line(), "violation")
                    r.fail("selector|derivative|roles", b.file_line(), "get_or_compute_derivative: the Option matched first does not hold the ideal-gas part / the second not the residual part")
                combos = {("1", "1"): {"ideal", "residual"}, ("1", "0"): {"ideal"}, ("0", "1"): {"residual"}}
                for (ci, cr), exp in combos.items():
                    reach = consistent_reach(b, defs, {opt_ideal: ci, opt_res: cr})
                    got = set()
                    for bi, si2, st in b.stmts():
                        if bi not in reach or st["place"]["l"] != 0 or st["place"]["p"]:
                            continue
                        rv = st["rv"]
                        ops = [rv["op"]] if rv["k"] == "use" else ([rv["a"], rv["b"]] if rv["k"] == "binop" and rv["op"] == "Add" else [])
                        if rv["k"] == "binop" and rv["op"] != "Add":
                            got.add("non-add:" + rv["op"])
                        for o in ops:
                            if o.get("k") in ("copy", "move"):
                                for root in value_roots(b, defs, o["place"]):
                                    pr, _ = provenance(b, defs, [root])
                                    vr = set()
                                    for q_ in [root] + list(pr):
                                        pass
                                # payload copies: `_i = copy ((_t.0) as Some).0`
                                base = set()
                                work = [o["place"]["l"]]
                                seen = set()
                                while work:
                                    l = work.pop()
                                    if l in seen:
                                        continue
                                    seen.add(l)
                                    for d in defs.of(l):
                                        if d[0] == "stmt" and d[4]["k"] == "use" and d[4]["op"].get("k") in ("copy", "move"):
                                            base |= value_roots(b, defs, d[4]["op"]["place"])
                                            work.append(d[4]["op"]["place"]["l"])
                                if opt_ideal in base:
                                    got.add("ideal")
                                if opt_res in base:
                                    got.add("residual")
                    iid = "selector|derivative|combine(%s,%s)" % ("Some" if ci == "1" else "None", "Some" if cr == "1" else "None")
                    if got == exp:
                        r.inst(iid, b.file_line(), "ok")
                    else:
                        r.inst(iid, b.file_line(), "violation", got=sorted(got))
                        r.fail(iid, b.file_line(), "get_or_compute_derivative combines %s when ideal=%s residual=%s (expected %s)" % (
                            sorted(got), "Some" if ci == "1" else "None", "Some" if cr == "1" else "None", sorted(exp)))
    # --- callers of State::contributions(ideal_gas, residual, selector): the first argument must not contain a residual
    #     derivative, the second must be one
    ncall = 0
    for b in F.bodies:
        defs = None
        for bi, t in b.calls():
            cb_ = F.callee_body(t)
            if cb_ is None or cb_.path not in combinators or len(t["args"]) != 3:
                continue
            defs = defs or Defs(b)
            ncall += 1
            names = []
            # the two value arguments in the order (ideal gas, residual), wherever the selector sits in the signature
            vpos = [i for i in range(3) if not cb_.lty(i + 1)["s"].endswith("Contributions")]
            if "res" in (cb_.lname(vpos[0] + 1) or "") and "ideal" in (cb_.lname(vpos[1] + 1) or ""):
                vpos = vpos[::-1]
            for a in (t["args"][vpos[0]], t["args"][vpos[1]]):
                names.append(_callees_behind(F, b, defs, a))
            owner = b.path.split("::")[-2 if b.is_closure() else -1] if "::" in b.path else b.path
            iid = "selector|caller|%s" % (b.path.split("::{closure")[0].split("::")[-1])
            res0 = any(n.startswith("get_or_compute_derivative_residual") or n.startswith("residual_") for n in names[0])
            res1 = any(n.startswith("get_or_compute_derivative_residual") or n.startswith("residual_") for n in names[1])
            if not res0 and res1:
                r.inst(iid, t["span"], "ok", ideal_from=sorted(names[0])[:6], residual_from=sorted(names[1])[:6])
            else:
                r.inst(iid, t["span"], "violation")
                r.fail("%s|parts" % iid, t["span"],
                       "%s passes to State::contributions(ideal_gas, residual, ..) %s: Total is no longer ideal gas + residual "
                       "and the single parts are mislabelled" % (
                           b.path, "a residual derivative as the ideal-gas part" if res0 else "no residual derivative as the residual part"))
    # --- every value a caller of the combinator returns has been through it: a branch that returns one part directly
    #     (`if i == j { Self::contributions(ideal, residual, c) } else { residual }`) ignores the selector on that path
    for b in F.bodies:
        sites = [(bi, t) for bi, t in b.calls() if F.callee_body(t) is not None and F.callee_body(t).path in combinators and len(t["args"]) == 3]
        if not sites:
            continue
        defs = Defs(b)
        through = {t["dest"]["l"] for bi, t in sites}
        changed = True
        while changed:
            changed = False
            for bi, si, st in b.stmts():
                rv = st["rv"]
                ops = [rv["op"]] if rv["k"] in ("use", "cast", "repeat") else [rv["a"], rv["b"]] if rv["k"] == "binop" else [rv["a"]] if rv["k"] == "unop" \
                    else rv["ops"] if rv["k"] == "agg" else [{"k": "copy", "place": rv["place"]}] if rv["k"] in ("ref", "discr") else []
                if any(o.get("k") in ("copy", "move") and o["place"]["l"] in through for o in ops) and st["place"]["l"] not in through:
                    through.add(st["place"]["l"])
                    changed = True
            for bi, t in b.calls():
                if any(a.get("k") in ("copy", "move") and a["place"]["l"] in through for a in t["args"]) and t["dest"]["l"] not in through:
                    through.add(t["dest"]["l"])
                    changed = True
        # definitions of the return place (and of what is moved into it)
        ret = {0}
        work = [0]
        bad = None
        while work:
            l = work.pop()
            for d in defs.of(l):
                if d[0] == "call":
                    if l not in through and not b.blocks[d[1]].get("cleanup"):
                        bad = d[2]["span"]
                    continue
                rv = d[4]
                if rv["k"] in ("use", "cast") and rv["op"].get("k") in ("copy", "move") and not rv["op"]["place"]["p"]:
                    src = rv["op"]["place"]["l"]
                    if src in through:
                        continue
                    if src not in ret:
                        ret.add(src)
                        work.append(src)
                    if not defs.of(src):
                        bad = b.blocks[d[1]]["stmts"][d[2]].get("span") or b.file_line()
                elif l not in through:
                    bad = b.blocks[d[1]]["stmts"][d[2]].get("span") or b.file_line()
        fn_ = b.path.split("::{closure")[0].split("::")[-1]
        iid = "selector|caller|%s|all-paths" % fn_
        if bad and (b.lty(0) or {}).get("s", "").startswith(("quantity::Quantity<", "f64")):
            r.inst(iid, bad, "violation")
            r.fail(iid, bad, "%s: on one path the returned value has not been through State::contributions — the contribution selector is "
                             "ignored there (IdealGas / Residual / Total all return the same part)" % b.path)
        else:
            r.inst(iid, b.file_line(), "ok")
    r.floor("callers of State::contributions", ncall, 6)
    # --- selector forwarding: a function that takes a contribution selector hands exactly that selector to every inner
    #     call that accepts one (c_p(IdealGas) must not be assembled from Total parts)
    nfw = 0
    for b in F.bodies:
        sel = [l for l in range(1, b["arg_count"] + 1) if (b.lty(l) or {}).get("s", "").endswith("state::Contributions")]
        env = None
        if not sel and b.is_closure():
            pb = F.body(b.d.get("parent")) if b.d.get("parent") else None
            if pb is not None and any((pb.lty(l) or {}).get("s", "").endswith("state::Contributions") for l in range(1, pb["arg_count"] + 1)):
                env = 1
        if not sel and env is None:
            continue
        defs = None
        for bi, t in b.calls():
            for a in t["args"]:
                ty = b.opty(a)
                if not ty or not ty["s"].endswith("state::Contributions"):
                    continue
                defs = defs or Defs(b)
                nfw += 1
                ok = False
                if a.get("k") in ("copy", "move"):
                    roots = value_roots(b, defs, a["place"])
                    ok = bool(roots) and all((x in sel) or (env is not None and x == env) for x in roots)
                fn = b.path.split("::{closure")[0].split("::")[-1]
                iid = "selector|forward|%s->%s" % (fn, callee(t)[2])
                if ok:
                    r.inst(iid, t["span"], "ok")
                else:
                    r.inst(iid, t["span"], "violation")
                    r.fail(iid, t["span"],
                           "%s takes a contribution selector but calls `%s` with a different (fixed) selector: the part returned for "
                           "IdealGas / Residual is assembled from another contribution and Total = IdealGas + Residual fails for it" % (b.path, callee(t)[2]))
    r.floor("inner selector arguments in selector-taking functions", nfw, 40)
    r.floor("selector obligations", len(r.instances), 55)
    r.exhaustive = True
    return r


def _callees_behind(F, body, defs, op, limit=600):
    """names of all functions whose results flow (through any call, aggregate, closure body) into an operand"""
    names = set()
    if op.get("k") not in ("copy", "move"):
        return names
    work = [op["place"]["l"]]
    seen = set()
    while work and len(seen) < limit:
        l = work.pop()
        if l in seen:
            continue
        seen.add(l)
        for d in defs.of(l):
            if d[0] == "call":
                t = d[2]
                names.add(str(callee(t)[2]))
                for a in t["args"]:
                    if a.get("k") in ("copy", "move"):
                        work.append(a["place"]["l"])
            else:
                rv = d[4]
                k = rv["k"]
                ops = []
                if k in ("use", "cast", "repeat"):
                    ops = [rv["op"]]
                elif k in ("ref", "discr"):
                    work.append(rv["place"]["l"])
                elif k == "unop":
                    ops = [rv["a"]]
                elif k == "binop":
                    ops = [rv["a"], rv["b"]]
                elif k == "agg":
                    ops = rv["ops"]
                    if rv["kind"].get("t") == "closure":
                        for cb in [F.body(rv["kind"]["def"])] + closures_recursive(F, rv["kind"]["def"]):
                            if cb is not None:
                                for _, t2 in cb.calls():
                                    names.add(str(callee(t2)[2]))
                for o in ops:
                    if o.get("k") in ("copy", "move"):
                        work.append(o["place"]["l"])
    return names


# ------------------------------------------------------------------ (c') selector constants
RESIDUAL_USERS = {   # reviewed getters that evaluate a part with Contributions::Residual: function suffix -> number of such literals
    "state::State<E>>::residual_gibbs_energy": 1,     # G_res = A_res + p_res V - N R T ln Z (Z from the total pressure)
    "state::State<E>>::dln_phi_dnj": 1,               # d mu_res / d n at constant T, V; the p-derivatives are total
    "state::State<E>>::residual_enthalpy": 1,         # H_res = A_res + T S_res + p_res V
}


def selector_constants(F, scopes=None):
    """every literal contribution selector in library code is `Total`; `Residual` literals occur only in the three reviewed residual
    getters (exact counts), `IdealGas` literals nowhere: an equilibrium condition, a data-set prediction or a DFT bulk property
    evaluated with a fixed non-Total selector silently drops the ideal-gas or the residual part"""
    r = RuleResult("R10f", "FWD: literal contribution selectors are Total (Residual only in the reviewed residual getters)")
    n = 0
    per_fn = {}
    for b in F.bodies:
        if "::tests::" in b.path or b.path.startswith("feos_core::validate"):
            continue
        fn = b.path.split("::{closure")[0]
        if scopes and not any(s_ in fn for s_ in scopes):
            continue
        for bi, si, st in b.stmts():
            rv = st["rv"]
            if not (rv["k"] == "agg" and str(rv["kind"].get("adt", "")).split("::")[-1] == "Contributions" and str(rv["kind"].get("adt", "")).startswith("feos_core::")):
                continue
            n += 1
            per_fn.setdefault(fn, []).append((rv["kind"].get("variant"), st.get("span", b.file_line())))
    for fn, lits in sorted(per_fn.items()):
        allowed_res = 0
        for suf, k in RESIDUAL_USERS.items():
            if fn.endswith(suf):
                allowed_res = k
        non_total = [(v, sp) for v, sp in lits if v != "Total"]
        res = [x for x in non_total if x[0] == "Residual"]
        other = [x for x in non_total if x[0] != "Residual"]
        iid = "selector|const|%s" % fn
        if other or len(res) != allowed_res:
            where = (other or res or lits)[0][1]
            r.inst(iid, where, "violation", literals=[v for v, _ in lits])
            r.fail("%s|%s" % (iid, ",".join(sorted(v for v, _ in non_total)) or "Total"), where,
                   "%s uses the literal selectors %s (reviewed: %d Residual, otherwise Total): a part of the property is evaluated with a fixed "
                   "contribution that drops or adds the ideal-gas / residual part" % (fn, [v for v, _ in lits], allowed_res))
        else:
            r.inst(iid, lits[0][1], "ok", nontrivial=bool(allowed_res), literals=len(lits))
    r.inst("selector|const|census", "-", "ok", literal_selectors=n, nontrivial=n > 0)
    if scopes is None:
        r.floor("literal contribution selectors", n, 114)
    r.exhaustive = True
    return r


# ------------------------------------------------------------------ (d)
def identifier(F):
    r = RuleResult("R10d", "FWD: Identifier::as_string returns the field named by the option")
    variants = None
    for c, a in F.items("adts"):
        if a["path"] == "feos_core::parameter::identifier::IdentifierOption":
            variants = [v["name"] for v in a["variants"]]
    bs = [b for b in F.bodies if b.path.endswith("parameter::identifier::Identifier::as_string")]
    if not variants or not bs:
        r.fail("identifier|missing", "-", "IdentifierOption / Identifier::as_string not found")
        return r
    b = bs[0]
    # the selection may be delegated (`as_string` = `self.as_str(option).map(str::to_owned)`): follow the selector argument
    for _ in range(2):
        sel = [l for l in range(1, b["arg_count"] + 1) if b.lty(l)["s"].endswith("IdentifierOption")]
        has_switch = False
        defs = Defs(b)
        for blk in b.blocks:
            t = blk["term"]
            if t["k"] == "switch" and t["op"].get("k") in ("copy", "move"):
                for d in defs.of(t["op"]["place"]["l"]):
                    if d[0] == "stmt" and d[4]["k"] == "discr" and d[4]["place"]["l"] in sel:
                        has_switch = True
        if has_switch:
            break
        nxt = None
        for bi, t in b.calls():
            cb = F.callee_body(t)
            if cb is not None and "identifier::Identifier::" in cb.path and any(
                    a.get("k") in ("copy", "move") and (set(sel) & provenance(b, defs, [a["place"]["l"]])[0]) for a in t["args"]):
                nxt = cb
        if nxt is None:
            break
        b = nxt
    defs = Defs(b)
    sel = [l for l in range(1, b["arg_count"] + 1) if b.lty(l)["s"].endswith("IdentifierOption")]
    for vi, v in enumerate(variants):
        reach = consistent_reach(b, defs, {sel[0]: str(vi)})
        fields = set()
        # the fields of `self` borrowed on the paths taken for this variant (each arm borrows exactly its own field)
        for bi, si, st in b.stmts():
            if bi in reach and st["rv"]["k"] == "ref" and st["rv"]["place"]["l"] == 1:
                for p in st["rv"]["place"]["p"]:
                    if isinstance(p, dict) and "f" in p:
                        fields.add(p["n"])
        iid = "identifier|%s" % v
        if fields == {snake(v)}:
            r.inst(iid, b.file_line(), "ok", field=snake(v))
        else:
            r.inst(iid, b.file_line(), "violation", fields=sorted(fields))
            r.fail("identifier|%s" % v, b.file_line(), "Identifier::as_string(IdentifierOption::%s) returns field %s (expected `%s`)" % (v, sorted(fields), snake(v)))
    r.floor("identifier arms", len(r.instances), 6)
    r.exhaustive = True
    return r
