"""R34 WEIGHT-NORMALISATION — the estimator's costs are scaled with weights normalised over *all* data sets.

`Estimator { data, weights, losses }` can be built by `new` and grown by `add_data`.  "Costs scale with the normalised
weights" (C20) holds if the weights are normalised where they are used — `cost` divides by the sum of `self.weights` — or,
alternatively, if *every* function that writes the field leaves it normalised.  A normalisation that is moved from `cost`
into `new` only, while `add_data` keeps pushing raw weights, breaks it for every estimator that was grown by `add_data`.
Rule: either `Estimator::cost` contains a division whose dividend derives from `self.weights` and whose divisor derives
from a `sum` over `self.weights`; or every writer of the field (struct literal, `push`, assignment) contains such a division."""
from cfg import Defs
from facts import callee
from report import RuleResult
from r32_virial import _deep


def _normalises(F, b):
    """body (incl. its closures) contains x / s with x from field `weights` and s from sum(.. weights ..)"""
    bodies = [b] + [c for c in F.bodies if c.path.startswith(b.path + "::{closure")]
    for bb in bodies:
        defs = Defs(bb)
        divs = []
        for bi, t in bb.calls():
            if callee(t)[2] in ("div", "div_assign") and len(t["args"]) == 2:
                divs.append((t["args"][0], t["args"][1], t["span"]))
        for bi, si, st in bb.stmts():
            rv = st["rv"]
            if rv["k"] == "binop" and rv["op"] == "Div":
                divs.append((rv["a"], rv["b"], st.get("span", bb.file_line())))
        for a, d, span in divs:
            if d.get("k") not in ("copy", "move"):
                continue
            _, stops = _deep(F, bb, defs, d["place"]["l"])
            if "sum" not in stops:
                # the divisor may be a variable captured from an enclosing body (`let total = weights.iter().sum(); .. map(|c| c * (w / total))`)
                pl_ = d["place"]
                for _ in range(4):      # `_9 = copy (*(*_1).total_weight)`
                    if pl_["l"] == 1 or len(defs.of(pl_["l"])) != 1:
                        break
                    d_ = defs.of(pl_["l"])[0]
                    if d_[0] == "stmt" and d_[4]["k"] == "use" and d_[4]["op"].get("k") in ("copy", "move"):
                        pl_ = d_[4]["op"]["place"]
                    elif d_[0] == "stmt" and d_[4]["k"] == "ref":
                        pl_ = d_[4]["place"]
                    else:
                        break
                up = [p for p in pl_["p"] if isinstance(p, dict) and "f" in p and p.get("n")]
                cur = bb
                found = False
                for _ in range(3):
                    if not (cur.is_closure() and pl_["l"] == 1 and up):
                        break
                    parent = F.body(cur.d.get("parent") or "")
                    # closures nest: the enclosing body is the closure / function whose path is this path minus its last segment
                    enclosing = F.body(cur.path.rsplit("::{closure#", 1)[0]) or parent
                    if enclosing is None:
                        break
                    pdefs = Defs(enclosing)
                    for l in range(len(enclosing.locals)):
                        if enclosing.lname(l) == up[0]["n"]:
                            _, st2 = _deep(F, enclosing, pdefs, l)
                            if "sum" in st2 and _reads_weights(enclosing, pdefs, {"k": "copy", "place": {"l": l, "p": []}}):
                                found = True
                    if found:
                        break
                    cur = enclosing
                if found:
                    return span
                continue
            if _reads_weights(bb, defs, d) and (_reads_weights(bb, defs, a) or True):
                return span
    return None


def _reads_weights(b, defs, op, depth=0, seen=None):
    seen = seen if seen is not None else set()
    if op.get("k") not in ("copy", "move") or depth > 14:
        return False
    pl = op["place"]
    if any(isinstance(p, dict) and p.get("n") == "weights" for p in pl["p"]):
        return True
    l = pl["l"]
    if l in seen:
        return False
    seen.add(l)
    if b.lname(l) in ("weights", "total") and depth > 0:
        return True if b.lname(l) == "weights" else False
    for d in defs.of(l):
        if d[0] == "call":
            if any(_reads_weights(b, defs, a, depth + 1, seen) for a in d[2]["args"]):
                return True
        else:
            rv = d[4]
            k = rv["k"]
            ops = []
            if k in ("use", "cast", "repeat"):
                ops = [rv["op"]]
            elif k in ("ref", "discr"):
                ops = [{"k": "copy", "place": rv["place"]}]
            elif k == "unop":
                ops = [rv["a"]]
            elif k == "binop":
                ops = [rv["a"], rv["b"]]
            elif k == "agg":
                ops = rv["ops"]
            if any(_reads_weights(b, defs, o, depth + 1, seen) for o in ops):
                return True
    return False


def run(F):
    r = RuleResult("R34", "WEIGHT-NORMALISATION: estimator costs are scaled with weights normalised over all data sets")
    est = [b for b in F.bodies if "estimator::estimator::Estimator::<E>::" in b.path and not b.is_closure()]
    if not est:
        if F.config == "full":
            r.fail("weights|missing", "-", "Estimator not found (feature `estimator` not compiled?)")
        return [r]
    cost = [b for b in est if b.path.endswith("::cost")]
    writers = []
    for b in est:
        w = False
        for bi, si, st in b.stmts():
            rv = st["rv"]
            if rv["k"] == "agg" and str(rv["kind"].get("adt", "")).endswith("estimator::Estimator") and "weights" in (rv["kind"].get("fields") or []):
                w = True
            if any(isinstance(p, dict) and p.get("n") == "weights" for p in st["place"]["p"]):
                w = True
            if rv["k"] == "ref" and rv.get("mut") and any(isinstance(p, dict) and p.get("n") == "weights" for p in rv["place"]["p"]):
                w = True
        if w:
            writers.append(b)
    at_use = _normalises(F, cost[0]) if cost else None
    if at_use:
        r.inst("weights|cost", at_use, "ok", idiom="normalised where used: weights / sum(weights) in Estimator::cost", writers=[b.path.split("::")[-1] for b in writers])
    else:
        bad = [b for b in writers if not _normalises(F, b)]
        if cost and writers and not bad:
            r.inst("weights|writers", cost[0].file_line(), "ok", idiom="every writer of `weights` normalises", writers=[b.path.split("::")[-1] for b in writers])
        else:
            where = (bad[0] if bad else cost[0] if cost else est[0]).file_line()
            r.inst("weights|cost", where, "violation")
            r.fail("weights|not-normalised", where,
                   "Estimator::cost does not divide the weights by their sum and not every writer of the field does (%s write raw weights): costs of "
                   "an estimator grown by these functions are not scaled with normalised weights" % ", ".join(b.path.split("::")[-1] for b in bad))
    r.floor("writers of Estimator.weights", len(writers), 2)
    r.exhaustive = True
    return [r]
