"""R22 ADJOINT-SIGN — odd (vector) weight functions enter the adjoint convolution with the conjugate sign.

In PeriodicConvolver the weighted densities of vector weight functions are obtained with `+ i k W` (a `mapv(|x| x * Complex::i())`
on the product in Fourier space); the functional derivative is the adjoint operation and must therefore accumulate the
corresponding terms with `-=` (and the even, scalar terms with `+=`).  A `+=` on an `i`-block makes the two convolutions
non-adjoint: the functional derivative is then not the derivative of the discretised functional (C17)."""
from cfg import Defs
from facts import callee
from report import RuleResult


def closure_multiplies_by_i(F, path):
    cb = F.body(path)
    if cb is None:
        return False
    for bi, t in cb.calls():
        p, tr, name = callee(t)
        if name == "i" and "Complex" in p:
            return True
    return False


def rhs_has_i(F, b, defs, op, depth=0, seen=None):
    """does the operand derive from a mapv(|x| x * Complex::i()) result?"""
    if seen is None:
        seen = set()
    if op.get("k") not in ("copy", "move") or depth > 8:
        return False
    l = op["place"]["l"]
    if l in seen:
        return False
    seen.add(l)
    for d in defs.of(l):
        if d[0] == "call":
            t = d[2]
            if callee(t)[2] in ("mapv", "map", "mapv_into"):
                for a in t["args"][1:]:
                    ty = b.opty(a)
                    if ty and "closure:" in ty["k"] and closure_multiplies_by_i(F, ty["k"].split("closure:")[-1]):
                        return True
            for a in t["args"][:1]:
                if rhs_has_i(F, b, defs, a, depth + 1, seen):
                    return True
        else:
            rv = d[4]
            if rv["k"] == "ref":
                if rhs_has_i(F, b, defs, {"k": "copy", "place": rv["place"]}, depth + 1, seen):
                    return True
            elif rv["k"] in ("use", "cast") and rhs_has_i(F, b, defs, rv["op"], depth + 1, seen):
                return True
    return False


def run(F):
    r = RuleResult("R22", "ADJOINT-SIGN: i k W blocks of the periodic convolver enter the functional derivative with the conjugate sign")
    fd = [b for b in F.bodies if not b.is_closure() and "PeriodicConvolver" in b.path and b.path.endswith("::functional_derivative")]
    wd = [b for b in F.bodies if not b.is_closure() and "PeriodicConvolver" in b.path and b.path.endswith("::weighted_densities")]
    if not fd or not wd:
        if "dft" in (F.meta.get("features") or []) or "all_models" in (F.meta.get("features") or []) or F.config == "full":
            r.fail("adjoint|missing", "-", "PeriodicConvolver::functional_derivative / weighted_densities not found")
        return [r]
    b = fd[0]
    defs = Defs(b)
    n_i = n_even = 0
    for bi, t in b.calls():
        p, tr, name = callee(t)
        if name not in ("add_assign", "sub_assign") or not b.opty(t["args"][1]) or "Complex" not in b.opty(t["args"][1])["s"]:
            continue
        has_i = rhs_has_i(F, b, defs, t["args"][1])
        iid = "adjoint|functional_derivative|%s|%s@%s" % ("i-block" if has_i else "even-block", name, t["span"].split(":")[-2])
        if has_i:
            n_i += 1
            if name == "sub_assign":
                r.inst(iid, t["span"], "ok")
            else:
                r.inst(iid, t["span"], "violation")
                r.fail("adjoint|functional_derivative|i-block|add_assign", t["span"],
                       "PeriodicConvolver::functional_derivative accumulates an `i k W` (vector weight function) term with `+=`; the adjoint of the forward "
                       "convolution `+ i k W` needs `-=`: weighted densities and functional derivative are no longer adjoint")
        else:
            n_even += 1
            if name == "add_assign":
                r.inst(iid, t["span"], "ok")
            else:
                r.inst(iid, t["span"], "violation")
                r.fail("adjoint|functional_derivative|even-block|sub_assign", t["span"],
                       "PeriodicConvolver::functional_derivative accumulates an even (scalar weight function) term with `-=`")
    # forward side: the same number of i-blocks
    wb = wd[0]
    n_fwd = 0
    for c in [wb] + F.closures_of(wb.path):
        for bi, t in c.calls():
            if callee(t)[2] in ("mapv", "map"):
                for a in t["args"][1:]:
                    ty = c.opty(a)
                    if ty and "closure:" in ty["k"] and closure_multiplies_by_i(F, ty["k"].split("closure:")[-1]):
                        n_fwd += 1
    if n_fwd != n_i:
        r.inst("adjoint|i-block-count", wb.file_line(), "violation", forward=n_fwd, adjoint=n_i)
        r.fail("adjoint|i-block-count", wb.file_line(), "weighted_densities has %d `i k W` blocks, functional_derivative %d: forward and adjoint convolution differ" % (n_fwd, n_i))
    else:
        r.inst("adjoint|i-block-count", wb.file_line(), "ok", forward=n_fwd, adjoint=n_i)
    r.floor("i k W blocks in the adjoint", n_i, 2)
    r.floor("even blocks in the adjoint", n_even, 2)
    r.exhaustive = True
    return [r]
