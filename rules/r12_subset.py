"""R12 SUBSET — a sub-model keeps its configuration.

For every `impl Components for M`: cfg(M) = fields of M whose type equals the type of a non-first parameter of an
inherent constructor of M (with_options(parameters, options), with_options(parameters, fmt_version, options),
FMTFunctional::new(sigma, version) ...), i.e. state that is not derivable from the parameters.
Rule: M::subset reads every field in cfg(M) and passes it to the constructor call whose result it returns."""
from cfg import Defs, strip_place
from facts import callee
from report import RuleResult


def self_fields_in(body, defs, local, depth=0, seen=None):
    """names of the fields of `self` (local 1) that a value is read from, following copies/refs/clone"""
    if seen is None:
        seen = set()
    out = set()
    if local in seen or depth > 10:
        return out
    seen.add(local)
    for d in defs.of(local):
        if d[0] == "stmt":
            rv = d[4]
            pls = []
            if rv["k"] in ("use", "cast") and rv["op"].get("k") in ("copy", "move"):
                pls.append(rv["op"]["place"])
            elif rv["k"] == "ref":
                pls.append(rv["place"])
            for pl in pls:
                if pl["l"] == 1:
                    for p in pl["p"]:
                        if isinstance(p, dict) and "f" in p:
                            out.add(p["n"])
                            break
                else:
                    out |= self_fields_in(body, defs, pl["l"], depth + 1, seen)
        else:
            t = d[2]
            # any call: the value is derived from its arguments (clone(), Arc::new(x.subset(..)), ...)
            for a in t["args"]:
                if a.get("k") in ("copy", "move"):
                    if a["place"]["l"] == 1:
                        for p in a["place"]["p"]:
                            if isinstance(p, dict) and "f" in p:
                                out.add(p["n"])
                                break
                    else:
                        out |= self_fields_in(body, defs, a["place"]["l"], depth + 1, seen)
    return out


def run(F):
    r = RuleResult("R12", "SUBSET: a sub-model is built with the parent's options / FMT version")
    adts = {a["path"]: a for c, a in F.items("adts")}
    n_impl = 0
    n_cfg = 0
    for b in F.bodies:
        if b.is_closure() or b["name"] != "subset" or not (b.get("impl_trait") or "").endswith("Components"):
            continue
        k = b.get("impl_self_k") or ""
        if not k.startswith("adt:"):
            continue
        mpath = k[4:]
        adt = adts.get(mpath)
        if adt is None or adt["kind"] != "Struct":
            continue      # enums are dispatchers (R10a)
        n_impl += 1
        fields = adt["variants"][0]["fields"]
        self_ty = b.get("impl_self")
        # inherent constructors: fns `M::name` (no trait) returning M
        ctors = []
        for cb in F.bodies:
            if cb.is_closure() or cb.get("impl_trait") or cb.get("impl_self") != self_ty:
                continue
            if cb.lty(0)["s"] != b.lty(0)["s"]:
                continue
            if cb["arg_count"] < 1:
                continue
            if cb.lty(1)["s"].startswith("&") and "self" == cb.lname(1):
                continue
            ctors.append(cb)
        cfg = {}
        for cb in ctors:
            for l in range(2, cb["arg_count"] + 1):
                ty = cb.lty(l)["s"]
                for f in fields:
                    if f["ty"] == ty:
                        cfg.setdefault(f["name"], set()).add(cb.path)
        defs = Defs(b)
        # the constructor call(s) whose result is returned
        ret_calls = []
        work = [0]
        seen = set()
        while work:
            l = work.pop()
            if l in seen:
                continue
            seen.add(l)
            for d in defs.of(l):
                if d[0] == "call":
                    ret_calls.append(d[2])
                elif d[4]["k"] == "use" and d[4]["op"].get("k") in ("copy", "move"):
                    work.append(d[4]["op"]["place"]["l"])
        iid = "subset|%s" % mpath
        if not cfg:
            r.inst(iid, b.file_line(), "ok", cfg=[], nontrivial=False)
            continue
        n_cfg += 1
        passed = set()
        for t in ret_calls:
            for a in t["args"]:
                if a.get("k") in ("copy", "move"):
                    if a["place"]["l"] == 1:
                        for p in a["place"]["p"]:
                            if isinstance(p, dict) and "f" in p:
                                passed.add(p["n"])
                                break
                    else:
                        passed |= self_fields_in(b, defs, a["place"]["l"])
        missing = sorted(set(cfg) - passed)
        if missing:
            r.inst(iid, b.file_line(), "violation", cfg=sorted(cfg), passed=sorted(passed))
            r.fail("subset|%s|drops|%s" % (mpath, ",".join(missing)), b.file_line(),
                   "%s::subset does not pass field(s) %s to the constructor of the sub-model (constructor(s) %s accept them): the sub-model is built with "
                   "default configuration instead of the parent's" % (mpath, missing, sorted({c for m in missing for c in cfg[m]})))
        else:
            r.inst(iid, b.file_line(), "ok", cfg=sorted(cfg))
    r.floor("Components::subset implementations on structs", n_impl, 15)
    r.floor("implementations with configuration fields", n_cfg, 12)
    _subset_order(F, r)
    r.exhaustive = True
    return [r]


def _subset_order(F, r):
    """R12b — a sub-model keeps the *order* of the requested index list (and repeated indices): every `subset` implementation
    that selects records itself (does not just delegate to another `subset`) iterates over its `component_list` parameter;
    filtering the parent's records with `component_list.contains(i)` treats the list as a set — the ideal-gas record of one
    component then ends up next to the residual parameters of another when the wrapper combines the two sub-models."""
    from cfg import Defs
    n = 0
    for b in F.bodies:
        if b.is_closure() or b.d.get("name") != "subset" or b["arg_count"] != 2:
            continue
        if "::tests::" in b.path:
            continue
        bodies = [b] + [c for c in F.bodies if c.path.startswith(b.path + "::{closure")]
        names = [callee(t)[2] for bb in bodies for _, t in bb.calls()]
        if not any(x in names for x in ("iter", "into_iter", "index", "select", "from_shape_fn")):
            continue        # pure delegation
        n += 1
        iid = "subset-order|%s" % b.path
        uses_contains = False
        for bb in bodies:
            for _, t in bb.calls():
                if callee(t)[2] == "contains":
                    uses_contains = True
        # an iterator over the index list parameter (local 2) must exist
        defs = Defs(b)
        over_list = False
        for _, t in b.calls():
            if callee(t)[2] in ("iter", "into_iter", "len", "map", "from_shape_fn") and t["args"]:
                a = t["args"][0]
                if a.get("k") in ("copy", "move"):
                    l = a["place"]["l"]
                    for _ in range(6):
                        if l == 2:
                            over_list = True
                            break
                        ds = defs.of(l)
                        if len(ds) == 1 and ds[0][0] == "stmt" and ds[0][4]["k"] in ("use", "ref", "cast"):
                            rv = ds[0][4]
                            l = rv["place"]["l"] if rv["k"] == "ref" else rv["op"]["place"]["l"] if rv["op"].get("k") in ("copy", "move") else -1
                        elif len(ds) == 1 and ds[0][0] == "call" and callee(ds[0][2])[2] in ("deref", "iter", "into_iter", "as_ref") and ds[0][2]["args"] and ds[0][2]["args"][0].get("k") in ("copy", "move"):
                            l = ds[0][2]["args"][0]["place"]["l"]
                        else:
                            break
        if uses_contains or not over_list:
            r.inst(iid, b.file_line(), "violation")
            r.fail(iid, b.file_line(),
                   "%s: the sub-model's records are %s — the order (and multiplicity) of the requested component list is lost, so the sub-model "
                   "does not pair with sub-models built by the other `subset` implementations" % (
                       b.path, "selected by filtering the parent's records with `contains`" if uses_contains else "not selected by iterating over the requested index list"))
        else:
            r.inst(iid, b.file_line(), "ok")
    r.floor("subset implementations that select records themselves", n, 4)
