"""R49 ACCUMULATOR-SCOPE — a collection that is filled and evaluated inside a loop is emptied inside that loop.

Per-pair / per-point work buffers are filled with `push` and then evaluated (`iter().sum()`, `len()`, indexing) inside the same
loop body: the buffer has to be empty at the start of every iteration of that loop — it is either declared inside it or
`clear()`ed inside it.  (Buffers that are never reset collect results over the whole loop on purpose and are not judged; the rule
applies to buffers that *are* reset somewhere: the reset has to be in the right loop.)  "Hoist the allocation out of the loops" with the `clear()` one loop level too far out leaves the
entries of the previous inner iteration in the buffer: the k_ij of the pair (i, i+2) is then averaged over the segment
pairs of (i, i+1) as well, and depends on which component sits in between (C14: order independence).  Rule: for every
`Vec` local that is pushed to and read inside one loop L (the innermost loop containing both), a creation (`Vec::new`,
`with_capacity`, `vec![]`) or `clear()` of it lies inside L."""
from cfg import Defs
from facts import callee
from report import RuleResult
from r26_stale import natural_loops
from r48_boundary import _base_locals

READS = ("iter", "into_iter", "len", "is_empty", "first", "last", "index", "as_slice", "deref", "sum", "concat", "clone", "to_vec", "contains")
CREATE = ("new", "with_capacity", "default", "from_elem", "into_vec", "to_vec", "collect", "clone")


def run(F, scopes=None):
    r = RuleResult("R49", "ACCUMULATOR-SCOPE: work buffers filled and evaluated inside a loop are emptied inside that loop")
    n = 0
    n_all = [0]
    for b in F.bodies:
        if b.get("exp") or "::tests::" in b.path or "_serde" in b.path:
            continue
        if scopes and not any(s in b.path for s in scopes):
            continue
        vecs = [l for l in range(b["arg_count"] + 1, len(b.locals)) if b.lname(l) and ((b.lty(l) or {}).get("s") or "").startswith("std::vec::Vec<")]
        if not vecs:
            continue
        loops, dom = natural_loops(b)
        if not loops:
            continue
        defs = Defs(b)
        for v in vecs:
            push_b, read_b, init_b = set(), set(), set()
            clears = set()
            for d in defs.whole(v):
                init_b.add(d[1])
            for bi, t in b.calls():
                nm = callee(t)[2]
                if not t["args"] or t["args"][0].get("k") not in ("copy", "move"):
                    continue
                if v not in _base_locals(b, defs, t["args"][0]):
                    continue
                if nm in ("push", "extend", "insert", "append", "extend_from_slice"):
                    push_b.add(bi)
                elif nm in ("clear", "truncate", "drain"):
                    init_b.add(bi)
                    clears.add(bi)
                elif nm in READS:
                    read_b.add(bi)
            if not push_b or not read_b:
                continue
            n_all[0] += 1
            if not clears:
                continue        # a buffer that is never reset accumulates on purpose (results collected over the loop)
            # innermost loop containing a push and a read
            cand = [(len(body), hdr) for hdr, body in loops.items() if body & push_b and body & read_b]
            if not cand:
                continue
            # take the innermost loop that contains *all* pushes reachable together with a read: the smallest loop with both
            hdr = min(cand)[1]
            body = loops[hdr]
            n += 1
            iid = "acc|%s|%s" % (b.path.split("::{closure")[0], b.lname(v))
            span = b.blocks[min(read_b & body)]["term"].get("span", b.file_line())
            if init_b & body:
                r.inst(iid, span, "ok")
            else:
                r.inst(iid, span, "violation")
                r.fail(iid, span,
                       "%s: the buffer `%s` is filled and evaluated inside one loop but created / cleared outside of it: entries of the previous iteration "
                       "are evaluated again" % (b.path, b.lname(v)))
    r.inst("acc|census", "-", "ok", buffers_filled_and_read_in_loops=n_all[0], buffers_with_reset=n, nontrivial=n_all[0] > 0)
    r.exhaustive = True
    return [r]
