"""R67 SETTER-FIELD — a builder setter stores its argument in the field it is named after.

C03: "a state constructed from a specification has exactly the specified values".  `StateBuilder` collects the specification in
`Option` fields, one setter per field (`.temperature(t)`, `.pressure(p)`, `.initial_temperature(t0)` ...); several fields have the
same type (`Option<Temperature>` twice, `Option<MolarEnergy>` twice), so a setter that writes a neighbouring field type-checks:
`initial_temperature` stored in `self.temperature` turns a starting value into a specification — the state is built at the guess
temperature and the enthalpy / entropy target is silently ignored.  Rule (name pairing, as R10b for getters): in every method of a
type of the library that takes `self` and one further parameter and stores that parameter (directly or wrapped in `Some`) in a
field of `self`, if the type has a field with the method's name, that is the field written."""
from cfg import Defs
from facts import callee
from report import RuleResult


def run(F):
    r = RuleResult("R67", "SETTER-FIELD: a setter named like a field of its type stores its argument in that field")
    fields = {}          # owner adt -> set of field names
    for b in F.bodies:
        for bi, si, st in b.stmts():
            rv = st["rv"]
            if rv["k"] == "agg" and rv["kind"].get("t") == "adt" and rv["kind"].get("fields"):
                fields.setdefault(rv["kind"]["adt"], set()).update(str(x) for x in rv["kind"]["fields"])
            for pl in (st["place"], rv.get("place") or {}):
                for p in pl.get("p", []) if pl else []:
                    if isinstance(p, dict) and "f" in p and p.get("o") and p.get("n"):
                        fields.setdefault(p["o"], set()).add(p["n"])
    n = 0
    for b in F.bodies:
        if b.is_closure() or not b.path.startswith(("feos_core::", "feos_dft::", "feos::")) or "::tests::" in b.path or "::python::" in b.path:
            continue
        if b["arg_count"] != 2 or b.lname(1) != "self":
            continue
        meth = b.path.split("::")[-1]
        defs = Defs(b)

        def from_param(op, depth=0):
            if op.get("k") not in ("copy", "move") or depth > 4:
                return False
            l = op["place"]["l"]
            if l == 2:
                return True
            ds = defs.of(l)
            if len(ds) != 1:
                return False
            d = ds[0]
            if d[0] == "call":
                return str(callee(d[2])[2]) in ("into", "from", "clone", "to_owned", "into_owned") and d[2]["args"] and from_param(d[2]["args"][0], depth + 1)
            rv = d[4]
            if rv["k"] in ("use", "cast"):
                return from_param(rv["op"], depth + 1)
            if rv["k"] == "ref":          # reborrow of a reference parameter: `&*moles`
                return from_param({"k": "copy", "place": rv["place"]}, depth + 1)
            if rv["k"] == "agg" and rv["kind"].get("variant") == "Some" and rv["ops"]:
                return from_param(rv["ops"][0], depth + 1)
            return False

        # struct-update form: `Self { temperature: Some(temperature), ..self }` — one aggregate of the type of `self` whose operands are
        # the parameter in one position and the fields of `self` in all others
        for bi, si, st in b.stmts():
            rv = st["rv"]
            if not (rv["k"] == "agg" and rv["kind"].get("t") == "adt" and rv["kind"].get("fields") and len(rv["ops"]) == len(rv["kind"]["fields"])):
                continue
            owner = rv["kind"]["adt"]
            if meth not in fields.get(owner, ()):
                continue
            pos = [i for i, o in enumerate(rv["ops"]) if from_param(o)]
            selfish = 0
            shuffled = None
            for i, o in enumerate(rv["ops"]):
                if o.get("k") in ("copy", "move") and o["place"]["l"] == 1:
                    fs_ = [p for p in o["place"]["p"] if isinstance(p, dict) and "f" in p]
                    if len(fs_) == 1 and fs_[0].get("n"):
                        selfish += 1
                        if fs_[0]["n"] != str(rv["kind"]["fields"][i]):
                            shuffled = (fs_[0]["n"], str(rv["kind"]["fields"][i]))
            if len(pos) != 1 or selfish < len(rv["ops"]) - 2:
                continue
            n += 1
            written = str(rv["kind"]["fields"][pos[0]])
            iid = "setter|%s.%s" % (owner.split("::")[-1], meth)
            where = st.get("span", b.file_line())
            if written == meth and not shuffled:
                r.inst(iid, where, "ok", form="struct update")
            elif shuffled:
                r.inst(iid, where, "violation")
                r.fail(iid + "|shuffle", where, "%s::%s rebuilds `self` with field `%s` taken from `%s`" % (owner.split("::")[-1], meth, shuffled[1], shuffled[0]))
            else:
                r.inst(iid, where, "violation")
                r.fail(iid, where,
                       "%s::%s stores its argument in the field `%s` although the type has a field `%s`: the value given for one input of the "
                       "specification silently replaces another" % (owner.split("::")[-1], meth, written, meth))
        for bi, si, st in b.stmts():
            pl = st["place"]
            if pl["l"] != 1:
                continue
            fs = [p for p in pl["p"] if isinstance(p, dict) and "f" in p]
            if len(fs) != 1 or not fs[0].get("n") or not fs[0].get("o"):
                continue
            rv = st["rv"]
            src = rv["op"] if rv["k"] in ("use", "cast") else rv["ops"][0] if rv["k"] == "agg" and rv["kind"].get("variant") == "Some" and rv["ops"] else None
            if src is None or not from_param(src):
                continue
            owner, written = fs[0]["o"], fs[0]["n"]
            if meth not in fields.get(owner, ()):
                continue          # not a setter named after a field
            n += 1
            iid = "setter|%s.%s" % (owner.split("::")[-1], meth)
            if written == meth:
                r.inst(iid, st.get("span", b.file_line()), "ok")
            else:
                r.inst(iid, st.get("span", b.file_line()), "violation")
                r.fail(iid, st.get("span", b.file_line()),
                       "%s::%s stores its argument in the field `%s` although the type has a field `%s`: the value given for one input of the "
                       "specification silently replaces another" % (owner.split("::")[-1], meth, written, meth))
    r.floor("setters named after a field", n, 12)
    r.exhaustive = True
    return [r]
