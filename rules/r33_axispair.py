"""R33 AXIS-PAIRING — the axis a one-dimensional transform runs along is the axis its vector-component flag is tested for.

`ConvolverFFT::forward_transform` / `back_transform` apply a 1-D transform along every axis; for the component v of a vector
weight function the transform along axis v is the odd (sine) one, all others are even.  The flag handed to the 1-D
transform is `vector_index != Some(a)` (or `vector_index.is_none_or(|ind| ind != a)`), the lanes it runs over are
`lanes(Axis(a'))`: adjointness of weighted-density and functional-derivative convolution (C17) needs a == a' at every
call, in the forward *and* in the back transform.  Rule: in every loop of the two functions that calls a 1-D transform, the
expression compared with `vector_index` equals (as an expression over the loop variable) the axis expression of the lanes
iterated in that loop."""
from cfg import Defs
from facts import callee
from report import RuleResult
from r26_stale import natural_loops


def _expr(b, defs, op, depth=0, upnames=None):
    if op.get("k") == "const":
        if op.get("promoted") is not None:
            # `&Some(0)`: a promoted constant; read the literal from the promoted body
            try:
                pb = b.d["promoted"][op["promoted"]]
                for blk in pb["blocks"]:
                    for st in blk["stmts"]:
                        rv = st["rv"]
                        if rv["k"] == "agg" and rv["kind"].get("variant") == "Some" and rv["ops"]:
                            o = rv["ops"][0]
                            return "agg(%s)" % str(o.get("text") or o.get("bits")).split("_")[0]
            except (KeyError, IndexError, TypeError):
                pass
            return "promoted"
        t = str(op.get("text") or op.get("bits"))
        return t.split("_")[0]
    if op.get("k") not in ("copy", "move") or depth > 10:
        return "?"
    pl = op["place"]
    l = pl["l"]
    # closure upvar
    if upnames and l == 1 and pl["p"]:
        for p in pl["p"]:
            if isinstance(p, dict) and "f" in p:
                return str(p.get("n") or upnames.get(p["f"], "up%s" % p["f"]))
    flds = [p for p in pl["p"] if isinstance(p, dict) and "f" in p]
    nm = b.lname(l)
    if nm and not flds:
        # a named local that is plain arithmetic over other variables (`let axis = i + 1;`) is looked through;
        # pattern bindings (the loop variable itself) and everything else are leaves
        dsn = defs.of(l)
        arith = False
        if len(dsn) == 1 and dsn[0][0] == "stmt" and not dsn[0][3]["p"]:
            rvn = dsn[0][4]
            if rvn["k"] == "binop":
                arith = True
            elif rvn["k"] == "use" and rvn["op"].get("k") in ("copy", "move"):
                src = rvn["op"]["place"]
                sd = defs.of(src["l"])
                arith = b.lname(src["l"]) is None and len(sd) == 1 and sd[0][0] == "stmt" and sd[0][4]["k"] == "binop"
        if not arith:
            return nm
    ds = defs.of(l)
    if len(ds) != 1:
        return "v%d" % l
    d = ds[0]
    if d[0] == "call":
        return "%s(%s)" % (callee(d[2])[2], ",".join(_expr(b, defs, a, depth + 1, upnames) for a in d[2]["args"]))
    rv = d[4]
    if rv["k"] in ("use", "cast"):
        e = _expr(b, defs, rv["op"], depth + 1, upnames)
        return e
    if rv["k"] == "ref":
        return _expr(b, defs, {"k": "copy", "place": rv["place"]}, depth + 1, upnames)
    if rv["k"] == "binop":
        op_ = rv["op"].replace("WithOverflow", "")
        return "(%s %s %s)" % (_expr(b, defs, rv["a"], depth + 1, upnames), op_, _expr(b, defs, rv["b"], depth + 1, upnames))
    if rv["k"] == "agg":
        return "agg(%s)" % ",".join(_expr(b, defs, o, depth + 1, upnames) for o in rv["ops"])
    return "?"


def _cmp_expr(F, b, defs, flag, depth=0):
    """the expression `vector_index` is compared with to obtain the flag operand (None = not recognised)"""
    cmp_e = None
    if flag.get("k") not in ("copy", "move") or depth > 2:
        return None
    for d in defs.of(flag["place"]["l"]):
        if d[0] != "call":
            rv = d[4]
            if rv["k"] == "use" and rv["op"].get("k") in ("copy", "move") and not rv["op"]["place"]["p"]:
                cmp_e = _cmp_expr(F, b, defs, rv["op"], depth) or cmp_e
            continue
        nm = callee(d[2])[2]
        if nm == "ne" and len(d[2]["args"]) == 2:
            es = [_expr(b, defs, a) for a in d[2]["args"]]
            cand = [e for e in es if e.startswith("agg(")]
            if cand:
                cmp_e = cand[0][4:-1]
        elif nm == "is_none_or" and len(d[2]["args"]) == 2:
            cl = d[2]["args"][1]
            cty = b.opty(cl) or {}
            k = str(cty.get("k", ""))
            if k.startswith("closure:"):
                cb = F.body(k[len("closure:"):])
                if cb is not None:
                    cd = Defs(cb)
                    ups = {i: u.get("name") for i, u in enumerate(cb.d.get("upvars") or [])}
                    for bj, sj, st in cb.stmts():
                        if st["place"]["l"] == 0 and st["rv"]["k"] == "binop" and st["rv"]["op"] == "Ne":
                            es = [_expr(cb, cd, st["rv"]["a"], 0, ups), _expr(cb, cd, st["rv"]["b"], 0, ups)]
                            arg = cb.lname(2) or "ind"
                            es = [e for e in es if e != arg and e != "v2"]
                            if es:
                                cmp_e = es[0]
        else:
            # a named predicate of the repository (`is_scalar_axis(vector_index, axis)`): the comparison is inside; the expression
            # compared is the call's argument in the position of the helper's parameter that the helper compares with
            hb = F.callee_body(d[2])
            if hb is not None and not hb.is_closure() and hb.path.startswith("feos_dft::") and len(hb.blocks) <= 20 \
                    and (hb.lty(0) or {}).get("s") == "bool" and hb["arg_count"] == len(d[2]["args"]):
                inner = _cmp_expr(F, hb, Defs(hb), {"k": "copy", "place": {"l": 0, "p": []}}, depth + 1)
                for i in range(1, hb["arg_count"] + 1):
                    if inner is not None and inner == hb.lname(i):
                        cmp_e = _expr(b, defs, d[2]["args"][i - 1])
    return cmp_e


def run(F):
    r = RuleResult("R33", "AXIS-PAIRING: a 1-D transform's vector-component flag is tested for the axis it runs along")
    n = 0
    for b in F.bodies:
        if not (b.path.endswith("ConvolverFFT::<T, D>::forward_transform") or b.path.endswith("ConvolverFFT::<T, D>::back_transform")):
            continue
        defs = Defs(b)
        loops, dom = natural_loops(b)
        # innermost loop of each 1-D transform call
        for bi, t in b.calls():
            if callee(t)[2] not in ("forward_transform", "back_transform") or len(t["args"]) != 4:
                continue
            n += 1
            inner = None
            for hdr, body in loops.items():
                if bi in body and (inner is None or len(body) < len(inner)):
                    inner = body
            # outer region = smallest loop strictly containing the inner one, else the whole function
            region = None
            for hdr, body in loops.items():
                if inner is not None and inner < body and (region is None or len(body) < len(region)):
                    region = body
            if region is None:
                region = set(range(len(b.blocks)))
            # axis expressions: Axis(..) literals built in the region but outside deeper sibling loops that do not contain the call
            axes = set()
            for bj in region:
                blk = b.blocks[bj]
                if blk.get("cleanup"):
                    continue
                other = any(bj in body and bi not in body for body in loops.values() if body < region)
                if other:
                    continue
                for st in blk["stmts"]:
                    rv = st["rv"]
                    if rv["k"] == "agg" and str(rv["kind"].get("adt", "")).endswith("ndarray::Axis"):
                        axes.add(_expr(b, defs, rv["ops"][0]))
            cmp_e = _cmp_expr(F, b, defs, t["args"][3])
            fn = b.path.split("::")[-1]
            iid = "axis|%s|%s" % (fn, "first-axis" if inner is not None and region == set(range(len(b.blocks))) else "cartesian-axes")
            if cmp_e is not None and cmp_e in axes:
                r.inst(iid, t["span"], "ok", axis=cmp_e)
            else:
                r.inst(iid, t["span"], "violation", compared=cmp_e, axes=sorted(axes))
                r.fail(iid, t["span"],
                       "ConvolverFFT::%s: the 1-D transform runs along axis %s but its vector-component flag compares `vector_index` with `%s`: "
                       "for vector weight functions the odd transform is applied along the wrong axis (forward and back transform are no longer adjoint)"
                       % (fn, sorted(axes), cmp_e))
    r.floor("1-D transform calls in ConvolverFFT", n, 4)
    r.exhaustive = True
    return [r]
