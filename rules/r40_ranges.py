"""R40 RANGE-SHAPE — index ranges cover the whole index space unless the exception is reviewed.

Of the ~270 index ranges of the library 96 % have one of the shapes `0..n`, `i..n`, `(i+1)..n`, `k..k+len`: every element
(component, segment, site, grid point) is visited.  A range that starts at the constant 1 or whose upper bound is `n - c` /
`n + c` skips or adds elements on purpose (trapezoidal rule, the extra vapor trial phase, Gauss points) — or by an
off-by-one slip that drops the last component of a mixture from a sum.  Rule: every range `a..b` built in non-test code
is classified; the shapes above are normal, every other range must be in the reviewed list (function, lower, upper)."""
from cfg import Defs
from facts import callee
from report import RuleResult

REVIEWED = {
    # (function suffix, lower, upper) -> why
    ("ChemicalRecord::new", "0", "(len(v1) Sub 1)"): "default bonds of a linear chain: n - 1 bonds between n segments",
    ("ChemicalRecord::new", "1", "len(v1)"): "second index of the n - 1 default bonds",
    ("State<E>>::stability_analysis", "0", "(components(deref(self.eos)) Add 1)"): "N nearly pure liquid trial phases plus one ideal vapor trial phase",
    ("dispersion::second_order_perturbation_ij", "0", "((fh_order Mul 2) Add 1)"): "Feynman-Hibbs expansion: 2*order + 1 terms",
    ("phase_diagram_binary::iterate_vle", "1", "-1"): "interior points of the composition grid (end points are the pure-component equilibria)",
    ("pdgt::integrate_trapezoidal_cumulative", "1", "len(value)"): "cumulative trapezoidal rule: first value is zero",
    ("Parameter>::from_records", "1", "4"): "SAFT-VR Mie: Sutherland coefficients c_1..c_3",
    ("parameters::lower_integratal_limit", "1", "5"): "fixed number of Newton / Halley refinements",
    ("SaftVRQMieParameters>::zero_integrand", "1", "20"): "fixed number of Newton iterations",
    ("SaftVRQMieParameters>::calc_epsilon_k_eff_ij", "1", "20"): "fixed number of Newton iterations",
    ("SaftVRQMieParameters>::calc_sigma_eff_ij", "1", "20"): "fixed number of Newton iterations",
    ("PhaseEquilibrium<E, 3>>::heteroazeotrope_t", "2", "4"): "second block (liquid 2) of the six-component Newton step vector",
    ("PhaseEquilibrium<E, 3>>::heteroazeotrope_t", "4", "6"): "third block (vapor) of the six-component Newton step vector",
    ("PhaseEquilibrium<E, 3>>::heteroazeotrope_p", "2", "4"): "second block (liquid 2) of the Newton step vector",
    ("PhaseEquilibrium<E, 3>>::heteroazeotrope_p", "4", "6"): "third block (vapor) of the Newton step vector",
    ("attractive_perturbation_uvb3::delta_b2", "2", "16"): "series coefficients k = 2..15 of the tabulated expansion",
}


def _shape(e):
    """the expression with the names of variables blanked out (`(len(v1) Sub 1)` and `(len(segments) Sub 1)` are one shape)"""
    import re
    return re.sub(r"\b[A-Za-z_][A-Za-z0-9_.]*\b(?!\()", lambda m: m.group(0) if m.group(0) in ("Add", "Sub", "Mul", "Div") else "_", e)


def _expr(b, defs, op, depth=0):
    if op.get("k") == "const":
        return str(op.get("text") or op.get("bits")).split("_")[0]
    if op.get("k") not in ("copy", "move") or depth > 6:
        return "?"
    pl = op["place"]
    l = pl["l"]
    flds = [p.get("n") or str(p.get("f")) for p in pl["p"] if isinstance(p, dict) and "f" in p]
    nm = b.lname(l)
    if nm:
        return nm + "".join("." + f for f in flds)
    ds = defs.of(l)
    if len(ds) != 1:
        return "v%d" % l
    d = ds[0]
    if d[0] == "call":
        return "%s(%s)" % (callee(d[2])[2], ",".join(_expr(b, defs, a, depth + 1) for a in d[2]["args"]))
    rv = d[4]
    if rv["k"] in ("use", "cast"):
        return _expr(b, defs, rv["op"], depth + 1) + "".join("." + f for f in flds)
    if rv["k"] == "ref":
        return _expr(b, defs, {"k": "copy", "place": rv["place"]}, depth + 1)
    if rv["k"] == "binop":
        return "(%s %s %s)" % (_expr(b, defs, rv["a"], depth + 1), rv["op"].replace("WithOverflow", ""), _expr(b, defs, rv["b"], depth + 1))
    return "?"


def run(F, scopes=None):
    r = RuleResult("R40", "RANGE-SHAPE: index ranges have a full-coverage shape or are reviewed exceptions")
    n = 0
    for b in F.bodies:
        if "::tests::" in b.path or "::test::" in b.path or "_serde" in b.path:
            continue
        root = b.path.split("::{closure")[0]
        if scopes and not any(s in root for s in scopes):
            continue
        defs = None
        for bi, si, st in b.stmts():
            rv = st["rv"]
            if not (rv["k"] == "agg" and rv["kind"].get("t") == "adt" and "ops::Range" in str(rv["kind"].get("adt", "")) and len(rv["ops"]) == 2):
                continue
            ty0 = b.opty(rv["ops"][0]) if rv["ops"][0].get("k") != "const" else {"k": "int"}
            if (ty0 or {}).get("k") != "int" and rv["ops"][0].get("k") != "const":
                continue
            defs = defs or Defs(b)
            n += 1
            lo, hi = _expr(b, defs, rv["ops"][0]), _expr(b, defs, rv["ops"][1])
            lo_ok = lo == "0" or "(" not in lo and not lo.lstrip("-").isdigit() or (lo.startswith("(") and lo.endswith(" Add 1)"))
            hi_arith = " Sub " in hi or " Add " in hi or " Mul " in hi
            windows = hi_arith and hi.startswith("(%s Add " % lo)          # k .. k + len
            # the k-th block of n consecutive elements: (k * n)..((k + 1) * n) — same length as 0..n, shifted by whole blocks
            import re
            m = re.fullmatch(r"\((\S+) Mul (\S+)\)", lo)
            block = bool(m) and hi in ("((%s Add 1) Mul %s)" % (m.group(1), m.group(2)), "(%s Mul (%s Add 1))" % (m.group(2), m.group(1)),
                                       "((%s Add 1) Mul %s)" % (m.group(2), m.group(1)), "(%s Mul (%s Add 1))" % (m.group(1), m.group(2)))
            normal = (lo_ok and (not hi_arith or windows)) or block
            if normal:
                continue
            iid = "range|%s|%s..%s" % (root, lo, hi)
            why = None
            for (fn, rlo, rhi), w in REVIEWED.items():
                if root.endswith(fn) and _shape(rlo) == _shape(lo) and _shape(rhi) == _shape(hi):
                    why = w
            if why:
                r.inst(iid, st.get("span", b.file_line()), "exempt", reason=why)
            else:
                r.inst(iid, st.get("span", b.file_line()), "violation")
                r.fail(iid, st.get("span", b.file_line()),
                       "%s: the index range `%s..%s` does not have a full-coverage shape (0..n, i..n, i+1..n, k..k+len, k*n..(k+1)*n) and is not a reviewed exception: "
                       "elements at the start or the end of the index space are skipped (or an extra one is visited)" % (root, lo, hi))
    r.inst("range|census", "-", "ok", ranges=n, nontrivial=n > 0)
    r.floor("index ranges classified", n, 1)
    r.exhaustive = True
    return [r]
