"""R5 SELECT — orderings select the right candidate.

(a) Gibbs minimum: at every comparison whose two operands are results of `*gibbs_energy` calls, the candidate
    kept on each outgoing edge (moved into the return place or stored over *self) is the one whose energy is on
    the smaller side for that edge.
(b) TPD acceptance: every push into the vector that stability_analysis returns is cut off from the entry by the
    true-edge of `tpd < C` with C a constant <= 0 and tpd rooted in the result of minimize_tpd."""
from cfg import Defs, reachable, value_roots, provenance, strip_place, dominators
from facts import callee
from report import RuleResult
from r04_conv import switch_bool_targets


def energy_receiver(body, defs, op):
    """if operand is (a ref to) the result of a *gibbs_energy call: the root locals of the receiver"""
    if op["k"] not in ("copy", "move"):
        return None
    for l in value_roots(body, defs, op["place"]):
        for d in defs.of(l):
            if d[0] == "call":
                name = callee(d[2])[2] or ""
                if name.endswith("gibbs_energy"):
                    a0 = d[2]["args"][0]
                    if a0["k"] in ("copy", "move"):
                        return frozenset(value_roots(body, defs, a0["place"]))
    return None


def run(F):
    r = RuleResult("R5", "SELECT: Gibbs-energy / TPD comparisons keep the right candidate")
    n_cmp = 0
    for b in F.bodies:
        has = any((callee(t)[2] or "").endswith("gibbs_energy") for _, t in b.calls())
        if not has:
            continue
        defs = Defs(b)
        for bi, t in b.calls():
            p, tr, name = callee(t)
            if tr != "std::cmp::PartialOrd" or name not in ("lt", "le", "gt", "ge"):
                continue
            ra = energy_receiver(b, defs, t["args"][0])
            rb = energy_receiver(b, defs, t["args"][1])
            if ra is None or rb is None:
                continue
            n_cmp += 1
            res = t["dest"]["l"]
            fn = b.path.split("::")[-1]
            iid = "gibbs|%s" % fn
            # the switch on the result
            sw = None
            for sb, blk in enumerate(b.blocks):
                tt = blk["term"]
                if tt["k"] == "switch" and tt["op"]["k"] in ("copy", "move") and tt["op"]["place"]["l"] == res:
                    sw = (sb, tt)
            if sw is None:
                r.inst(iid, t["span"], "violation")
                r.fail("gibbs|%s|no-branch" % fn, t["span"], "%s: the Gibbs-energy comparison does not steer a branch" % fn)
                continue
            sb, tt = sw
            true_t, false_t = switch_bool_targets(tt)
            # smaller side per edge
            if name in ("lt", "le"):
                small = {true_t: ("A", ra, rb), false_t: ("B", rb, ra)}
            else:
                small = {true_t: ("B", rb, ra), false_t: ("A", ra, rb)}
            dom = dominators(b)
            back = {(u, v) for u, ss in enumerate(b.succs()) for v in ss if u in dom and v in dom[u]}
            reach_t = reachable(b, back, start=true_t)
            reach_f = reachable(b, back, start=false_t)
            kept_any = False
            bad = []
            for tgt, (side, r_small, r_large) in small.items():
                only = (reach_t - reach_f) if tgt == true_t else (reach_f - reach_t)
                only = only | {tgt} if tgt not in (reach_t & reach_f) else only
                for ob in sorted(only):
                    for st in b.blocks[ob]["stmts"]:
                        pl = st["place"]
                        is_ret = pl["l"] == 0 and not pl["p"]
                        is_self = pl["l"] == 1 and pl["p"] == ["*"]
                        if not (is_ret or is_self):
                            continue
                        rv = st["rv"]
                        if rv["k"] != "use" or rv["op"]["k"] not in ("copy", "move"):
                            continue
                        src = frozenset(value_roots(b, defs, rv["op"]["place"]))
                        if src & r_small and not (src & r_large):
                            kept_any = True
                        elif src & r_large:
                            bad.append((st["span"], side))
            if bad:
                r.inst(iid, t["span"], "violation")
                r.fail("gibbs|%s|keeps-larger" % fn, bad[0][0],
                       "%s: after comparing two Gibbs energies the candidate with the LARGER energy is kept on an edge (at %s)" % (fn, [x[0] for x in bad]))
            elif not kept_any:
                r.inst(iid, t["span"], "violation")
                r.fail("gibbs|%s|keeps-nothing" % fn, t["span"], "%s: no edge of the Gibbs-energy comparison keeps the lower-energy candidate" % fn)
            else:
                r.inst(iid, t["span"], "ok", cmp=name)
    r.floor("Gibbs-energy comparisons", n_cmp, 2)

    # ---------------- (b) TPD acceptance
    sb_ = [b for b in F.bodies if b.path.endswith("::stability_analysis") and not b.is_closure()]
    n_push = 0
    if not sb_:
        r.fail("tpd|missing", "-", "stability_analysis not found")
    else:
        b = sb_[0]
        defs = Defs(b)
        # the vector that is returned
        ret_roots = set()
        for bi, si, st in b.stmts():
            if st["place"]["l"] == 0 and not st["place"]["p"] and st["rv"]["k"] == "agg" and st["rv"]["kind"].get("variant") == "Ok":
                op = st["rv"]["ops"][0]
                if op["k"] in ("copy", "move"):
                    ret_roots |= value_roots(b, defs, op["place"])
        edges = set()
        ev = []
        for bi, blk in enumerate(b.blocks):
            tt = blk["term"]
            if tt["k"] != "switch" or tt["op"]["k"] not in ("copy", "move"):
                continue
            for d in defs.of(tt["op"]["place"]["l"]):
                if d[0] == "stmt" and d[4]["k"] == "binop" and d[4]["op"] in ("Lt", "Le"):
                    a, c = d[4]["a"], d[4]["b"]
                    if c["k"] == "const" and "f" in c and float(c["f"]) <= 0.0 and a["k"] in ("copy", "move"):
                        _, stops = provenance(b, defs, [a["place"]["l"]], call_names=("branch",))
                        if any("minimize_tpd" in s for s in stops):
                            true_t, _ = switch_bool_targets(tt)
                            edges.add((bi, true_t))
                            ev.append((tt["span"], c["f"]))
        reach = reachable(b, edges)
        for bi, t in b.calls():
            p, tr, name = callee(t)
            if name == "push" and "Vec" in p:
                a0 = t["args"][0]
                if a0["k"] in ("copy", "move") and (value_roots(b, defs, a0["place"]) & ret_roots):
                    n_push += 1
                    if bi in reach or not edges:
                        r.inst("tpd|push", t["span"], "violation")
                        r.fail("tpd|push-without-negative-tpd", t["span"],
                               "stability_analysis: a trial state is pushed into the result on a path that does not pass `tpd < C` with C <= 0 "
                               "(tpd from minimize_tpd); accepted comparisons: %s" % ev)
                    else:
                        r.inst("tpd|push", t["span"], "ok", evidence=ev)
    r.floor("TPD result pushes", n_push, 1)
    r.exhaustive = True
    return [r]
