"""R11 CONST — duplicated constants agree (values from the compiler's const evaluation, bit-compared)."""
import os
import tomllib

from report import RuleResult

TABLE = os.path.join(os.path.dirname(os.path.dirname(os.path.abspath(__file__))), "tables", "r11.toml")


def run(F):
    r = RuleResult("R11", "CONST: duplicated universal/model constants are bit-identical")
    with open(TABLE, "rb") as fh:
        tab = tomllib.load(fh)
    consts = {}
    for c, k in F.items("consts"):
        v = k.get("bits")
        if v is None and "elems_bits" in k:
            v = (tuple(k.get("dims", [])), tuple(k["elems_bits"]))
        consts[k["path"]] = (v, k)
    full = F.config == "full"
    n_groups = 0
    for g in tab["group"]:
        present = [(m, consts[m]) for m in g["members"] if m in consts]
        iid = "group|%s" % g["name"]
        if not present:
            if full:
                r.inst(iid, "-", "violation")
                r.fail("group|%s|empty" % g["name"], "-", "constant group `%s` has no member left (renamed?): re-confirm tables/r11.toml" % g["name"])
            continue
        n_groups += 1
        vals = {}
        for m, (v, k) in present:
            if v is None:
                r.inst(iid, k["span"], "violation")
                r.fail("group|%s|unevaluated|%s" % (g["name"], m), k["span"], "constant %s could not be evaluated" % m)
                continue
            vals.setdefault(v, []).append((m, k))
        if len(vals) > 1:
            # report the minority member(s)
            groups = sorted(vals.values(), key=len)
            odd = groups[0]
            detail = describe_diff(vals)
            r.inst(iid, odd[0][1]["span"], "violation", members=[m for m, _ in present])
            r.fail("group|%s|differs|%s" % (g["name"], odd[0][0]), odd[0][1]["span"],
                   "constant %s differs from its sibling copies %s (%s): the implementations of the same model no longer agree"
                   % (odd[0][0], [m for grp in groups[1:] for m, _ in grp], detail))
        else:
            r.inst(iid, present[0][1][1]["span"], "ok", members=len(present))
    r.floor("constant groups with members", n_groups, len(tab["group"]))
    r.exhaustive = True
    return [r]


def describe_diff(vals):
    keys = list(vals.keys())
    a, b = keys[0], keys[1]
    if isinstance(a, tuple) and isinstance(b, tuple):
        ea, eb = a[1], b[1]
        if len(ea) != len(eb):
            return "different lengths %d vs %d" % (len(ea), len(eb))
        import struct
        for i, (x, y) in enumerate(zip(ea, eb)):
            if x != y:
                fx = struct.unpack("<d", int(x).to_bytes(8, "little"))[0]
                fy = struct.unpack("<d", int(y).to_bytes(8, "little"))[0]
                return "element %d: %r vs %r" % (i, fx, fy)
    return "scalar values differ"
