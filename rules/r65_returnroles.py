"""R65 RETURN-ROLES — a pair returned as [vapor, liquid] is taken apart as [vapor, liquid].

C04 / C05: several routines hand two phases back as a plain array or tuple (`State::spinodal` -> `Ok([spinodal_vapor, spinodal_liquid])`)
and the caller destructures it by position (`let [sp_v, sp_l] = State::spinodal(..)?`).  Both sides are `State`s: exchanging the
names on one side type-checks, reads consistently on its own, and gives a start pressure from the wrong branch of the isotherm (a
start value that fails only where the liquid spinodal pressure is strongly negative — long alkanes near 0.9 Tc).  Like R44 for
arguments, the rule compares names across the call: where the producer builds its returned array / tuple from locals whose names
carry a phase role (vapor / liquid, by token: `vapor`, `vap`, `v`; `liquid`, `liq`, `l`) and the consumer binds the elements to
locals whose names carry a role, the roles agree position by position."""
import re

from cfg import Defs
from facts import callee
from report import RuleResult

ROLE = ((re.compile(r"(^|_)(v|vap|vapor|vapour)(_|\d|$)"), "vapor"), (re.compile(r"(^|_)(l|liq|liquid)(_|\d|$)"), "liquid"))


def role(name):
    if not name:
        return None
    hits = [r for rx, r in ROLE if rx.search(name.lower())]
    return hits[0] if len(hits) == 1 else None


def _producer_roles(b):
    """roles of the elements of the array / tuple a function returns (through Ok(..)), or None"""
    defs = Defs(b)
    work, seen = [0], set()
    while work:
        l = work.pop()
        if l in seen:
            continue
        seen.add(l)
        for d in defs.of(l):
            if d[0] != "stmt":
                continue
            rv = d[4]
            if rv["k"] == "agg" and rv["kind"].get("t") in ("array", "tuple") and len(rv["ops"]) == 2:
                names = []
                for o in rv["ops"]:
                    l2 = o["place"]["l"] if o.get("k") in ("copy", "move") and not o["place"]["p"] else None
                    for _ in range(4):
                        if l2 is None or b.lname(l2):
                            break
                        ds = defs.of(l2)
                        if len(ds) == 1 and ds[0][0] == "stmt" and ds[0][4]["k"] == "use" and ds[0][4]["op"].get("k") in ("copy", "move") and not ds[0][4]["op"]["place"]["p"]:
                            l2 = ds[0][4]["op"]["place"]["l"]
                        else:
                            l2 = None
                    names.append(b.lname(l2) if l2 is not None else None)
                return [role(n) for n in names], names
            if rv["k"] == "agg" and rv["kind"].get("variant") in ("Ok", "Some") and rv["ops"]:
                o = rv["ops"][0]
                if o.get("k") in ("copy", "move"):
                    work.append(o["place"]["l"])
            elif rv["k"] == "use" and rv["op"].get("k") in ("copy", "move") and not rv["op"]["place"]["p"]:
                work.append(rv["op"]["place"]["l"])
    return None, None


def run(F):
    r = RuleResult("R65", "RETURN-ROLES: a returned [vapor, liquid] pair is destructured in the same order")
    n = 0
    prod = {}
    for b in F.bodies:
        if b.is_closure() or not b.path.startswith(("feos_core::", "feos::", "feos_dft::")) or "::tests::" in b.path or "::python::" in b.path:
            continue
        s = (b.lty(0) or {}).get("s", "")
        if "; 2]" not in s and not s.startswith(("(", "std::result::Result<(", "std::option::Option<(")):
            continue
        roles, names = _producer_roles(b)
        if roles and all(roles) and roles[0] != roles[1]:
            prod[b.path] = (roles, names)
    for b in F.bodies:
        if "::tests::" in b.path or "::python::" in b.path:
            continue
        defs = None
        for bi, t in b.calls():
            cb = F.callee_body(t)
            if cb is None or cb.path not in prod:
                continue
            defs = defs or Defs(b)
            # named locals bound to element 0 / 1 of (something derived from) the call's result
            derived = {t["dest"]["l"]}
            changed = True
            while changed:
                changed = False
                for bj, sj, st in b.stmts():
                    rv = st["rv"]
                    if rv["k"] == "use" and rv["op"].get("k") in ("copy", "move") and rv["op"]["place"]["l"] in derived and st["place"]["l"] not in derived \
                            and not any(isinstance(p, dict) and ("cidx" in p or ("f" in p and p.get("o") == "tuple")) for p in rv["op"]["place"]["p"]):
                        derived.add(st["place"]["l"])
                        changed = True
                for bj, t2 in b.calls():
                    if str(callee(t2)[2]) in ("branch", "unwrap", "expect", "from_residual", "into_iter") and t2["args"] and t2["args"][0].get("k") in ("copy", "move") \
                            and t2["args"][0]["place"]["l"] in derived and t2["dest"]["l"] not in derived:
                        derived.add(t2["dest"]["l"])
                        changed = True
            bound = {}
            for bj, sj, st in b.stmts():
                rv = st["rv"]
                if rv["k"] != "use" or rv["op"].get("k") not in ("copy", "move") or rv["op"]["place"]["l"] not in derived:
                    continue
                idx = None
                for p in rv["op"]["place"]["p"]:
                    if isinstance(p, dict) and p.get("cidx") is not None:
                        idx = p["cidx"]
                    elif isinstance(p, dict) and "f" in p and p.get("o") == "tuple":
                        idx = p["f"]
                nm = b.lname(st["place"]["l"])
                if idx in (0, 1) and nm:
                    bound[idx] = nm
            if len(bound) != 2:
                continue
            got = [role(bound[0]), role(bound[1])]
            if not all(got) or got[0] == got[1]:
                continue
            n += 1
            fn = b.path.split("::{closure")[0].split("::")[-1]
            iid = "returnroles|%s<-%s" % (fn, cb.path.split("::")[-1])
            want, pnames = prod[cb.path]
            if got == want:
                r.inst(iid, t["span"], "ok", producer=pnames, consumer=[bound[0], bound[1]])
            else:
                r.inst(iid, t["span"], "violation")
                r.fail(iid, t["span"],
                       "%s binds the pair returned by %s to [%s, %s], but the callee returns [%s, %s]: vapor and liquid are exchanged" % (
                           fn, cb.path.split("::")[-1], bound[0], bound[1], pnames[0], pnames[1]))
    # the consumers may legitimately disappear (`let pair = ..; pair.each_ref().map(..)`): the floor is on the producers; that the rule
    # still fires on a swapped destructuring is checked by the corpus (seed C04f) in the thorough tier
    r.floor("functions returning a [vapor, liquid]-named pair", len(prod), 1)
    r.inst("returnroles|producers", "-", "ok", producers=sorted(p.split("::")[-1] for p in prod), nontrivial=bool(prod))
    r.exhaustive = True
    return [r]
