"""R26 STALE-HOIST — a value computed before a loop from a variable that the loop re-assigns is not read inside the loop.

The iterative solvers update their state variables in place (`v = State::new_npt(..)?`, `vle = ..`, `x *= ..`).  Hoisting a
"loop-invariant" sub-expression such as `RGAS * v.temperature` in front of the loop is a behaviour-preserving optimisation
only if nothing it reads changes in the loop; when the loop re-assigns (or mutably borrows) one of the variables the
expression was computed from, every iteration after the first works with a stale value — the residual that is driven to
zero is then not the residual of the returned state.  The rule finds, for every natural loop (back edges of the dominator
tree), every *named* local that
  * has its single whole definition outside the loop, in a block dominating the loop header,
  * is read inside the loop, and
  * whose defining expression (MIR temporaries inlined) has a leaf variable that is whole-assigned or mutably borrowed
    inside the loop.
Deliberate uses of an initial value (start densities, normalisation constants taken before an in-place scaling loop, edge
counts taken before a graph is consumed) are listed in tables/r26.toml with the reason; anything else is a violation."""
import os
import tomllib
from collections import defaultdict

from cfg import Defs, dominators
from report import RuleResult

HERE = os.path.dirname(os.path.abspath(__file__))


def natural_loops(b):
    dom = dominators(b)
    succs = b.succs()
    preds = b.preds()
    loops = defaultdict(set)
    for u, ss in enumerate(succs):
        if u not in dom:
            continue
        for v in ss:
            if v in dom[u]:
                body = {v, u}
                st = [u]
                while st:
                    x = st.pop()
                    if x == v:
                        continue
                    for p in preds[x]:
                        if p not in body and p in dom:
                            body.add(p)
                            st.append(p)
                loops[v] |= body
    return loops, dom


def _ops(rv):
    k = rv["k"]
    if k in ("use", "cast", "repeat"):
        return [rv["op"]], None
    if k in ("ref", "discr"):
        return [], rv["place"]["l"]
    if k == "unop":
        return [rv["a"]], None
    if k == "binop":
        return [rv["a"], rv["b"]], None
    if k == "agg":
        return rv["ops"], None
    return [], None


def _field_of(place):
    """first field projection of a place (name, type index) or None for a whole-value read"""
    for p in place["p"]:
        if isinstance(p, dict) and "f" in p:
            return (p.get("n") or str(p["f"]), p.get("ty"))
    return None


# the extent of an ndarray (or of a quantity array wrapping one) does not change when its elements are written through `&mut`
SHAPE_QUERIES = ("len", "nrows", "ncols", "shape", "dim", "raw_dim", "len_of", "ndim", "is_empty")
SHAPE_ONLY = ("#shape", None)


def leaves(b, defs, l, depth, out, seen, fields=None, via=None):
    if depth > 12 or (l, via) in seen:
        return
    seen.add((l, via))
    if (b.lname(l) and b.lname(l) not in ("val", "residual")) or 1 <= l <= b["arg_count"]:
        # (`val` / `residual` are the bindings of the `?` desugaring: transparent)
        out.add(l)
        if fields is not None:
            fields.setdefault(l, set()).add(via)
        return
    for d in defs.of(l):
        if d[0] == "call":
            shape_query = callee_name(d[2]) in SHAPE_QUERIES and d[2]["args"] and d[2]["args"][0].get("k") in ("copy", "move") \
                and "ndarray::ArrayBase<" in ((b.opty(d[2]["args"][0]) or {}).get("s") or "")
            for a in d[2]["args"]:
                if a.get("k") in ("copy", "move"):
                    leaves(b, defs, a["place"]["l"], depth + 1, out, seen, fields, SHAPE_ONLY if shape_query else _field_of(a["place"]))
        else:
            rv = d[4]
            if via == SHAPE_ONLY and rv["k"] in ("ref", "use", "cast"):
                # on the way from a shape query (`x.len()`) back to the array: stay "shape only" through borrows and copies
                ops, pl = _ops(rv)
                if pl is not None:
                    leaves(b, defs, pl, depth + 1, out, seen, fields, SHAPE_ONLY)
                for o in ops:
                    if o.get("k") in ("copy", "move"):
                        leaves(b, defs, o["place"]["l"], depth + 1, out, seen, fields, SHAPE_ONLY)
                continue
            ops, pl = _ops(rv)
            if pl is not None:
                leaves(b, defs, pl, depth + 1, out, seen, fields, _field_of(rv["place"]))
            for o in ops:
                if o.get("k") in ("copy", "move"):
                    leaves(b, defs, o["place"]["l"], depth + 1, out, seen, fields, _field_of(o["place"]))


def _field_kept(b, defs, x, via, body, assigned):
    """the hoisted value reads only fields of `x`; every re-assignment of `x` inside the loop rebuilds it by a call that
    receives a loop-invariant argument of each such field's type (State::new_nvt(eos, temperature, ..) keeps `.temperature`
    when `temperature` is not changed by the loop)"""
    if None in via or not via:
        return False
    for d in defs.whole(x):
        if d[1] not in body:
            continue
        calls = []
        work = [d]
        seen = set()
        steps = 0
        while work and steps < 60:
            steps += 1
            dd = work.pop()
            if dd[0] == "call":
                # the value is rebuilt by a chain of calls (`StateBuilder::new(eos).temperature(t).partial_density(&rho).build()?`):
                # all calls of the chain are candidates for receiving the field's value
                calls.append(dd[2])
                a0 = dd[2]["args"][0] if dd[2]["args"] else None
                if a0 is not None and a0.get("k") in ("copy", "move") and a0["place"]["l"] not in seen:
                    seen.add(a0["place"]["l"])
                    work.extend(defs.of(a0["place"]["l"]))
            else:
                ops, pl = _ops(dd[4])
                for l2 in ([pl] if pl is not None else []) + [o["place"]["l"] for o in ops if o.get("k") in ("copy", "move")]:
                    if l2 not in seen:
                        seen.add(l2)
                        work.extend(defs.of(l2))
        if not calls:
            return False
        for (fname, fty) in via:
            ok = False
            for t in calls:
                for a in t["args"]:
                    if a.get("k") not in ("copy", "move") or a["place"].get("t") != fty:
                        continue
                    lv = set()
                    leaves(b, defs, a["place"]["l"], 0, lv, set())
                    if not (lv & assigned):
                        ok = True
            if not ok:
                return False
    return True


def callee_name(t):
    from facts import callee
    return callee(t)[2]


def census(F, scopes):
    hits = []
    n_loops = 0
    n_cands = 0
    for b in F.bodies:
        if b.get("exp") or "_serde" in b.path or not any(s in b.path for s in scopes):
            continue
        loops, dom = natural_loops(b)
        if not loops:
            continue
        defs = Defs(b)
        useblocks = defaultdict(set)
        for bi, blk in enumerate(b.blocks):
            for st in blk["stmts"]:
                ops, pl = _ops(st["rv"])
                if pl is not None:
                    useblocks[pl].add(bi)
                for o in ops:
                    if o.get("k") in ("copy", "move"):
                        useblocks[o["place"]["l"]].add(bi)
            t = blk["term"]
            if t["k"] == "call":
                for a in t["args"]:
                    if a.get("k") in ("copy", "move"):
                        useblocks[a["place"]["l"]].add(bi)
            elif t["k"] == "switch" and t["op"].get("k") in ("copy", "move"):
                useblocks[t["op"]["place"]["l"]].add(bi)
        for hdr, body in loops.items():
            n_loops += 1
            assigned = set()
            for l in range(1, len(b.locals)):
                if not (b.lname(l) or l <= b["arg_count"]):
                    continue
                if any(d[1] in body for d in defs.whole(l)):
                    assigned.add(l)
                    continue
                for bi in body:
                    for st in b.blocks[bi]["stmts"]:
                        if st["rv"]["k"] == "ref" and st["rv"].get("mut") and st["rv"]["place"]["l"] == l:
                            assigned.add(l)
                        # store through a `&mut` parameter / local: `*rho = ..`, `(*rho)[i] = ..`
                        if st["place"]["l"] == l and "*" in st["place"]["p"]:
                            assigned.add(l)
            if not assigned:
                continue
            for l in range(b["arg_count"] + 1, len(b.locals)):
                nm = b.lname(l)
                if not nm:
                    continue
                ds = defs.whole(l)
                if len(ds) != 1:
                    continue
                d = ds[0]
                if d[1] in body or d[1] not in dom.get(hdr, set()):
                    continue
                if not (useblocks[l] & body):
                    continue
                n_cands += 1
                out = set()
                fields = {}
                if d[0] == "call":
                    for a in d[2]["args"]:
                        if a.get("k") in ("copy", "move"):
                            leaves(b, defs, a["place"]["l"], 0, out, set(), fields, _field_of(a["place"]))
                    span = d[2]["span"]
                else:
                    ops, pl = _ops(d[4])
                    if pl is not None:
                        leaves(b, defs, pl, 0, out, set(), fields, _field_of(d[4]["place"]))
                    for o in ops:
                        if o.get("k") in ("copy", "move"):
                            leaves(b, defs, o["place"]["l"], 0, out, set(), fields, _field_of(o["place"]))
                    span = b.blocks[d[1]]["stmts"][d[2]].get("span", b.file_line())
                out.discard(l)
                whole = {x for x in out if any(dd[1] in body for dd in defs.whole(x))}
                stale = {x for x in out & assigned
                         if not (fields.get(x) == {SHAPE_ONLY} and x not in whole)       # `0..x.len()` while the loop writes elements of x
                         and not _field_kept(b, defs, x, fields.get(x, {None}) - {SHAPE_ONLY}, body, assigned)}
                if stale:
                    hits.append(dict(fn=b.path, name=nm, frm=sorted(b.lname(x) or "_%d" % x for x in stale), span=span))
    return hits, n_loops, n_cands


def run(F, scopes, rule_id="R26"):
    r = RuleResult(rule_id, "STALE-HOIST: values computed before a loop from loop-variant variables are not read in the loop")
    with open(os.path.join(HERE, "..", "tables", "r26.toml"), "rb") as f:
        table = tomllib.load(f).get("initial", [])
    hits, n_loops, n_cands = census(F, scopes)
    seen = set()
    for h in hits:
        key = (h["fn"], h["name"])
        if key in seen:
            continue
        seen.add(key)
        row = [t for t in table if h["fn"].endswith(t["fn"]) and t["name"] == h["name"]]
        iid = "stale|%s|%s" % (h["fn"], h["name"])
        if row:
            r.inst(iid, h["span"], "exempt", reason=row[0]["why"], from_=h["frm"])
        else:
            r.inst(iid, h["span"], "violation", from_=h["frm"])
            r.fail(iid, h["span"],
                   "%s: `%s` is computed before the loop from %s, which the loop re-assigns, and is read inside the loop: from the second "
                   "iteration on it is stale (a hoisted 'loop-invariant' that is not invariant) — not one of the reviewed initial-value uses"
                   % (h["fn"], h["name"], ", ".join("`%s`" % x for x in h["frm"])))
    r.inst("stale|census", "-", "ok", loops=n_loops, hoisted_values_read_in_loops=n_cands, nontrivial=n_cands > 0)
    r.floor("loops examined", n_loops, 1)
    r.exhaustive = True
    r.blind.append("variables changed only through a callee that receives them by shared reference with interior mutability are not seen (R9: there is none besides the cache)")
    return [r]
