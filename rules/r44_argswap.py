"""R44 ARG-SWAP — two same-typed arguments are not passed in exchanged positions.

Model code passes bundles of same-typed values (`&d_hs_ij, &d_hs_add_ij`, `zeta, x0, x0_eff`, `rep, att`, `temperature, n2, n3i`)
to helper functions; the compiler cannot tell them apart.  On the reviewed tree 295 pairs of same-typed parameters receive,
at their call sites, variables (or fields) that carry exactly the parameter's own name.  The rule reports the exact swap:
argument i is a variable named like parameter j *and* argument j is a variable named like parameter i (i != j, same
type).  Expected count on a correct tree: zero.  (One-sided name coincidences — `interp_symmetric(vle, ..)` — are not
judged; the census of swap-detectable pairs is the instance count.)"""
from cfg import Defs
from facts import callee
from report import RuleResult


def _argname(b, defs, op, depth=0):
    if op.get("k") not in ("copy", "move") or depth > 6:
        return None
    pl = op["place"]
    l = pl["l"]
    projs = [p for p in pl["p"] if p != "*"]
    if projs:
        last = projs[-1]
        if isinstance(last, dict) and last.get("n"):
            return last["n"]
        return None
    n = b.lname(l)
    if n and n not in ("val", "residual"):
        return n
    ds = defs.of(l)
    if len(ds) != 1:
        return None
    d = ds[0]
    if d[0] == "stmt":
        rv = d[4]
        if rv["k"] in ("use", "cast"):
            return _argname(b, defs, rv["op"], depth + 1)
        if rv["k"] == "ref":
            return _argname(b, defs, {"k": "copy", "place": rv["place"]}, depth + 1)
        return None
    t = d[2]
    if callee(t)[2] in ("clone", "deref", "borrow", "as_ref", "to_owned", "view") and t["args"]:
        return _argname(b, defs, t["args"][0], depth + 1)
    return None


def run(F, scopes=None):
    r = RuleResult("R44", "ARG-SWAP: same-typed arguments are not passed in exchanged positions")
    pairs = 0
    for b in F.bodies:
        if "::tests::" in b.path or "::test::" in b.path:
            continue
        if scopes and not any(s in b.path for s in scopes):
            continue
        defs = None
        for bi, t in b.calls():
            cb = F.callee_body(t)
            if cb is None:
                continue
            ac = cb["arg_count"]
            if len(t["args"]) != ac or ac < 2:
                continue
            pn = [cb.lname(i + 1) for i in range(ac)]
            pt = [(cb.lty(i + 1) or {}).get("s") for i in range(ac)]
            defs = defs or Defs(b)
            an = [_argname(b, defs, a) for a in t["args"]]
            for i in range(ac):
                for j in range(i + 1, ac):
                    if pt[i] != pt[j] or not pn[i] or not pn[j] or pn[i] == pn[j] or pn[i] == "self" or pn[j] == "self":
                        continue
                    if an[i] == pn[i] and an[j] == pn[j]:
                        pairs += 1
                    elif an[i] == pn[j] and an[j] == pn[i]:
                        pairs += 1
                        fn = b.path.split("::{closure")[0]
                        iid = "swap|%s|%s(%s<->%s)" % (fn, cb.path.split("::")[-1], pn[i], pn[j])
                        r.inst(iid, t["span"], "violation")
                        r.fail(iid, t["span"],
                               "%s calls `%s` with `%s` in the position of parameter `%s` and `%s` in the position of `%s` (both of type %s): "
                               "the two arguments are exchanged" % (fn, cb.path.split("::")[-1], an[i], pn[i], an[j], pn[j], (pt[i] or "")[:50]))
    r.inst("swap|census", "-", "ok", swap_detectable_pairs=pairs, nontrivial=pairs > 0)
    r.floor("swap-detectable argument pairs", pairs, 1)
    r.exhaustive = True
    return [r]
