"""R50 GUESS-IS-NOT-SPEC — an `initial_*` argument is only ever a starting value.

Public solvers take the *specified* quantity (a `Temperature`, a `Pressure`, a `TPSpec`) next to optional starting
values whose parameter names start with `initial_` (`initial_temperature`, `initial_pressure`, `initial_density`).
The result must reproduce the specification whatever the starting value was (C06: "binary critical points at given
T or p reproduce that T or p"), so a starting value may be handed on only as a starting value:

  for every call from a non-closure function of feos-core to a function whose body is known, an argument that derives
  from an `initial_*` quantity parameter of the caller (through copies, `Option` combinators — `unwrap_or`, `map`,
  `or`, … — and `Some` payload reads) must bind to a callee parameter that is itself named as a starting value (`initial_*`,
  `*_init`, `*guess*`), whenever that callee parameter has the same quantity type.

Receiver positions (`to_reduced(self)`, `map(self, …)`) have a different type or are combinators and are not callee
parameters in this sense.  Instances = (call site, argument) pairs that carry a starting value into a same-typed
parameter; floor counted by hand on the pinned tree."""
from cfg import Defs
from facts import callee
from report import RuleResult

COMBINATORS = ("unwrap_or", "unwrap_or_else", "map", "cloned", "copied", "clone", "as_ref", "deref", "unwrap",
               "unwrap_or_default", "into", "map_or", "and_then", "or", "or_else", "expect", "branch", "from_residual")
QUANTITIES = ("Temperature", "Pressure", "Density")


def _qty(ty):
    """quantity kind of a (possibly Option-wrapped / borrowed) parameter type string, or None"""
    s = ty.replace("&", "").strip()
    if s.startswith("std::option::Option<") or s.startswith("core::option::Option<") or s.startswith("Option<"):
        s = s[s.index("<") + 1:-1]
    # quantity::Quantity<f64, SIUnit<...>> is printed through its alias only sometimes; compare the full string
    return s if "Quantity<f64" in s or any(s.endswith(q) for q in QUANTITIES) else None


def _derives(b, defs, start, targets):
    seen = set()
    work = [start]
    while work and len(seen) < 200:
        l = work.pop()
        if l in seen:
            continue
        seen.add(l)
        if l in targets:
            return l
        for d in defs.of(l):
            if d[0] == "call":
                if callee(d[2])[2] in COMBINATORS:
                    for x in d[2]["args"]:
                        if x.get("k") in ("copy", "move"):
                            work.append(x["place"]["l"])
            else:
                rv = d[4]
                if rv["k"] in ("use", "cast") and rv["op"].get("k") in ("copy", "move"):
                    work.append(rv["op"]["place"]["l"])
                elif rv["k"] == "ref":
                    work.append(rv["place"]["l"])
                elif rv["k"] == "aggregate":
                    for x in rv.get("ops", []):
                        if x.get("k") in ("copy", "move"):
                            work.append(x["place"]["l"])
    return None


def run(F, floor=12):
    r = RuleResult("R50", "GUESS-IS-NOT-SPEC: a value derived from an `initial_*` parameter binds only to `initial_*` parameters of the same quantity type")
    n = 0
    nfun = 0
    for b in F.bodies:
        if b.is_closure() or "::tests::" in b.path or not b.path.startswith("feos_core::"):
            continue
        guesses = {}
        for i in range(1, b["arg_count"] + 1):
            nm = b.lname(i) or ""
            q = _qty(b.lty(i)["s"])
            if nm.startswith("initial_") and q:
                guesses[i] = q
        if not guesses:
            continue
        nfun += 1
        defs = Defs(b)
        for bi, t in b.calls():
            cb = F.callee_body(t)
            if cb is None or cb["arg_count"] != len(t["args"]):
                continue
            cname = cb.path.split("::")[-1]
            for ai, a in enumerate(t["args"]):
                if a.get("k") not in ("copy", "move"):
                    continue
                pq = _qty(cb.lty(ai + 1)["s"])
                if pq is None:
                    continue
                g = _derives(b, defs, a["place"]["l"], guesses)
                if g is None or guesses[g] != pq:
                    continue
                n += 1
                pn = cb.lname(ai + 1) or "?"
                fn = b.path.split("::")[-1]
                key = "guessspec|%s|%s|%s" % (fn, cname, pn)
                if "init" in pn or "guess" in pn:
                    r.inst(key, t["span"], "ok")
                else:
                    r.fail(key, t["span"],
                           "%s: the starting value `%s` is passed to `%s` as its parameter `%s`, which is a specification, "
                           "not a starting value — the result would follow the guess instead of the specified quantity"
                           % (fn, b.lname(g), cname, pn))
    # (b) forwarded guesses: an optional quantity parameter (whatever its name) that a function hands to a starting-value
    #     parameter of a callee is a guess; in that function it may be forwarded, tested for presence and unpacked, nothing else
    #     (`PhaseDiagram::pure(.., critical_temperature, ..)` forwards it to `State::critical_point`; laying out the temperature
    #     grid up to `critical_temperature.unwrap_or(sc.temperature)` makes the diagram depend on the estimate)
    nfw = 0
    for b in F.bodies:
        if b.is_closure() or "::tests::" in b.path or not b.path.startswith("feos_core::") or "::python::" in b.path:
            continue
        cands = {}
        for i in range(1, b["arg_count"] + 1):
            ty = b.lty(i)["s"]
            if ty.startswith(("std::option::Option<", "core::option::Option<")) and _qty(ty) and not (b.lname(i) or "").startswith("initial_"):
                cands[i] = _qty(ty)
        if not cands:
            continue
        defs = Defs(b)
        for p_, q in cands.items():
            derived = {p_}
            forwarded = []
            other = []
            changed = True
            while changed:
                changed = False
                for bi, si, st in b.stmts():
                    rv = st["rv"]
                    ops = []
                    if rv["k"] in ("use", "cast"):
                        ops = [rv["op"]]
                    elif rv["k"] in ("ref", "discr"):
                        ops = [{"k": "copy", "place": rv["place"]}]
                    hit = [o for o in ops if o.get("k") in ("copy", "move") and o["place"]["l"] in derived]
                    if hit and rv["k"] != "discr" and not st["place"]["p"] and st["place"]["l"] not in derived:
                        derived.add(st["place"]["l"])
                        changed = True
                for bi, t in b.calls():
                    if callee(t)[2] in COMBINATORS and any(a.get("k") in ("copy", "move") and a["place"]["l"] in derived for a in t["args"]) \
                            and not t["dest"]["p"] and t["dest"]["l"] not in derived:
                        derived.add(t["dest"]["l"])
                        changed = True
            for bi, t in b.calls():
                nm = callee(t)[2]
                for ai, a in enumerate(t["args"]):
                    if a.get("k") not in ("copy", "move") or a["place"]["l"] not in derived:
                        continue
                    if nm in COMBINATORS or nm in ("is_some", "is_none", "drop"):
                        continue
                    cb = F.callee_body(t)
                    pn = (cb.lname(ai + 1) or "") if cb is not None and cb["arg_count"] == len(t["args"]) else ""
                    if "init" in pn or "guess" in pn:
                        forwarded.append((t, pn))
                    else:
                        other.append((t["span"], "%s(.. %s ..)" % (nm, pn or "#%d" % (ai + 1))))
            for bi, si, st in b.stmts():
                rv = st["rv"]
                if rv["k"] in ("binop", "unop", "agg"):
                    ops = [rv.get("a"), rv.get("b")] if rv["k"] != "agg" else rv["ops"]
                    if rv["k"] == "agg" and rv["kind"].get("variant") in ("Some", "Ok"):
                        continue
                    if any(o and o.get("k") in ("copy", "move") and o["place"]["l"] in derived for o in ops):
                        other.append((st.get("span", b.file_line()), rv["k"]))
            if not forwarded:
                continue
            nfw += 1
            fn = b.path.split("::")[-1]
            key = "guessspec|forwarded|%s|%s" % (fn, b.lname(p_))
            if other:
                r.inst(key, other[0][0], "violation")
                r.fail(key, other[0][0],
                       "%s: `%s` is only a starting value (it is forwarded to %s as `%s`), but it is also used in %s — the result "
                       "depends on the estimate instead of on the converged quantity" % (
                           fn, b.lname(p_), callee(forwarded[0][0])[2], forwarded[0][1], other[0][1]))
            else:
                r.inst(key, forwarded[0][0]["span"], "ok", forwarded_to=callee(forwarded[0][0])[2])
    r.floor("R50 forwarded optional guesses", nfw, 9)
    r.floor("R50 functions with an initial_* quantity parameter", nfun, floor)
    r.floor("R50 starting values handed on", n, 8)
    return r
