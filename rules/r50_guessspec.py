"""R50 GUESS-IS-NOT-SPEC — an `initial_*` argument is only ever a starting value.

Public solvers take the *specified* quantity (a `Temperature`, a `Pressure`, a `TPSpec`) next to optional starting
values whose parameter names start with `initial_` (`initial_temperature`, `initial_pressure`, `initial_density`).
The result must reproduce the specification whatever the starting value was (C06: "binary critical points at given
T or p reproduce that T or p"), so a starting value may be handed on only as a starting value:

  for every call from a non-closure function of feos-core to a function whose body is known, an argument that derives
  from an `initial_*` quantity parameter of the caller (through copies, `Option` combinators — `unwrap_or`, `map`,
  `or`, … — and `Some` payload reads) must bind to a callee parameter that is itself named as a starting value (`initial_*`,
  `*_init`, `*guess*`), whenever that callee parameter has the same quantity type.

Receiver positions (`to_reduced(self)`, `map(self, …)`) have a different type or are combinators and are not callee
parameters in this sense.  Instances = (call site, argument) pairs that carry a starting value into a same-typed
parameter; floor counted by hand on the pinned tree."""
from cfg import Defs
from facts import callee
from report import RuleResult

COMBINATORS = ("unwrap_or", "unwrap_or_else", "map", "cloned", "copied", "clone", "as_ref", "deref", "unwrap",
               "unwrap_or_default", "into", "map_or", "and_then", "or", "or_else", "expect", "branch", "from_residual")
QUANTITIES = ("Temperature", "Pressure", "Density")


def _qty(ty):
    """quantity kind of a (possibly Option-wrapped / borrowed) parameter type string, or None"""
    s = ty.replace("&", "").strip()
    if s.startswith("std::option::Option<") or s.startswith("core::option::Option<") or s.startswith("Option<"):
        s = s[s.index("<") + 1:-1]
    # quantity::Quantity<f64, SIUnit<...>> is printed through its alias only sometimes; compare the full string
    return s if "Quantity<f64" in s or any(s.endswith(q) for q in QUANTITIES) else None


def _derives(b, defs, start, targets):
    seen = set()
    work = [start]
    while work and len(seen) < 200:
        l = work.pop()
        if l in seen:
            continue
        seen.add(l)
        if l in targets:
            return l
        for d in defs.of(l):
            if d[0] == "call":
                if callee(d[2])[2] in COMBINATORS:
                    for x in d[2]["args"]:
                        if x.get("k") in ("copy", "move"):
                            work.append(x["place"]["l"])
            else:
                rv = d[4]
                if rv["k"] in ("use", "cast") and rv["op"].get("k") in ("copy", "move"):
                    work.append(rv["op"]["place"]["l"])
                elif rv["k"] == "ref":
                    work.append(rv["place"]["l"])
                elif rv["k"] == "aggregate":
                    for x in rv.get("ops", []):
                        if x.get("k") in ("copy", "move"):
                            work.append(x["place"]["l"])
    return None


def run(F, floor=12):
    r = RuleResult("R50", "GUESS-IS-NOT-SPEC: a value derived from an `initial_*` parameter binds only to `initial_*` parameters of the same quantity type")
    n = 0
    nfun = 0
    for b in F.bodies:
        if b.is_closure() or "::tests::" in b.path or not b.path.startswith("feos_core::"):
            continue
        guesses = {}
        for i in range(1, b["arg_count"] + 1):
            nm = b.lname(i) or ""
            q = _qty(b.lty(i)["s"])
            if nm.startswith("initial_") and q:
                guesses[i] = q
        if not guesses:
            continue
        nfun += 1
        defs = Defs(b)
        for bi, t in b.calls():
            cb = F.callee_body(t)
            if cb is None or cb["arg_count"] != len(t["args"]):
                continue
            cname = cb.path.split("::")[-1]
            for ai, a in enumerate(t["args"]):
                if a.get("k") not in ("copy", "move"):
                    continue
                pq = _qty(cb.lty(ai + 1)["s"])
                if pq is None:
                    continue
                g = _derives(b, defs, a["place"]["l"], guesses)
                if g is None or guesses[g] != pq:
                    continue
                n += 1
                pn = cb.lname(ai + 1) or "?"
                fn = b.path.split("::")[-1]
                key = "guessspec|%s|%s|%s" % (fn, cname, pn)
                if "init" in pn or "guess" in pn:
                    r.inst(key, t["span"], "ok")
                else:
                    r.fail(key, t["span"],
                           "%s: the starting value `%s` is passed to `%s` as its parameter `%s`, which is a specification, "
                           "not a starting value — the result would follow the guess instead of the specified quantity"
                           % (fn, b.lname(g), cname, pn))
    r.floor("R50 functions with an initial_* quantity parameter", nfun, floor)
    r.floor("R50 starting values handed on", n, 8)
    return r
