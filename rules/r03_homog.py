"""R3 HOMOG — homogeneity-degree typing of every Helmholtz-energy contribution.

Abstract interpretation over MIR with the domain  Z (literal zero) | E(d), d rational (E(0) = intensive "I") | T (unknown).
Only `StateHD.volume` and `StateHD.moles` are extensive (degree 1); `temperature`, `molefracs`, `partial_density`
are degree 0 — *checked* on StateHD::new.  Every function of degree-0 inputs is degree 0, so only values derived from
volume / moles need transfer functions: Mul adds, Div subtracts, Add/Sub need equal degrees, powi(k) multiplies, sqrt halves,
transcendental functions map I -> I and E -> T, higher-order ndarray / iterator functions take the degree of their closure.

Obligation: every (name, value) pair that an implementation of Residual::residual_helmholtz_energy_contributions returns,
the override PengRobinson::residual_helmholtz_energy, IdealGas::ideal_gas_helmholtz_energy and
FunctionalContribution::helmholtz_energy (bulk) have degree exactly 1.
Verdicts: proven (E(1) or Z) | undecided (T; listed, never an alarm) | violated (definite degree != 1, or I +/- E(d))."""
from fractions import Fraction

from cfg import Defs, strip_place
from facts import callee
from report import RuleResult

I = Fraction(0)
ONE = Fraction(1)
Z = "Z"
T = None
STATE = "STATE"


def show(d):
    if d is T:
        return "T"
    if d == Z:
        return "Z"
    if d == STATE:
        return "STATE"
    if isinstance(d, tuple):
        return "(" + ",".join(show(x) for x in d) + ")"
    return "E(%s)" % d if d != 0 else "I"


def join(a, b):
    if a == "BOT":
        return b
    if b == "BOT":
        return a
    if a == b:
        return a
    if a == Z:
        return b
    if b == Z:
        return a
    return T


def add_deg(a, b):
    """a * b"""
    if a == Z or b == Z:
        return Z
    if a is T or b is T or a == STATE or b == STATE:
        return T
    return a + b


def sub_deg(a, b):
    """a / b"""
    if a == Z:
        return Z
    if b == Z:
        return Z if a in (Z, I) else T
    if a is T or b is T or a == STATE or b == STATE:
        return T
    return a - b


SAME = {"from", "clone", "deref", "deref_mut", "borrow", "borrow_mut", "to_owned", "into", "as_ref", "as_mut", "view", "view_mut", "re", "neg",
        "sum", "to_vec", "into_owned", "abs", "index", "index_mut", "iter", "into_iter", "iter_mut", "insert_axis", "index_axis", "slice", "t",
        "reversed_axes", "into_shape", "to_shape", "remove_axis", "outer_iter", "axis_iter", "rev", "copied", "cloned", "sum_axis", "first", "last",
        "unwrap", "expect", "max", "min", "next", "next_back", "peekable", "by_ref", "as_array", "as_mut_slice", "mean", "signum_free", "branch", "from_output", "into_dimensionality", "into_dyn", "row", "column", "diag",
        "lanes", "rows", "columns", "mul_add_free", "as_slice", "into_raw_vec", "collect", "from_vec", "from_iter", "arr1", "into_value", "to_reduced", "scalar_sum"}
TRANSC = {"ln", "exp", "ln_1p", "exp_m1", "sin", "cos", "tan", "sinh", "cosh", "tanh", "asin", "acos", "atan", "log", "log10", "log2", "powd", "erf"}
HIGHER = {"mapv", "map", "mapv_into", "map_inplace", "mapv_inplace", "from_shape_fn", "from_fn", "filter_map", "flat_map", "fold", "for_each", "map_or", "map_or_else", "and_then", "unwrap_or_else"}


class Engine:
    def __init__(self, F):
        self.F = F
        self.memo = {}
        self.stack = set()
        self.mismatch = []      # definite I +/- E events: (fn path, span, degs)
        self.unmodelled = {}    # callee name -> count (why something became T)
        # "euler": degrees under (V, N) -> (l V, l N).  "order": vanishing order in the density at fixed T, V, x
        # (partial_density, moles of order 1): sums take the smaller order, and operations that are singular for a
        # vanishing operand (division, recip, ln, roots, negative powers) are recorded in self.singular
        self.mode = "euler"
        self.state_fields = {"volume": ONE, "moles": ONE}
        self.param_fields = {}   # (mode "length"): field name of a *Parameters / *Properties struct -> degree
        self.singular = []      # (fn path, span, operation, order of the operand)

    # -------------------------------------------------------- per body
    def analyse(self, body, arg_degs, upvars=None):
        """returns degree of the return value given degrees of the arguments (list aligned with locals 1..n)"""
        key = (self.mode, body.path, tuple(show(x) for x in arg_degs), tuple(sorted((k, show(v)) for k, v in (upvars or {}).items())))
        if key in self.memo:
            return self.memo[key]
        if key in self.stack:
            return T
        self.stack.add(key)
        b = body
        defs = Defs(b)
        n = len(b.locals)
        deg = ["BOT"] * n
        for i, d in enumerate(arg_degs, start=1):
            if i < n:
                deg[i] = d
        # integer / bool typed locals are always intensive
        is_int = [b.lty(l)["k"] in ("int", "bool", "unit", "char", "str") for l in range(n)]
        upvars = upvars or {}
        local_mismatch = []
        join_mismatch = []       # not cleared between fixpoint rounds: after the first round the variable is already T

        def place_deg(pl):
            l = pl["l"]
            base = deg[l]
            cur = base
            if b.is_closure() and l == 1:
                # upvar access
                cur = None
                for p in pl["p"]:
                    if isinstance(p, dict) and "f" in p and cur is None:
                        cur = upvars.get(p["f"], I)
                        continue
                    if cur is not None:
                        cur = proj(cur, p)
                return I if cur is None else cur
            for p in pl["p"]:
                cur = proj(cur, p)
            ty = b.pty(pl)
            if ty["k"] in ("int", "bool", "unit", "char", "str"):
                return I
            return cur

        def proj(cur, p):
            if p == "*":
                return cur
            if isinstance(p, dict) and "f" in p:
                if cur == STATE:
                    if (p.get("o") or "").endswith("StateHD"):
                        return self.state_fields.get(p["n"], I)
                    return T
                if isinstance(cur, tuple):
                    return cur[p["f"]] if p["f"] < len(cur) else T
                if self.param_fields and p.get("n") in self.param_fields and cur == I:
                    return self.param_fields[p["n"]]
                return cur
            return cur      # index / downcast keep the element degree

        order = self.mode == "order"

        def definite_pos(d):
            return d not in (Z, T, STATE, "BOT") and not isinstance(d, tuple) and d > 0

        def sing(span, what, d):
            if order and definite_pos(d):
                ev = (b.path, span, what, show(d))
                if ev not in self.singular:
                    self.singular.append(ev)

        def op_deg(o):
            k = o.get("k")
            if k == "const":
                if o.get("f") is not None:
                    try:
                        if float(o["f"]) == 0.0:
                            return Z
                    except ValueError:
                        pass
                return I
            if k in ("copy", "move"):
                d = place_deg(o["place"])
                return I if d == "BOT" else d
            return I

        def setl(l, d, pl=None):
            if is_int[l]:
                d = I
            old_ = deg[l]
            if old_ not in ("BOT", Z, T, STATE, I) and d not in ("BOT", Z, T, STATE, I) and not isinstance(old_, tuple) and not isinstance(d, tuple) \
                    and old_ != d and l == 0 or (old_ not in ("BOT", Z, T, STATE, I) and d not in ("BOT", Z, T, STATE, I)
                                                 and not isinstance(old_, tuple) and not isinstance(d, tuple) and old_ != d and b.lname(l)):
                # one variable holds quantities of two different, definite, non-zero homogeneity degrees on different paths
                # (`result = a / (b * V)` on one arm, `result = c * V` on the other): neither can be "the" extensive value
                ev = (b.path, b.file_line(), show(old_), show(d))
                if ev not in join_mismatch:
                    join_mismatch.append(ev)
            nd = join(deg[l], d)
            if nd != deg[l]:
                deg[l] = nd
                return True
            return False

        def store(pl, d):
            """assignment to a place: through a deref, into the pointee roots"""
            ch = False
            if "*" in pl["p"]:
                for base in ref_bases(pl["l"]):
                    ch |= setl(base, d)
            fields = [p for p in pl["p"] if isinstance(p, dict) and "f" in p]
            if fields and isinstance(deg[pl["l"]], tuple):
                tup = list(deg[pl["l"]])
                i = fields[0]["f"]
                if i < len(tup):
                    tup[i] = join(tup[i], d)
                    if tuple(tup) != deg[pl["l"]]:
                        deg[pl["l"]] = tuple(tup)
                        ch = True
                return ch
            ch |= setl(pl["l"], d)
            return ch

        def ref_bases(l, depth=0):
            out = set()
            if depth > 12:
                return out
            for d in defs.of(l):
                if d[0] == "stmt":
                    rv = d[4]
                    if rv["k"] in ("ref", "rawptr"):
                        if "*" in rv["place"]["p"]:
                            out |= ref_bases(rv["place"]["l"], depth + 1)
                        else:
                            out.add(rv["place"]["l"])
                            # an iterator adaptor value (zip(iter_mut(&mut x), ..)) holds borrows of its sources
                            hs = b.lty(rv["place"]["l"])["s"]
                            if "iter::" in hs or "Iter" in hs or "Zip" in hs or hs.startswith("&"):
                                out |= ref_bases(rv["place"]["l"], depth + 1)
                    elif rv["k"] in ("use", "cast") and rv["op"].get("k") in ("copy", "move"):
                        out |= ref_bases(rv["op"]["place"]["l"], depth + 1)
                else:
                    t = d[2]
                    for a_ in t["args"][:2]:
                        if a_.get("k") in ("copy", "move") and not is_int[a_["place"]["l"]]:
                            out |= ref_bases(a_["place"]["l"], depth + 1)
            return out

        def closure_of(o):
            ty = b.opty(o)
            if not ty:
                return None
            k = ty["k"]
            for pre in ("closure:", "ref:closure:", "refmut:closure:"):
                if k.startswith(pre):
                    return k[len(pre):]
            return None

        def closure_upvars(o):
            """degrees of the captures of a closure operand (from its aggregate in this body)"""
            if o.get("k") not in ("copy", "move"):
                return {}
            l = o["place"]["l"]
            for _ in range(4):
                ds = defs.of(l)
                if len(ds) == 1 and ds[0][0] == "stmt":
                    rv = ds[0][4]
                    if rv["k"] == "agg" and rv["kind"].get("t") == "closure":
                        return {i: op_deg(x) for i, x in enumerate(rv["ops"])}
                    if rv["k"] in ("use",) and rv["op"].get("k") in ("copy", "move"):
                        l = rv["op"]["place"]["l"]
                        continue
                    if rv["k"] == "ref":
                        l = rv["place"]["l"]
                        continue
                break
            return {}

        def call_closure(cpath, ups, param_degs):
            cb = self.F.body(cpath)
            if cb is None:
                return T
            nargs = cb["arg_count"]
            args = [I] * nargs
            # local 1 is the closure itself; params follow
            for i, d in enumerate(param_degs):
                if 1 + i < nargs:
                    args[1 + i] = d
            return self.analyse(cb, args, ups)

        def call_deg(t):
            p, tr, name = callee(t)
            args = t["args"]
            ad = [op_deg(a) for a in args]
            span = t["span"]
            if name in ("mul",) and tr == "std::ops::Mul":
                return add_deg(ad[0], ad[1])
            if name == "div" and tr == "std::ops::Div":
                sing(span, "division by", ad[1])
                return sub_deg(ad[0], ad[1])
            if name in ("add", "sub") and tr in ("std::ops::Add", "std::ops::Sub"):
                a, c = ad
                if a == Z:
                    return c
                if c == Z:
                    return a
                if a is T or c is T or a == STATE or c == STATE:
                    return T
                if a == c:
                    return a
                if order and not isinstance(a, tuple) and not isinstance(c, tuple):
                    return min(a, c)
                local_mismatch.append((b.path, span, show(a), show(c)))
                return T
            if name in ("mul_assign", "div_assign") and tr in ("std::ops::MulAssign", "std::ops::DivAssign"):
                y = ad[1]
                for base in ref_bases(args[0]["place"]["l"]) if args[0].get("k") in ("copy", "move") else ():
                    cur = deg[base]
                    if y == I or y == Z and name == "mul_assign":
                        continue
                    setl(base, T)
                return I
            if name in ("add_assign", "sub_assign") and tr in ("std::ops::AddAssign", "std::ops::SubAssign"):
                y = ad[1]
                for base in ref_bases(args[0]["place"]["l"]) if args[0].get("k") in ("copy", "move") else ():
                    cur = deg[base]
                    if cur not in ("BOT", Z, T) and y not in (Z, T) and cur != y and cur != STATE and y != STATE:
                        if order and not isinstance(cur, tuple) and not isinstance(y, tuple):
                            # the accumulated sum has the smaller order; the lattice join would lose it: keep unknown
                            setl(base, T)
                            continue
                        local_mismatch.append((b.path, span, show(cur), show(y)))
                        setl(base, T)
                    else:
                        setl(base, y)
                return I
            if name == "neg":
                return ad[0]
            if b.pty(t["dest"])["k"] in ("bool", "int", "unit", "char", "str"):
                return I
            if name == "recip":
                sing(span, "reciprocal of", ad[0])
                # monotone in the lattice: Z (no information yet / literal zero) must not jump to T
                return sub_deg(I, ad[0]) if ad[0] != Z else Z
            if name in ("powi", "powf"):
                k = args[1]
                if ad[0] == Z or ad[0] == I:
                    return ad[0]
                for _ in range(4):
                    # exponent bound to a local first (`let a = 1.2187; x.powf(a)`)
                    if not (k.get("k") in ("copy", "move") and not k["place"]["p"]):
                        break
                    ds_ = defs.of(k["place"]["l"])
                    if len(ds_) == 1 and ds_[0][0] == "stmt" and ds_[0][4]["k"] == "use":
                        k = ds_[0][4]["op"]
                    else:
                        break
                if k.get("k") == "const":
                    try:
                        kv = Fraction(k["i"]) if "i" in k else Fraction(float(k["f"])).limit_denominator(1000)
                        if kv < 0 or kv.denominator != 1:
                            sing(span, "power %s of" % kv, ad[0])
                        return ad[0] * kv if ad[0] not in (T, STATE) else T
                    except Exception:
                        return T
                return T
            if name == "sqrt":
                sing(span, "square root of", ad[0])
                return ad[0] / 2 if ad[0] not in (T, Z, STATE) else ad[0]
            if name == "cbrt":
                sing(span, "cube root of", ad[0])
                return ad[0] / 3 if ad[0] not in (T, Z, STATE) else ad[0]
            if name in TRANSC:
                if all(x in (I, Z) for x in ad):
                    return I
                if order:
                    if name in ("ln", "log", "log10", "log2"):
                        sing(span, "logarithm of", ad[0])
                        return T
                    if name in ("exp", "cos", "cosh") and ad and definite_pos(ad[0]):
                        return I            # exp(0) = cos(0) = 1
                    if name in ("sin", "tan", "sinh", "tanh", "exp_m1", "ln_1p", "asin", "atan", "erf") and ad and definite_pos(ad[0]):
                        return ad[0]        # f(x) ~ x
                self.unmodelled[name] = self.unmodelled.get(name, 0) + 1
                return T
            if name == "dot":
                return add_deg(ad[0], ad[1])
            if name == "zero" and not args:
                return Z
            if name in ("zeros",):
                return Z
            if name in ("one", "ones", "from_elem", "eye", "linspace", "len", "shape", "raw_dim", "dim", "ncols", "nrows", "len_of", "is_empty"):
                return I if all(x in (I, Z) for x in ad) else join_all(ad)
            # closures passed to higher-order functions
            clos = [(i, closure_of(a)) for i, a in enumerate(args) if closure_of(a)]
            if clos and name in HIGHER | {"sum", "zip", "and", "indexed_iter", "enumerate", "call_once", "call_mut", "call"}:
                i, cpath = clos[0]
                others = [ad[j] for j in range(len(args)) if j != i]
                elem = join_all([x for x in others]) if others else I
                if name in ("from_shape_fn", "from_fn"):
                    elem_params = [I]
                elif name == "fold":
                    # fold(iter, init, |acc, x|) : degree of acc = join(init, closure result); iterate once
                    init = ad[1] if len(ad) > 2 else I
                    res = call_closure(cpath, closure_upvars(args[i]), [init, ad[0]])
                    return join(init, res)
                else:
                    elem_params = [others[0] if others else I]
                res = call_closure(cpath, closure_upvars(args[i]), elem_params)
                if name in ("for_each", "map_inplace", "mapv_inplace"):
                    return I
                if name in ("map_or", "map_or_else", "unwrap_or_else"):
                    return join_all([res] + [x for x in others[1:]])
                return res
            if name in ("call_once", "call_mut", "call") and tr and tr.startswith("std::ops::Fn"):
                c = closure_of(args[0])
                if c:
                    # arguments are packed in a tuple
                    return call_closure(c, closure_upvars(args[0]), [ad[1]] if len(ad) > 1 else [])
            if name in SAME:
                if not ad:
                    return I
                if name in ("index", "index_mut", "index_axis", "slice", "row", "column"):
                    return ad[0]
                return ad[0]
            # local function with a body: summary
            tb = self.F.callee_body(t)
            if tb is not None:
                if all(x in (I, Z) for x in ad):
                    return I
                return self.analyse(tb, ad)
            if all(x in (I, Z) for x in ad):
                return I
            if name in ("zip", "and", "enumerate", "indexed_iter", "windows", "chunks", "skip", "take", "step_by"):
                return join_all([x for x in ad if x != I]) if any(x not in (I, Z) for x in ad) else I
            self.unmodelled[name or p] = self.unmodelled.get(name or p, 0) + 1
            return T

        def join_all(ds):
            cur = "BOT"
            for d in ds:
                cur = join(cur, d)
            return I if cur == "BOT" else cur

        changed = True
        rounds = 0
        while changed and rounds < 40:
            rounds += 1
            changed = False
            local_mismatch.clear()
            for bi, blk in enumerate(b.blocks):
                if blk["cleanup"]:
                    continue
                for st in blk["stmts"]:
                    pl, rv = st["place"], st["rv"]
                    k = rv["k"]
                    d = None
                    if k in ("use", "cast", "repeat"):
                        d = op_deg(rv["op"])
                    elif k in ("ref", "rawptr"):
                        d = place_deg(rv["place"])
                        d = I if d == "BOT" else d
                    elif k == "binop":
                        a, c = op_deg(rv["a"]), op_deg(rv["b"])
                        op = rv["op"]
                        if rv.get("cmp"):
                            d = I
                        elif op.startswith("Mul"):
                            d = add_deg(a, c)
                        elif op == "Div":
                            sing(st["span"], "division by", c)
                            d = sub_deg(a, c)
                        elif op.startswith("Add") or op.startswith("Sub"):
                            if a == Z:
                                d = c
                            elif c == Z:
                                d = a
                            elif a is T or c is T:
                                d = T
                            elif a == c:
                                d = a
                            elif order and not isinstance(a, tuple) and not isinstance(c, tuple) and a != STATE and c != STATE:
                                d = min(a, c)
                            else:
                                local_mismatch.append((b.path, st["span"], show(a), show(c)))
                                d = T
                        else:
                            d = join(a, c)
                    elif k == "unop":
                        d = op_deg(rv["a"])
                    elif k == "agg":
                        kind = rv["kind"]
                        ods = [op_deg(o) for o in rv["ops"]]
                        if kind.get("t") == "tuple" and ods:
                            d = tuple(ods)
                        elif kind.get("t") == "closure":
                            d = I
                        elif kind.get("t") == "adt" and kind.get("adt", "").endswith("StateHD"):
                            d = STATE
                        else:
                            d = join_all(ods) if ods else I
                    elif k in ("discr", "len"):
                        d = I
                    else:
                        d = I
                    if store(pl, d):
                        changed = True
                t = blk["term"]
                if t["k"] == "call":
                    d = call_deg(t)
                    if store(t["dest"], d):
                        changed = True
        # a literal zero that is mutably borrowed but never seen updated: the analysis lost a mutation -> unknown
        mut_borrowed = set()
        for bi, si, st in b.stmts():
            rv = st["rv"]
            if rv["k"] == "ref" and rv["mut"] and "*" not in rv["place"]["p"]:
                mut_borrowed.add(rv["place"]["l"])
        lost = [l for l in mut_borrowed if deg[l] == Z]
        if lost and not getattr(self, "_pinning", False):
            for l in lost:
                deg[l] = T
            # one more propagation round with the demoted locals
            for _ in range(10):
                ch = False
                for bi, blk in enumerate(b.blocks):
                    if blk["cleanup"]:
                        continue
                    for st in blk["stmts"]:
                        pl, rv = st["place"], st["rv"]
                        if rv["k"] in ("use", "cast", "repeat"):
                            d = op_deg(rv["op"])
                        elif rv["k"] in ("ref", "rawptr"):
                            d = place_deg(rv["place"])
                            d = I if d == "BOT" else d
                        elif rv["k"] == "agg" and rv["kind"].get("t") == "tuple" and rv["ops"]:
                            d = tuple(op_deg(o) for o in rv["ops"])
                        else:
                            continue
                        ch |= store(pl, d)
                    t = blk["term"]
                    if t["k"] == "call":
                        ch |= store(t["dest"], call_deg(t))
                if not ch:
                    break
        ret = deg[0]
        if ret == "BOT":
            ret = I
        for m in local_mismatch + join_mismatch:
            if m not in self.mismatch:
                self.mismatch.append(m)
        if getattr(self, "debug", None) and any(x in b.path for x in self.debug):
            print("DEBUG", b.path, [show(a) for a in arg_degs])
            for l in range(n):
                if deg[l] not in ("BOT", I):
                    print("   _%d %s = %s" % (l, b.lname(l) or "", show(deg[l])))
        self.stack.discard(key)
        self.memo[key] = ret
        return ret


def state_args(b):
    """argument degrees for a function taking &StateHD: STATE for that parameter, I for the rest"""
    out = []
    for l in range(1, b["arg_count"] + 1):
        s = b.lty(l)["s"]
        out.append(STATE if "StateHD<" in s else I)
    return out


def run(F):
    r = RuleResult("R3", "HOMOG: every Helmholtz-energy contribution is first-order homogeneous in (V, N)")
    eng = Engine(F)
    obligations = []     # (id, where, degree, fn path)
    # ---- premise: StateHD::new builds degree-0 temperature / molefracs / partial_density from (T, V, N)
    nb = [b for b in F.bodies if b.path.endswith("state::StateHD::<D>::new")]
    if nb:
        b = nb[0]
        # run the analysis with V, N of degree 1 and read the aggregate's operand degrees
        eng2 = Engine(F)
        args = [I, ONE, ONE]
        # replicate the engine's fixpoint but we need the operand degrees: analyse then re-evaluate the aggregate
        deg_ret = eng2.analyse(b, args)
        # find the aggregate and evaluate operand degrees through a second pass: simplest is to analyse tiny wrappers:
        # the closures moles.mapv(|n| n / volume) etc. are covered; here check the field operand sources structurally
        defs = Defs(b)
        for bi, si, st in b.stmts():
            rv = st["rv"]
            if rv["k"] == "agg" and rv["kind"].get("adt", "").endswith("StateHD"):
                fields = rv["kind"]["fields"]
                want = {"temperature": I, "volume": ONE, "moles": ONE, "molefracs": I, "partial_density": I}
                sub = Engine(F)
                # degrees of locals after analysis are internal; recompute by analysing each operand's defining call
                res = field_degrees(sub, b, args)
                for fname, w in want.items():
                    if fname not in fields:
                        continue
                    got = res.get(fields.index(fname))
                    iid = "premise|StateHD::new.%s" % fname
                    if got == w:
                        r.inst(iid, st["span"], "ok", degree=show(got))
                    elif got is T:
                        r.inst(iid, st["span"], "undecided", degree="T")
                    else:
                        r.inst(iid, st["span"], "violation", degree=show(got))
                        r.fail("premise|StateHD::new|%s" % fname, st["span"], "StateHD::new: field %s has homogeneity degree %s, expected %s" % (fname, show(got), show(w)))
    else:
        r.fail("premise|missing", "-", "StateHD::new not found")

    # ---- obligations: every (String, D) pair built in a function that returns Vec<(String, D)> (the contribution lists of
    #      all models, incl. inherent helpers such as uv-theory's per-implementation lists and evaluate_bulk), plus overrides
    for b in F.bodies:
        if b.is_closure():
            continue
        name = b["name"]
        tr = (b.get("impl_trait") or b.get("in_trait") or "")
        ret = b.lty(0)["s"]
        if ret.startswith("std::vec::Vec<(std::string::String, ") and b.lty(0)["dual"]:
            collect_contributions(F, eng, b, obligations)
        elif name == "residual_helmholtz_energy" and tr.endswith("Residual") and b.get("impl_trait"):
            d = eng.analyse(b, state_args(b))
            obligations.append(("override|%s" % b.path, b.file_line(), d, b.path))
        elif name == "ideal_gas_helmholtz_energy" and tr.endswith("IdealGas"):
            d = eng.analyse(b, state_args(b))
            obligations.append(("idealgas|%s" % b.path, b.file_line(), d, b.path))
        elif name == "helmholtz_energy" and tr.endswith("FunctionalContribution") and not b.get("impl_trait"):
            d = eng.analyse(b, state_args(b))
            obligations.append(("functional-bulk|%s" % b.path, b.file_line(), d, b.path))
        elif name == "helmholtz_energy" and "IdealChainContribution" in b.path:
            d = eng.analyse(b, state_args(b))
            obligations.append(("ideal-chain|%s" % b.path, b.file_line(), d, b.path))
    n_proven = 0
    for iid, where, d, fn in obligations:
        if d == ONE or d == Z:
            n_proven += 1
            r.inst(iid, where, "ok", degree=show(d))
        elif d is T or d == STATE or isinstance(d, tuple):
            r.inst(iid, where, "undecided", degree=show(d))
        else:
            r.inst(iid, where, "violation", degree=show(d))
            r.fail("%s|degree|%s" % (iid, show(d)), where,
                   "%s has homogeneity degree %s in (V, N) — a residual Helmholtz energy must be extensive (degree 1), otherwise the Euler / "
                   "Gibbs-Duhem relations and size-independence of intensive properties fail" % (iid, show(d)))
    for fn, span, a, c in eng.mismatch:
        r.inst("mismatch|%s" % fn, span, "violation", degrees=[a, c])
        r.fail("mismatch|%s|%s+-%s" % (fn, a, c), span, "%s adds/subtracts quantities of different homogeneity degree (%s and %s) at %s" % (fn, a, c, span))
    r.floor("homogeneity obligations", len(obligations), 43)
    r.floor("obligations proven", n_proven, 40)
    r.notes.append("unmodelled operations that produced `unknown`: %s" % dict(sorted(eng.unmodelled.items(), key=lambda kv: -kv[1])[:12]))
    r.blind.append("mix-ups between intensive quantities (partial vs total density, molefracs vs partial density) are invisible: both have degree 0")
    r.exhaustive = True
    return [r]


def is_enum(F, path):
    for c, a in F.items("adts"):
        if a["path"] == path:
            return a["kind"] == "Enum"
    return False


def field_degrees(eng, b, args):
    """degrees of the operands of the StateHD aggregate in StateHD::new (by evaluating the defining calls)"""
    defs = Defs(b)
    out = {}
    # evaluate with a tiny interpreter: reuse Engine by analysing the closures directly
    # temperature: param 1, volume: param 2, moles: param 3
    for bi, si, st in b.stmts():
        rv = st["rv"]
        if rv["k"] == "agg" and rv["kind"].get("adt", "").endswith("StateHD"):
            for i, o in enumerate(rv["ops"]):
                out[i] = trace(eng, b, defs, o, args, 0)
    return out


def trace(eng, b, defs, o, args, depth):
    if depth > 10:
        return T
    if o.get("k") == "const":
        return I
    l, sp = strip_place(o["place"])
    if 1 <= l <= b["arg_count"] and not defs.of(l):
        return args[l - 1]
    ds = defs.of(l)
    cur = "BOT"
    for d in ds:
        if d[0] == "stmt":
            rv = d[4]
            if rv["k"] in ("use", "cast") and rv["op"].get("k") in ("copy", "move"):
                cur = join(cur, trace(eng, b, defs, rv["op"], args, depth + 1))
            elif rv["k"] == "ref":
                cur = join(cur, trace(eng, b, defs, {"k": "copy", "place": rv["place"]}, args, depth + 1))
            else:
                cur = join(cur, T)
        else:
            t = d[2]
            p, tr, name = callee(t)
            ad = [trace(eng, b, defs, a, args, depth + 1) if a.get("k") in ("copy", "move") else I for a in t["args"]]
            if name == "sum":
                cur = join(cur, ad[0])
            elif name == "mapv":
                # closure |n| n / captured
                ty = b.opty(t["args"][1])
                cpath = ty["k"].split("closure:")[-1] if ty and "closure:" in ty["k"] else None
                ups = {}
                for dd in defs.of(t["args"][1]["place"]["l"]):
                    if dd[0] == "stmt" and dd[4]["k"] == "agg":
                        ups = {i: trace(eng, b, defs, x, args, depth + 1) if x.get("k") in ("copy", "move") else I for i, x in enumerate(dd[4]["ops"])}
                cb = eng.F.body(cpath) if cpath else None
                if cb is None:
                    cur = join(cur, T)
                else:
                    a2 = [I] * cb["arg_count"]
                    if cb["arg_count"] >= 2:
                        a2[1] = ad[0]
                    cur = join(cur, eng.analyse(cb, a2, ups))
            else:
                cur = join(cur, T)
    return I if cur == "BOT" else cur


def collect_contributions(F, eng, b, obligations):
    """every (String, D) tuple built in an implementation of residual_helmholtz_energy_contributions:
    the degree of its second component, computed from the callee that produced it"""
    defs = Defs(b)
    bodies = [b] + F.closures_of(b.path)
    found = 0
    for bb in bodies:
        d2 = Defs(bb) if bb is not b else defs
        for bi, si, st in bb.stmts():
            rv = st["rv"]
            if rv["k"] == "agg" and rv["kind"].get("t") == "tuple" and len(rv["ops"]) == 2:
                t0 = bb.opty(rv["ops"][0])
                t1 = bb.opty(rv["ops"][1])
                if not t0 or not t1 or "String" not in t0["s"] or not t1["dual"]:
                    continue
                found += 1
                o = rv["ops"][1]
                d = value_degree(F, eng, bb, d2, o)
                what = producer_name(bb, d2, o)
                obligations.append(("contribution|%s|%s" % (b.path, what), st["span"], d, b.path))


def producer_name(b, defs, o):
    if o.get("k") not in ("copy", "move"):
        return "const"
    l = o["place"]["l"]
    for _ in range(6):
        ds = defs.of(l)
        if not ds:
            return "_%d" % l
        d = ds[0]
        if d[0] == "call":
            p = callee(d[2])[0]
            return p.split("::")[-2] + "::" + p.split("::")[-1] if "::" in p else p
        rv = d[4]
        if rv["k"] == "use" and rv["op"].get("k") in ("copy", "move"):
            l = rv["op"]["place"]["l"]
        else:
            return rv["k"]
    return "_%d" % l


def value_degree(F, eng, b, defs, o):
    """degree of a dual operand inside a contributions body: evaluate the whole body with STATE for the state
    parameter and read the local's degree — done by a throw-away analysis that returns that local"""
    # analyse the body normally (memoised) and then evaluate the producing call with the engine's call logic:
    # simplest faithful way: a synthetic analysis whose `return` is the operand. We emulate by cloning the body dict
    # with an extra statement `_0' = operand` is not possible on facts; instead evaluate producer call directly.
    if o.get("k") not in ("copy", "move"):
        return I
    l = o["place"]["l"]
    comp = [p["f"] for p in o["place"]["p"] if isinstance(p, dict) and "f" in p]
    seen = set()
    d = _value_degree_local(F, eng, b, defs, l, seen)
    for c in comp:
        if isinstance(d, tuple) and c < len(d):
            d = d[c]
    return d


def _value_degree_local(F, eng, b, defs, l, seen):
    while True:
        if l in seen:
            return T
        seen.add(l)
        ds = defs.of(l)
        if len(ds) != 1:
            return T
        d = ds[0]
        if d[0] == "stmt":
            rv = d[4]
            if rv["k"] == "use" and rv["op"].get("k") in ("copy", "move"):
                comp = [p["f"] for p in rv["op"]["place"]["p"] if isinstance(p, dict) and "f" in p]
                if comp:
                    dd = _value_degree_local(F, eng, b, defs, rv["op"]["place"]["l"], seen)
                    for c in comp:
                        if isinstance(dd, tuple) and c < len(dd):
                            dd = dd[c]
                    return dd
                l = rv["op"]["place"]["l"]
                continue
            return T
        t = d[2]
        p, tr, name = callee(t)
        # a `?`/unwrap chain
        if name in ("branch", "unwrap", "expect", "unwrap_or_else", "unwrap_or") and t["args"] and t["args"][0].get("k") in ("copy", "move"):
            l = t["args"][0]["place"]["l"]
            continue
        if name == "mul" and tr == "std::ops::Mul":
            a = value_degree(F, eng, b, defs, t["args"][0])
            c = value_degree(F, eng, b, defs, t["args"][1])
            return add_deg(a, c)
        tb = F.callee_body(t)
        if tb is None:
            # trait method on a generic receiver without a default body
            return T
        args = []
        for i, a in enumerate(t["args"]):
            ty = b.opty(a)
            if ty and "StateHD<" in ty["s"]:
                args.append(STATE)
            else:
                args.append(I)
        return eng.analyse(tb, args)


def delegated(F, eng, b):
    return eng.analyse(b, state_args(b))
