"""R32 VIRIAL-SETUP — the four virial-coefficient getters seed, evaluate and scale consistently.

B(T) = 1/2 d^2(beta A/V)/d rho^2 and C(T) = 1/3 d^3(beta A/V)/d rho^3 at rho = 0, and the two temperature derivatives repeat
the same computation with the temperature seeded one level deeper.  R8 checks *which dual part* each getter reads; this
rule checks the remaining structure that the limit statement of C13 rests on:
 (a) `StateHD::new_virial(t, rho, x)`: temperature is the parameter, the volume is one, partial_density = rho * x,
     moles = partial_density * volume, molefracs = x — so beta A/V of a zero-density state at the right composition is formed;
 (b) the density handed to new_virial carries a unit derivative seed (eps1 = eps2 = 1, or `.derivative()`), the temperature
     carries none in B and C and exactly one (`.derivative()` under `from_re`) in dB/dT and dC/dT;
 (c) sibling agreement of the normalisation: B and dB/dT scale with the same constant, C and dC/dT likewise, and the
     constants are 1/2! and 2!/3! (0.5, divide by 3)."""
from cfg import Defs, provenance
from facts import callee
from report import RuleResult

GETTERS = ("second_virial_coefficient", "third_virial_coefficient", "second_virial_coefficient_temperature_derivative",
           "third_virial_coefficient_temperature_derivative")


def _consts(b):
    out = []
    for bi, si, st in b.stmts():
        rv = st["rv"]
        if rv["k"] == "binop":
            for o in (rv["a"], rv["b"]):
                if o.get("f") is not None:
                    out.append((rv["op"], o["f"]))
    for bi, t in b.calls():
        if callee(t)[2] in ("mul", "div"):
            for a in t["args"]:
                if a.get("f") is not None:
                    out.append((callee(t)[2].capitalize(), a["f"]))
    return sorted(out)


def run(F):
    r = RuleResult("R32", "VIRIAL-SETUP: zero-density state, derivative seeds and normalisation of the virial getters")
    # (a) new_virial
    bs = [x for x in F.bodies if x.path.endswith("StateHD::<D>::new_virial")]
    if not bs:
        r.fail("virial|new_virial|missing", "-", "StateHD::new_virial not found")
    else:
        b = bs[0]
        defs = Defs(b)
        params = {b.lname(i): i for i in range(1, b["arg_count"] + 1)}
        agg = None
        for bi, si, st in b.stmts():
            rv = st["rv"]
            if st["place"]["l"] == 0 and rv["k"] == "agg" and str(rv["kind"].get("adt", "")).endswith("StateHD"):
                agg = rv
        if agg is None or set(params) != {"temperature", "density", "molefracs"}:
            r.fail("virial|new_virial|shape", b.file_line(), "StateHD::new_virial: unexpected signature or no StateHD literal")
        else:
            want = {"temperature": {"temperature"}, "volume": set(), "moles": {"density", "molefracs"},
                    "molefracs": {"molefracs"}, "partial_density": {"density", "molefracs"}}
            inv = {v: k for k, v in params.items()}
            for fname, o in zip(agg["kind"]["fields"], agg["ops"]):
                got = set()
                stops = set()
                if o.get("k") in ("copy", "move"):
                    pr, stops = _deep(F, b, defs, o["place"]["l"])
                    got = {inv[x] for x in pr if x in inv}
                iid = "virial|new_virial|%s" % fname
                ok = got == want[fname]
                if fname == "volume":
                    ok = ok and any("one" in s for s in stops)
                if ok:
                    r.inst(iid, b.file_line(), "ok", from_=sorted(got))
                else:
                    r.inst(iid, b.file_line(), "violation", from_=sorted(got))
                    r.fail(iid, b.file_line(), "StateHD::new_virial: field `%s` is built from %s (expected %s%s): the state evaluated by the virial "
                           "getters is not the zero-density state of the requested temperature and composition"
                           % (fname, sorted(got), sorted(want[fname]), " = one()" if fname == "volume" else ""))
    # (b), (c) getters
    info = {}
    for g in GETTERS:
        bs = [x for x in F.bodies if x.path.endswith("Residual::" + g)]
        if not bs:
            r.fail("virial|%s|missing" % g, "-", "Residual::%s not found" % g)
            continue
        b = bs[0]
        calls = [callee(t)[2] for _, t in b.calls() if not t.get("exp")]
        nv = [t for _, t in b.calls() if callee(t)[2] == "new_virial"]
        seeds_rho = seeds_t = None
        if nv and len(nv[0]["args"]) == 3:
            defs = Defs(b)
            seeds_t = _seed_count(b, defs, nv[0]["args"][0])
            seeds_rho = _seed_count(b, defs, nv[0]["args"][1])
        info[g] = dict(b=b, consts=_consts(b), seeds_t=seeds_t, seeds_rho=seeds_rho)
    for g, want_t in ((GETTERS[0], 0), (GETTERS[1], 0), (GETTERS[2], 1), (GETTERS[3], 1)):
        if g not in info:
            continue
        i = info[g]
        iid = "virial|%s|seeds" % g
        ok = i["seeds_rho"] is not None and i["seeds_rho"] >= 1 and i["seeds_t"] == want_t
        if ok:
            r.inst(iid, i["b"].file_line(), "ok", density_seeds=i["seeds_rho"], temperature_seeds=i["seeds_t"])
        else:
            r.inst(iid, i["b"].file_line(), "violation", density_seeds=i["seeds_rho"], temperature_seeds=i["seeds_t"])
            r.fail(iid, i["b"].file_line(), "Residual::%s: the density passed to new_virial carries %s derivative seed(s) and the temperature %s "
                   "(expected >= 1 and %d)" % (g, i["seeds_rho"], i["seeds_t"], want_t))
    def scale(cs):
        v = 1.0
        for op, c in cs:
            c = float(c)
            if op == "Mul":
                v *= c
            elif op == "Div" and c != 0.0:
                v /= c
            else:
                return None
        return v
    for a_, b_, want in ((GETTERS[0], GETTERS[2], 0.5), (GETTERS[1], GETTERS[3], 1.0 / 3.0)):
        if a_ in info and b_ in info:
            iid = "virial|%s|normalisation" % a_
            sa, sb = scale(info[a_]["consts"]), scale(info[b_]["consts"])
            if sa is not None and sb is not None and abs(sa - want) < 1e-12 and abs(sb - want) < 1e-12:
                r.inst(iid, info[a_]["b"].file_line(), "ok", factor=sa)
            else:
                r.inst(iid, info[a_]["b"].file_line(), "violation")
                r.fail(iid, info[a_]["b"].file_line(), "virial coefficient and its temperature derivative must both be normalised with %.6g: %s uses %s, %s uses %s"
                       % (want, a_, info[a_]["consts"], b_, info[b_]["consts"]))
    r.floor("virial set-up obligations", len(r.instances), 11)
    r.exhaustive = True
    return [r]


def _deep(F, b, defs, l):
    """parameters behind a local, following every call argument and closure capture"""
    params, stops = set(), set()
    seen = set()
    work = [l]
    while work and len(seen) < 300:
        x = work.pop()
        if x in seen:
            continue
        seen.add(x)
        if 1 <= x <= b["arg_count"]:
            params.add(x)
        for d in defs.of(x):
            if d[0] == "call":
                stops.add(str(callee(d[2])[2]))
                for a in d[2]["args"]:
                    if a.get("k") in ("copy", "move"):
                        work.append(a["place"]["l"])
            else:
                rv = d[4]
                k = rv["k"]
                ops = []
                if k in ("use", "cast", "repeat"):
                    ops = [rv["op"]]
                elif k in ("ref", "discr"):
                    work.append(rv["place"]["l"])
                elif k == "unop":
                    ops = [rv["a"]]
                elif k == "binop":
                    ops = [rv["a"], rv["b"]]
                elif k == "agg":
                    ops = rv["ops"]
                for o in ops:
                    if o.get("k") in ("copy", "move"):
                        work.append(o["place"]["l"])
    return params, stops


def _seed_count(b, defs, op):
    """number of derivative seeds on the value: `.derivative()` calls behind it plus field stores eps* = 1"""
    if op.get("k") not in ("copy", "move"):
        return 0
    n = 0
    seen = set()
    work = [op["place"]["l"]]
    roots = set()
    while work and len(seen) < 100:
        x = work.pop()
        if x in seen:
            continue
        seen.add(x)
        roots.add(x)
        for d in defs.of(x):
            if d[0] == "call":
                nm = callee(d[2])[2]
                if nm in ("derivative", "derivative1", "derivative2"):      # num-dual seeding builders
                    n += 1
                if nm == "new" and "num_dual" in str(callee(d[2])[0]):
                    # explicit constructor `Dual3::new(re, v1, v2, v3)` / `HyperDual::new(re, eps1, eps2, eps1eps2)`: every
                    # first-order part set to one is a seed
                    for a in d[2]["args"][1:]:
                        if a.get("k") == "const" and str(a.get("f")) in ("1e0", "1"):
                            n += 1
                        elif a.get("k") in ("copy", "move"):
                            for d3 in defs.of(a["place"]["l"]):
                                if d3[0] == "call" and callee(d3[2])[2] == "one":
                                    n += 1
                    continue
                for a in d[2]["args"]:
                    if a.get("k") in ("copy", "move"):
                        work.append(a["place"]["l"])
            else:
                rv = d[4]
                # a store into a field eps*/v1 of this local with value one
                pl = d[3]
                fld = [p for p in pl["p"] if isinstance(p, dict) and "f" in p]
                if fld and str(fld[0].get("n", "")).startswith(("eps", "v1")):
                    n += 1
                    continue
                if rv["k"] in ("use", "cast") and rv["op"].get("k") in ("copy", "move"):
                    work.append(rv["op"]["place"]["l"])
                elif rv["k"] == "ref":
                    work.append(rv["place"]["l"])
    # eps1 and eps2 together seed one second derivative
    return n
