"""R64 WD-LAYOUT — a functional contribution reads its weighted densities at the rows its own declaration puts them.

C16: a contribution declares its weight functions in `weight_functions()` (a `WeightFunctionInfo` builder chain) and receives
the convolved profiles as one stacked array in `helmholtz_energy_density(.., weighted_densities)`.  The stacking order is fixed by
`WeightFunctionInfo` and does not depend on the order of the `add` calls:

    [ local density: n rows ] [ scalar component-wise: n rows each ] [ vector component-wise: n * dim rows each ]
    [ scalar FMT (summed): 1 row each ] [ vector FMT: dim rows each ]

with n the number of segments and dim the number of spatial dimensions, T(n, dim) rows in total.  The contribution addresses the
rows by hand (`index_axis(Axis(0), n * (dim + 1))`, `slice_axis(Axis(0), Slice::new(a, Some(b), 1))`), often after recovering `dim`
from the row count.  A wrong offset (`n + dim` for `n * (dim + 1)`) reads a row of another block: the bulk limit of the
functional is no longer the equation of state and the functional derivative no longer belongs to the energy that is integrated —
and for a pure component in one dimension (what the tests run) the two offsets can coincide.

The rule recovers the declared block counts from the builder chain, the row expressions from the MIR of
`helmholtz_energy_density` (and the closures written in it), and compares them as polynomials in (n, dim): both sides are
evaluated on the grid n, dim in {1, 2, 3} — the expressions are of degree <= 2 in each variable (sums and products of n, dim, loop
variables and constants), for which agreement on a 3 x 3 grid is agreement as polynomials.  No program code is executed; what is
evaluated are index expressions.  Decided per contribution:
  (b) every row read lies inside [0, T);
  (c) the rows read are all of [0, T): no declared weighted density is left out (which is what a shifted offset causes).
A contribution whose declaration is not one linear builder chain (FMT versions selected by `match`; `extend` is followed only
for a literal list of shapes) or whose row expressions cannot be resolved is reported as not decided (`blind`), never as a violation."""
from cfg import Defs
from facts import callee
from report import RuleResult

VECTOR_SHAPES = ("DeltaVec",)
GRID = (1, 2, 3)


class Unresolved(Exception):
    pass


class NeedVar(Exception):
    def __init__(self, key, lo, hi):
        self.key, self.lo, self.hi = key, lo, hi


def _declared(F, b, depth=0):
    """(L, SC, VC, SF, VF) from a straight builder chain, else None"""
    defs = Defs(b)
    if depth < 2 and not any(callee(t)[0].endswith("WeightFunctionInfo::<T>::new") for bi, t in b.calls()):
        # `fn weight_functions(..) { att_weight_functions(&self.parameters, PSI_DFT, temperature) }`
        inner = [F.callee_body(t) for bi, t in b.calls() if F.callee_body(t) is not None and not F.callee_body(t).is_closure()
                 and "WeightFunctionInfo<" in (F.callee_body(t).lty(0) or {}).get("s", "")]
        if len(inner) == 1:
            return _declared(F, inner[0], depth + 1)
        return None
    news = [t for bi, t in b.calls() if callee(t)[0].endswith("WeightFunctionInfo::<T>::new")]
    adds = [t for bi, t in b.calls() if callee(t)[0].endswith("WeightFunctionInfo::<T>::add")]
    ext = [t for bi, t in b.calls() if callee(t)[0].endswith("WeightFunctionInfo::<T>::extend")]
    if len(news) != 1 or not (adds or ext):
        return None
    # one linear chain new(..).add(..).add(..): every add / extend receives the result of the previous link
    link, seen_links = news[0]["dest"]["l"], 0
    for _ in range(len(adds) + len(ext)):
        nxt = [t for t in adds + ext if t["args"][0].get("k") in ("copy", "move") and t["args"][0]["place"]["l"] == link and not t["args"][0]["place"]["p"]]
        if len(nxt) != 1:
            return None
        link = nxt[0]["dest"]["l"]
        seen_links += 1
    if seen_links != len(adds) + len(ext):
        return None
    loc = news[0]["args"][1]
    if loc.get("k") != "const" or loc.get("text") not in ("true", "false"):
        return None
    counts = {"L": 1 if loc["text"] == "true" else 0, "SC": 0, "VC": 0, "SF": 0, "VF": 0}
    # `WeightFunctionInfo::new(arr1(&[0]), ..)`: a component index of fixed length (pure-component functionals)
    ci = news[0]["args"][0]
    if ci.get("k") in ("copy", "move"):
        ds = defs.of(ci["place"]["l"])
        if len(ds) == 1 and ds[0][0] == "call" and str(callee(ds[0][2])[2]) == "arr1" and ds[0][2]["args"]:
            import re
            m = re.search(r"\[usize; (\d+)\]", (b.opty(ds[0][2]["args"][0]) or {}).get("s", ""))
            if m:
                counts["fixed_n"] = int(m.group(1))
    for t in adds:
        fmt = t["args"][2]
        if fmt.get("k") != "const" or fmt.get("text") not in ("true", "false"):
            return None
        shape = _shape_of(b, defs, t["args"][1])
        if shape is None:
            return None
        vec = shape in VECTOR_SHAPES
        counts[("VF" if vec else "SF") if fmt["text"] == "true" else ("VC" if vec else "SC")] += 1
    for t in ext:
        # `.extend(vec![Shape::A, Shape::B, ..].into_iter().map(|s| WeightFunction { .., shape: s }).collect(), fmt)`: the one array literal
        # of shapes written in this body lists the weight functions
        fmt = t["args"][2]
        if len(ext) != 1 or fmt.get("k") != "const" or fmt.get("text") not in ("true", "false"):
            return None
        lists = []
        for bi, si, st in b.stmts():
            rv = st["rv"]
            if rv["k"] == "agg" and rv["kind"].get("t") == "array" and rv["ops"]:
                vs = [_variant(b, defs, o) for o in rv["ops"]]
                if all(v is not None for v in vs):
                    lists.append(vs)
        if len(lists) != 1:
            return None
        # the closure that turns the shapes into weight functions must use its parameter as the shape
        ok_closure = False
        for c in F.bodies:
            if c.is_closure() and (c.d.get("parent") or "") == b.path:
                for bi, si, st in c.stmts():
                    rv = st["rv"]
                    if rv["k"] == "agg" and str(rv["kind"].get("adt", "")).endswith("WeightFunction") and "shape" in (rv["kind"].get("fields") or []):
                        so = rv["ops"][rv["kind"]["fields"].index("shape")]
                        cd = Defs(c)
                        l = so["place"]["l"] if so.get("k") in ("copy", "move") else None
                        for _ in range(6):
                            if l is None:
                                break
                            if 2 <= l <= c["arg_count"]:
                                ok_closure = True
                                break
                            ds = cd.of(l)
                            if len(ds) == 1 and ds[0][0] == "stmt" and ds[0][4]["k"] == "use" and ds[0][4]["op"].get("k") in ("copy", "move"):
                                l = ds[0][4]["op"]["place"]["l"]
                            else:
                                break
        if not ok_closure:
            return None
        for shape in lists[0]:
            vec = shape in VECTOR_SHAPES
            counts[("VF" if vec else "SF") if fmt["text"] == "true" else ("VC" if vec else "SC")] += 1
    return counts


def _shape_of(b, defs, op):
    if op.get("k") not in ("copy", "move"):
        return None
    ds = defs.of(op["place"]["l"])
    if len(ds) != 1:
        return None
    d = ds[0]
    if d[0] == "call":
        if str(callee(d[2])[2]) in ("new_scaled", "new_unscaled") and len(d[2]["args"]) == 2:
            return _variant(b, defs, d[2]["args"][1])
        return None
    rv = d[4]
    if rv["k"] == "agg" and rv["kind"].get("adt", "").endswith("WeightFunction") and "shape" in (rv["kind"].get("fields") or []):
        return _variant(b, defs, rv["ops"][rv["kind"]["fields"].index("shape")])
    if rv["k"] == "use":
        return _shape_of(b, defs, rv["op"])
    return None


def _variant(b, defs, op):
    if op.get("k") == "const":
        txt = str(op.get("text", ""))
        return txt.split("::")[-1] if txt else None
    if op.get("k") not in ("copy", "move"):
        return None
    ds = defs.of(op["place"]["l"])
    if len(ds) != 1 or ds[0][0] != "stmt":
        return None
    rv = ds[0][4]
    if rv["k"] == "agg" and rv["kind"].get("adt", "").endswith("WeightFunctionShape"):
        return rv["kind"].get("variant")
    if rv["k"] == "use":
        return _variant(b, defs, rv["op"])
    return None


def total_rows(c, n, dim):
    return n * (c["L"] + c["SC"] + c["VC"] * dim) + c["SF"] + c["VF"] * dim


class Ev:
    """integer value of a usize / isize operand of `body` for one grid point"""

    def __init__(self, F, body, parent, wd_name, n, T, bind, stats):
        self.F, self.b, self.parent, self.wd_name, self.n, self.T, self.bind, self.stats = F, body, parent, wd_name, n, T, bind, stats
        self.defs = Defs(body)

    def sub(self, body):
        return Ev(self.F, body, self.parent if body is not self.parent else None, self.wd_name, self.n, self.T, self.bind, self.stats)

    # -- is this place (a view of) the stacked weighted densities?
    def is_wd(self, op, depth=0):
        if op.get("k") not in ("copy", "move") or depth > 8:
            return False
        pl = op["place"]
        l = pl["l"]
        if self.b.is_closure() and l == 1:
            names = [p.get("n") for p in pl["p"] if isinstance(p, dict) and "f" in p]
            return bool(names) and names[0] == self.wd_name
        if not self.b.is_closure() and l <= self.b["arg_count"] and self.b.lname(l) == self.wd_name:
            return True
        ds = self.defs.of(l)
        if len(ds) != 1:
            return False
        d = ds[0]
        if d[0] == "call":
            if str(callee(d[2])[2]) in ("view", "reborrow", "deref", "borrow", "as_ref", "clone") and d[2]["args"]:
                return self.is_wd(d[2]["args"][0], depth + 1)
            return False
        rv = d[4]
        if rv["k"] == "ref":
            return self.is_wd({"k": "copy", "place": rv["place"]}, depth + 1)
        if rv["k"] in ("use", "cast"):
            return self.is_wd(rv["op"], depth + 1)
        return False

    def op(self, op, depth=0):
        if depth > 40:
            raise Unresolved("depth")
        if op.get("k") == "const":
            v = op.get("i", op.get("bits"))
            try:
                return int(v)
            except (TypeError, ValueError):
                raise Unresolved("const")
        if op.get("k") not in ("copy", "move"):
            raise Unresolved("operand")
        pl = op["place"]
        l = pl["l"]
        proj = [p for p in pl["p"] if p != "*"]
        key = (self.b.path, l)
        if not proj and key in self.bind:
            return self.bind[key]
        # closure upvar: evaluate the captured variable in the parent
        if self.b.is_closure() and l == 1 and proj and isinstance(proj[0], dict) and "f" in proj[0]:
            nm = proj[0].get("n")
            if self.parent is None or nm is None:
                raise Unresolved("upvar")
            pe = Ev(self.F, self.parent, None, self.wd_name, self.n, self.T, self.bind, self.stats)
            cands = [x for x in range(1, len(self.parent.locals)) if self.parent.lname(x) == nm]
            for x in cands:
                try:
                    return pe.op({"k": "copy", "place": {"l": x, "p": []}}, depth + 1)
                except Unresolved:
                    continue
            raise Unresolved("upvar value")
        ds = self.defs.of(l)
        # (*shape)[k]
        if proj and isinstance(proj[-1], dict) and "idx" in proj[-1] and len(proj) == 1:
            if len(ds) == 1 and ds[0][0] == "call" and str(callee(ds[0][2])[2]) == "shape" and self.is_wd(ds[0][2]["args"][0]):
                k = self.op({"k": "copy", "place": {"l": proj[-1]["idx"], "p": []}}, depth + 1)
                if k == 0:
                    self.stats["T"] = True
                    return self.T
            raise Unresolved("index")
        if proj and isinstance(proj[-1], dict) and proj[-1].get("cidx") is not None and len(proj) == 1:
            if len(ds) == 1 and ds[0][0] == "call" and str(callee(ds[0][2])[2]) == "shape" and self.is_wd(ds[0][2]["args"][0]) and proj[-1]["cidx"] == 0:
                self.stats["T"] = True
                return self.T
            raise Unresolved("const index")
        if proj:
            # .0 of a checked arithmetic result
            if len(proj) == 1 and isinstance(proj[0], dict) and proj[0].get("f") == 0 and proj[0].get("o") == "tuple" and len(ds) == 1 and ds[0][0] == "stmt" \
                    and ds[0][4]["k"] == "binop" and ds[0][4]["op"].endswith("WithOverflow"):
                return self.binop(ds[0][4], depth)
            # loop variable of `for i in a..b`: ((next() result) as Some).0
            raise Unresolved("projection")
        if len(ds) != 1:
            raise Unresolved("defs")
        d = ds[0]
        if d[0] == "call":
            t = d[2]
            nm = str(callee(t)[2])
            if nm in ("len", "nrows", "len_of", "ncols", "dim"):
                if t["args"] and self.is_wd(t["args"][0]):
                    if nm == "nrows":
                        self.stats["T"] = True
                        return self.T
                    if nm == "len_of" and len(t["args"]) == 2:
                        ax = self.axis(t["args"][1], depth)
                        if ax == 0:
                            self.stats["T"] = True
                            return self.T
                    raise Unresolved("grid size")
                if nm == "len":
                    self.stats["n"] = True
                    return self.n
                raise Unresolved(nm)
            if nm in ("into", "from", "try_into", "unwrap", "clone") and len(t["args"]) == 1:
                return self.op(t["args"][0], depth + 1)
            raise Unresolved("call " + nm)
        rv = d[4]
        if rv["k"] in ("use", "cast"):
            o = rv["op"]
            # `for i in a..b`
            if o.get("k") in ("copy", "move") and any(isinstance(p, dict) and "dc" in p for p in o["place"]["p"]):
                rng = self.loop_range(o["place"]["l"], depth)
                if rng is not None:
                    raise NeedVar(key, rng[0], rng[1])
                raise Unresolved("downcast")
            return self.op(o, depth + 1)
        if rv["k"] == "binop":
            return self.binop(rv, depth)
        if rv["k"] == "ref":
            return self.op({"k": "copy", "place": rv["place"]}, depth + 1)
        raise Unresolved(rv["k"])

    def binop(self, rv, depth):
        a = self.op(rv["a"], depth + 1)
        b = self.op(rv["b"], depth + 1)
        o = rv["op"].replace("WithOverflow", "").replace("Unchecked", "")
        if o == "Add":
            return a + b
        if o == "Sub":
            return a - b
        if o == "Mul":
            return a * b
        if o == "Div":
            if b == 0:
                raise Unresolved("div0")
            return a // b
        if o == "Rem":
            if b == 0:
                raise Unresolved("div0")
            return a % b
        raise Unresolved("binop " + o)

    def axis(self, op, depth=0):
        if op.get("k") not in ("copy", "move"):
            raise Unresolved("axis")
        ds = self.defs.of(op["place"]["l"])
        if len(ds) == 1 and ds[0][0] == "stmt" and ds[0][4]["k"] == "agg" and str(ds[0][4]["kind"].get("adt", "")).endswith("ndarray::Axis"):
            return self.op(ds[0][4]["ops"][0], depth + 1)
        if len(ds) == 1 and ds[0][0] == "stmt" and ds[0][4]["k"] == "use":
            return self.axis(ds[0][4]["op"], depth + 1)
        raise Unresolved("axis")

    def range_of(self, op, depth=0):
        """(lo, hi) of an operand that is a `Range<usize>` (through into_iter / copies)"""
        if op.get("k") not in ("copy", "move") or depth > 8:
            return None
        ds = self.defs.of(op["place"]["l"])
        if len(ds) != 1:
            return None
        d = ds[0]
        if d[0] == "call":
            if str(callee(d[2])[2]) in ("into_iter", "iter", "clone") and d[2]["args"]:
                return self.range_of(d[2]["args"][0], depth + 1)
            return None
        rv = d[4]
        if rv["k"] == "agg" and str(rv["kind"].get("adt", "")).endswith("ops::Range") and len(rv["ops"]) == 2:
            return self.op(rv["ops"][0]), self.op(rv["ops"][1])
        if rv["k"] == "use":
            return self.range_of(rv["op"], depth + 1)
        if rv["k"] == "ref":
            return self.range_of({"k": "copy", "place": rv["place"]}, depth + 1)
        return None

    def loop_range(self, opt_local, depth):
        """opt_local = result of `Iterator::next(&mut iter)` with iter a Range"""
        ds = self.defs.of(opt_local)
        if len(ds) != 1 or ds[0][0] != "call" or str(callee(ds[0][2])[2]) != "next":
            return None
        return self.range_of(ds[0][2]["args"][0])


def _accesses(F, b, parent, wd_name):
    """access sites on the stacked weighted densities in body b: (body, call terminator)"""
    out = []
    ev = Ev(F, b, parent, wd_name, 1, 1, {}, {})
    for bi, t in b.calls():
        if not t["args"] or t["args"][0].get("k") not in ("copy", "move"):
            # wd handed on by value / reference as a later argument
            if any(a.get("k") in ("copy", "move") and ev.is_wd(a) for a in t["args"]):
                out.append((b, t, "whole"))
            continue
        if ev.is_wd(t["args"][0]):
            nm = str(callee(t)[2])
            if nm in ("shape", "len_of", "nrows", "ncols", "dim", "raw_dim", "len", "ndim", "view", "reborrow", "deref", "borrow", "as_ref", "clone"):
                continue
            out.append((b, t, nm))
        elif any(a.get("k") in ("copy", "move") and ev.is_wd(a) for a in t["args"][1:]):
            out.append((b, t, "whole"))
    return out


def _rows(F, site, parent, wd_name, n, T, stats):
    """set of rows read at one access site for one grid point (enumerating the loop variables the site depends on)"""
    b, t, nm = site
    bind = {}
    closure_range = None
    if b.is_closure() and parent is not None:
        # `(a..b).map(|i| ..)`: the closure's parameter ranges over a..b
        pe = Ev(F, parent, None, wd_name, n, T, bind, stats)
        for bi, pt in parent.calls():
            if str(callee(pt)[2]) in ("map", "for_each", "flat_map", "filter_map") and len(pt["args"]) == 2:
                import boolsum
                if boolsum.closure_def_of_type(parent.opty(pt["args"][1])) == b.path:
                    try:
                        closure_range = pe.range_of(pt["args"][0])
                    except (Unresolved, NeedVar):
                        closure_range = None

    def once():
        ev = Ev(F, b, parent, wd_name, n, T, bind, stats)
        if nm == "whole":
            return set(range(T))
        if nm == "index_axis":
            if ev.axis(t["args"][1]) != 0:
                return set(range(T))
            return {ev.op(t["args"][2])}
        if nm == "slice_axis":
            if ev.axis(t["args"][1]) != 0:
                return set(range(T))
            ds = ev.defs.of(t["args"][2]["place"]["l"]) if t["args"][2].get("k") in ("copy", "move") else []
            if len(ds) != 1 or ds[0][0] != "call" or not callee(ds[0][2])[0].endswith("Slice::new"):
                raise Unresolved("slice")
            a = ds[0][2]["args"]
            lo = ev.op(a[0])
            step = ev.op(a[2])
            hi = T
            if a[1].get("k") in ("copy", "move"):
                eds = ev.defs.of(a[1]["place"]["l"])
                if len(eds) == 1 and eds[0][0] == "stmt" and eds[0][4]["k"] == "agg":
                    if eds[0][4]["kind"].get("variant") == "Some":
                        hi = ev.op(eds[0][4]["ops"][0])
                    elif eds[0][4]["kind"].get("variant") != "None":
                        raise Unresolved("slice end")
                else:
                    raise Unresolved("slice end")
            elif a[1].get("k") == "const":
                if "None" not in str(a[1].get("text", "None")):
                    raise Unresolved("slice end const")
            if lo < 0:
                lo += T
            if hi < 0:
                hi += T
            if step <= 0:
                raise Unresolved("step")
            return set(range(lo, hi, step))
        # any other method on the whole array (outer_iter, mapv, to_owned, sum_axis ..) touches every row
        return set(range(T))

    rows = set()
    pending = [dict()]
    if b.is_closure():
        if closure_range is None:
            # a closure applied to something else than a range: its parameter is not an index we can enumerate
            pass
        else:
            pending = [{(b.path, 2): v} for v in range(closure_range[0], closure_range[1])]
            if not pending:
                return set()
    guard = 0
    while pending:
        guard += 1
        if guard > 400:
            raise Unresolved("enumeration")
        bnd = pending.pop()
        bind.clear()
        bind.update(bnd)
        try:
            rows |= once()
        except NeedVar as nv:
            for v in range(nv.lo, nv.hi):
                x = dict(bnd)
                x[nv.key] = v
                pending.append(x)
    return rows


def run(F):
    r = RuleResult("R64", "WD-LAYOUT: a functional contribution reads its weighted densities at the rows its own weight-function declaration puts them")
    n_decided = 0
    hs = [b for b in F.bodies if not b.is_closure() and b.path.endswith("::helmholtz_energy_density") and "FunctionalContribution" in b.path
          and "::tests::" not in b.path]
    for hb in sorted(hs, key=lambda x: x.path):
        prefix = hb.path.rsplit("::", 1)[0]
        wb = F.body(prefix + "::weight_functions")
        name = prefix.split("::<", 1)[-1] if "::<" in prefix else prefix
        name = name.replace("impl feos_dft::FunctionalContribution for ", "").replace(" as feos_dft::FunctionalContribution>", "").replace(" as functional_contribution::FunctionalContribution>", "").strip("<>")
        iid = "wdlayout|%s" % name
        if wb is None:
            continue
        decl = _declared(F, wb)
        if decl is None:
            r.inst(iid, wb.file_line(), "exempt", nontrivial=False, note="declaration is not a straight builder chain of `add` calls (match on a version / extend / delegation): not decided")
            continue
        wd_name = hb.lname(3) if hb["arg_count"] >= 3 else None
        if not wd_name:
            r.inst(iid, hb.file_line(), "exempt", nontrivial=False, note="no weighted-density parameter")
            continue
        closures = [c for c in F.bodies if c.is_closure() and (c.d.get("parent") or "") == hb.path]
        sites = _accesses(F, hb, None, wd_name)
        for c in closures:
            sites += _accesses(F, c, hb, wd_name)
        if not sites:
            r.inst(iid, hb.file_line(), "exempt", nontrivial=False, note="the weighted densities are not addressed by row in this body")
            continue
        problems, unresolved = [], []
        # does any row expression depend on the number of segments? (pure-component functionals use constants: n = 1)
        probe = {}
        for s in sites:
            try:
                _rows(F, s, hb if s[0] is not hb else None, wd_name, 2, total_rows(decl, 2, 2), probe)
            except (Unresolved, NeedVar) as e:
                unresolved.append((s, str(e)))
        if unresolved:
            r.inst(iid, unresolved[0][0][1]["span"], "exempt", nontrivial=False,
                   note="row expression not resolved (%s): not decided" % unresolved[0][1])
            r.blind.append("R64: %s: a row expression of the weighted densities could not be resolved (%s at %s)" % (name, unresolved[0][1], unresolved[0][0][1]["span"]))
            continue
        ns = (decl["fixed_n"],) if decl.get("fixed_n") else GRID if (probe.get("n") or probe.get("T")) else (1,)
        for n in ns:
            for dim in GRID:
                T = total_rows(decl, n, dim)
                read = set()
                for s in sites:
                    try:
                        rows = _rows(F, s, hb if s[0] is not hb else None, wd_name, n, T, {})
                    except (Unresolved, NeedVar) as e:
                        rows = set(range(T))
                    out = sorted(x for x in rows if x < 0 or x >= T)
                    if out:
                        problems.append(("range", s[1]["span"], "n=%d, dim=%d: row %s is read but only %d rows are declared" % (n, dim, out[:3], T)))
                    read |= rows
                missing = sorted(set(range(T)) - read)
                if missing:
                    problems.append(("coverage", hb.file_line(), "n=%d, dim=%d: declared row(s) %s of %d are never read" % (n, dim, missing[:4], T)))
        n_decided += 1
        if problems:
            kinds = sorted({p[0] for p in problems})
            r.inst(iid, problems[0][1], "violation", declared=decl, sites=len(sites))
            r.fail("%s|%s" % (iid, "+".join(kinds)), problems[0][1],
                   "%s: the rows read from the stacked weighted densities do not match the declared weight functions %s (%s): a row offset is "
                   "wrong — the contribution evaluates its energy density with another block's weighted density"
                   % (name, decl, "; ".join(p[2] for p in problems[:3])))
        else:
            r.inst(iid, hb.file_line(), "ok", declared=decl, sites=len(sites), grid="n x dim in %s x %s" % (list(ns), list(GRID)))
    if "dft" in (F.meta.get("features") or []) or "all_models" in (F.meta.get("features") or []):
        r.floor("functional contributions with a decided weighted-density layout", n_decided, 12)
    r.exhaustive = True
    return [r]
