"""R42 PROFILE-STATE — density profiles carry no memoised state besides the bulk state's derivative cache.

A `DFTProfile` (and the pore / interface / solvation wrappers around it) is solved, modified (`update_bulk`, new
specification, new external potential) and solved again.  Every quantity the Euler-Lagrange equation needs is recomputed
from the profile's current fields; the only interior-mutable state reachable from a profile is the derivative cache of its
bulk `State` (keyed by the state, R7/R9).  A lazily initialised field (`OnceLock`, `Cell`, `RefCell`, `Mutex` ...) that
remembers, say, the bulk functional derivative of the *first* solve makes later solves depend on the history of the
profile: the converged density is then not a stationary point for the current bulk state although the reported residual
is small (C18).  Rule: deep interior-mutability census (driver facts) of every ADT of feos-dft; each cell must be the
`State` cache."""
from report import RuleResult

ALLOWED_TAIL = "feos_core::State<F> -> std::sync::Mutex<feos_core::state::cache::Cache>"


def run(F):
    r = RuleResult("R42", "PROFILE-STATE: DFT profiles hold no interior-mutable state besides the bulk state's cache")
    n = 0
    for c, a in F.items("adts"):
        if not a["path"].startswith("feos_dft::"):
            continue
        n += 1
        bad = [x for x in (a.get("cells") or []) if not x.endswith(ALLOWED_TAIL)]
        iid = "cells|%s" % a["path"]
        if bad:
            r.inst(iid, a["span"], "violation", cells=bad[:2])
            r.fail(iid, a["span"],
                   "%s contains interior-mutable state other than the bulk state's derivative cache (%s): a value memoised across solves / bulk "
                   "updates makes the solved profile depend on the profile's history" % (a["path"], bad[0]))
        else:
            r.inst(iid, a["span"], "ok", nontrivial=bool(a.get("cells")), cells=len(a.get("cells") or []))
    r.floor("feos-dft types in the census", n, 30)
    r.exhaustive = True
    r.blind.append("trait objects (dyn Convolver, dyn DFTSpecification) are opaque to the census")
    return [r]
