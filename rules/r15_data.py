"""R15 DATA — the shipped JSON matches the types that read it.

Schema = the serde shape of the record types, derived from the struct / enum definitions (E2, syn facts): required vs
defaulted / optional fields, `flatten`, `from = X` proxies, external enum tagging, array lengths — generic parameters
instantiated per file by tables/r15_files.toml.  Lints per file: every record validates against the schema (missing
required field, wrong JSON type, wrong array length, unknown enum tag, key that no field consumes); no duplicate
identifier of a kind usable for lookup; m, sigma, epsilon_k, molarweight > 0; every id1/id2 of a binary file occurs in
the collection it accompanies; every segment named by gc_substances.json exists in each segment table."""
import json
import os
import re
import tomllib

from report import RuleResult

TABLE = os.path.join(os.path.dirname(os.path.dirname(os.path.abspath(__file__))), "tables", "r15_files.toml")
POSITIVE = ("m", "sigma", "epsilon_k")
UNIQUE_KINDS = ("name",)      # the identifier kind the library, its tests and its documentation look substances up by
NOTED_KINDS = ("cas", "smiles", "inchi")   # alternative parameter sets of one substance share these (water_2B / water_4C ...): listed, not judged


def split_generics(s):
    """'A<B, C<D>>' -> ('A', ['B', 'C<D>'])"""
    s = s.replace(" ", "")
    m = re.match(r"^([A-Za-z_0-9:\[\];]+?)(?:<(.*)>)?$", s)
    if not m or m.group(2) is None:
        return s, []
    args, depth, cur = [], 0, ""
    for ch in m.group(2):
        if ch in "<[(":
            depth += 1
        elif ch in ">])":
            depth -= 1
        if ch == "," and depth == 0:
            args.append(cur)
            cur = ""
        else:
            cur += ch
    if cur:
        args.append(cur)
    return m.group(1).split("::")[-1], args


class Schema:
    def __init__(self, syn):
        self.items = {}
        for it in syn["items"]:
            if it["item"] in ("struct", "enum"):
                self.items.setdefault(it["name"], []).append(it)
        self.errors = []

    def lookup(self, name, hint=None):
        c = self.items.get(name, [])
        if not c:
            return None
        if len(c) > 1 and hint:
            for it in c:
                if hint in it["file"]:
                    return it
        return c[0]

    def generic_names(self, it):
        g = it.get("generics", "")
        return [x for x in re.findall(r"[A-Za-z_][A-Za-z0-9_]*", g.split("where")[0]) if x not in ("const", "usize")]

    def validate(self, ty, val, path, env, hint, errs, consumed=None):
        """validate JSON value against type expression; env maps generic names to type expressions"""
        ty = ty.replace(" ", "")
        if ty in env:
            return self.validate(env[ty], val, path, {}, hint, errs)
        m = re.match(r"^\[(.+);(\d+)\]$", ty)
        if m:
            if not isinstance(val, list) or len(val) != int(m.group(2)):
                errs.append("%s: expected array of length %s, got %s" % (path, m.group(2), short(val)))
                return
            for i, v in enumerate(val):
                self.validate(m.group(1), v, "%s[%d]" % (path, i), env, hint, errs)
            return
        if ty.startswith("(") and ty.endswith(")"):
            parts, depth, cur = [], 0, ""
            for ch in ty[1:-1]:
                if ch in "<[(":
                    depth += 1
                elif ch in ">])":
                    depth -= 1
                if ch == "," and depth == 0:
                    parts.append(cur)
                    cur = ""
                else:
                    cur += ch
            if cur:
                parts.append(cur)
            if not isinstance(val, list) or len(val) != len(parts):
                errs.append("%s: expected %d-tuple, got %s" % (path, len(parts), short(val)))
                return
            for i, (pt, v) in enumerate(zip(parts, val)):
                self.validate(pt, v, "%s[%d]" % (path, i), env, hint, errs)
            return
        name, args = split_generics(ty)
        if name in ("f64", "f32"):
            if not isinstance(val, (int, float)) or isinstance(val, bool):
                errs.append("%s: expected number, got %s" % (path, short(val)))
            return
        if name in ("usize", "u64", "u32", "u8", "i32", "i64", "isize"):
            if not isinstance(val, int) or isinstance(val, bool) or (name.startswith("u") and val < 0):
                errs.append("%s: expected %s, got %s" % (path, name, short(val)))
            return
        if name in ("String", "str", "&str"):
            if not isinstance(val, str):
                errs.append("%s: expected string, got %s" % (path, short(val)))
            return
        if name == "bool":
            if not isinstance(val, bool):
                errs.append("%s: expected bool, got %s" % (path, short(val)))
            return
        if name == "Option":
            if val is None:
                return
            return self.validate(args[0], val, path, env, hint, errs)
        if name in ("Vec", "Array1"):
            if not isinstance(val, list):
                errs.append("%s: expected array, got %s" % (path, short(val)))
                return
            for i, v in enumerate(val):
                self.validate(args[0], v, "%s[%d]" % (path, i), env, hint, errs)
            return
        it = self.lookup(name, hint)
        if it is None:
            errs.append("%s: type %s has no definition in the analysed sources" % (path, name))
            return
        # proxy
        for a in it.get("serde", []):
            if a["k"] in ("from", "try_from"):
                return self.validate(a["v"], val, path, env, hint, errs)
        gn = self.generic_names(it)
        env2 = {g: (env.get(a, a) if a in env else a) for g, a in zip(gn, args)}
        if it["item"] == "enum":
            return self.validate_enum(it, val, path, env2, hint, errs)
        if it.get("fields_kind") == "tuple" and len(it["fields"]) == 1:
            return self.validate(it["fields"][0]["ty"], val, path, env2, hint, errs)
        if not isinstance(val, dict):
            errs.append("%s: expected object for %s, got %s" % (path, name, short(val)))
            return
        used = set()
        self.validate_fields(it, val, path, env2, hint, errs, used)
        for k in val:
            if k not in used:
                errs.append("%s: key `%s` is not consumed by any field of %s (typo or dropped data)" % (path, k, name))

    def validate_fields(self, it, val, path, env, hint, errs, used, optional_group=False):
        cont_default = any(a["k"] == "default" for a in it.get("serde", []))
        for f in it["fields"]:
            sd = {a["k"]: a["v"] for a in f["serde"]}
            key = sd.get("rename") or f["name"]
            fty = f["ty"].replace(" ", "")
            if "flatten" in sd:
                name, args = split_generics(fty)
                inner = args[0] if name == "Option" else fty
                inner = env.get(inner, inner)
                iname, iargs = split_generics(inner)
                sub = self.lookup(iname, hint)
                if sub is None:
                    errs.append("%s: flattened type %s has no definition" % (path, iname))
                    continue
                env3 = {g: env.get(a, a) for g, a in zip(self.generic_names(sub), iargs)}
                if name == "Option":
                    # serde: Some(T) if T deserialises from the remaining keys, else None
                    probe = []
                    u2 = set()
                    self.validate_fields(sub, val, path, env3, hint, probe, u2, optional_group=True)
                    if not probe:
                        used |= u2
                    else:
                        # keys of the group present but group incomplete / ill-typed -> silently None: report
                        present = [k for k in u2 if k in val]
                        if present:
                            errs.append("%s: optional flattened group %s is only partially / wrongly given (%s): serde silently yields None — %s"
                                        % (path, iname, present, probe[0]))
                            used |= u2
                else:
                    self.validate_fields(sub, val, path, env3, hint, errs, used)
                continue
            if "skip" in sd or "skip_deserializing" in sd:
                continue
            aliases = [key] + [a["v"] for a in f["serde"] if a["k"] == "alias"]
            present = [k for k in aliases if k in val]
            name, args = split_generics(env.get(fty, fty))
            if not present:
                if name == "Option" or "default" in sd or cont_default:
                    continue
                errs.append("%s: required field `%s` (%s) is missing" % (path, key, fty))
                continue
            used.add(present[0])
            self.validate(fty, val[present[0]], "%s.%s" % (path, present[0]), env, hint, errs)

    def validate_enum(self, it, val, path, env, hint, errs):
        if any(a["k"] in ("tag", "untagged") for a in it.get("serde", [])):
            errs.append("%s: enum %s uses a tagging mode this linter does not model" % (path, it["name"]))
            return
        names = {}
        for v in it["variants"]:
            sd = {a["k"]: a["v"] for a in v["serde"]}
            names[sd.get("rename") or v["name"]] = v
        if isinstance(val, str):
            v = names.get(val)
            if v is None or v["fields_kind"] != "unit":
                errs.append("%s: `%s` is not a unit variant of %s" % (path, val, it["name"]))
            return
        if isinstance(val, dict) and len(val) == 1:
            tag = next(iter(val))
            v = names.get(tag)
            if v is None:
                errs.append("%s: unknown variant tag `%s` of %s (known: %s)" % (path, tag, it["name"], sorted(names)))
                return
            body = val[tag]
            if v["fields_kind"] == "tuple" and len(v["fields"]) == 1:
                return self.validate(v["fields"][0]["ty"], body, "%s.%s" % (path, tag), env, hint, errs)
            if v["fields_kind"] == "tuple":
                if not isinstance(body, list) or len(body) != len(v["fields"]):
                    errs.append("%s.%s: expected %d-tuple" % (path, tag, len(v["fields"])))
                    return
                for i, (f, b) in enumerate(zip(v["fields"], body)):
                    self.validate(f["ty"], b, "%s.%s[%d]" % (path, tag, i), env, hint, errs)
                return
            if v["fields_kind"] == "named":
                fake = {"fields": v["fields"], "serde": [], "name": it["name"] + "::" + tag}
                used = set()
                if not isinstance(body, dict):
                    errs.append("%s.%s: expected object" % (path, tag))
                    return
                self.validate_fields(fake, body, "%s.%s" % (path, tag), env, hint, errs, used)
                return
            errs.append("%s: unit variant %s given with a payload" % (path, tag))
            return
        errs.append("%s: expected an externally tagged %s (string or single-key object), got %s" % (path, it["name"], short(val)))


def short(v):
    s = json.dumps(v)
    return s if len(s) < 60 else s[:57] + "..."


def ident_key(i):
    if isinstance(i, str):
        return {"id": i}
    if isinstance(i, dict):
        return {k: v for k, v in i.items() if v is not None}
    return {}


def run(F):
    r = RuleResult("R15", "DATA: every shipped parameter file matches the record type that reads it")
    with open(TABLE, "rb") as fh:
        tab = tomllib.load(fh)
    repo = F.repo
    sch = Schema(F.syn)
    listed = {e["path"] for e in tab["file"]}
    # every file under parameters/ must be in the table
    n_files = 0
    for root, dirs, files in os.walk(os.path.join(repo, "parameters")):
        for f in sorted(files):
            if f.endswith(".json"):
                rel = os.path.relpath(os.path.join(root, f), repo)
                n_files += 1
                if rel not in listed:
                    r.inst("file|%s" % rel, rel, "violation")
                    r.fail("file|%s|unlisted" % rel, rel, "parameter file %s has no row in tables/r15_files.toml (which type reads it?)" % rel)
    data = {}
    n_records = 0
    molarweights = {}
    hint_of = lambda p: p.split("/")[1]
    for e in tab["file"]:
        p = os.path.join(repo, e["path"])
        rel = e["path"]
        if not os.path.exists(p):
            r.inst("file|%s" % rel, rel, "violation")
            r.fail("file|%s|missing" % rel, rel, "shipped parameter file %s is missing" % rel)
            continue
        raw = open(p, "rb").read()
        if e.get("excluded") and not raw.strip():
            r.inst("file|%s" % rel, rel, "exempt", reason=e["excluded"], nontrivial=False)
            continue
        try:
            js = json.loads(raw)
        except Exception as ex:      # noqa
            r.inst("file|%s" % rel, rel, "violation")
            r.fail("file|%s|json" % rel, rel, "%s is not valid JSON: %s" % (rel, ex))
            continue
        data[rel] = js
        ty = e["type"]
        outer, args = split_generics(ty)
        if outer != "Vec" or not isinstance(js, list):
            r.inst("file|%s" % rel, rel, "violation")
            r.fail("file|%s|shape" % rel, rel, "%s: expected a JSON array for %s" % (rel, ty))
            continue
        rec_ty = args[0]
        hint = {"pcsaft": "pcsaft", "epcsaft": "epcsaft", "saftvrmie": "saftvrmie", "saftvrqmie": "saftvrqmie", "ideal_gas": "ideal_gas"}.get(hint_of(rel))
        if "GcPcSaft" in rec_ty:
            hint = "gc_pcsaft"
        bad = 0
        first_err = None
        for i, rec in enumerate(js):
            n_records += 1
            errs = []
            if rec_ty == "SmartsRecord":
                if not isinstance(rec, dict) or not isinstance(rec.get("group"), str) or not isinstance(rec.get("smarts"), str):
                    errs.append("[%d]: expected {group, smarts}" % i)
            else:
                sch.validate(rec_ty, rec, "[%d]" % i, {}, hint, errs)
                # positivity
                if isinstance(rec, dict):
                    mr = rec.get("model_record")
                    if isinstance(mr, dict) and rec_ty.startswith("PureRecord<"):
                        # (group-contribution segment tables legitimately contain negative increments, e.g. >C<)
                        for k in POSITIVE:
                            if k in mr and isinstance(mr[k], (int, float)) and not mr[k] > 0:
                                errs.append("[%d].model_record.%s = %r is not positive" % (i, k, mr[k]))
                        if "lr" in mr and "la" in mr and isinstance(mr["lr"], (int, float)) and isinstance(mr["la"], (int, float)) and not mr["lr"] > mr["la"]:
                            errs.append("[%d].model_record: lr = %r is not larger than la = %r" % (i, mr["lr"], mr["la"]))
                        if "fh" in mr and mr["fh"] not in (0, 1, 2):
                            errs.append("[%d].model_record.fh = %r is not 0, 1 or 2" % (i, mr["fh"]))
                    if "molarweight" in rec and isinstance(rec["molarweight"], (int, float)) and not rec["molarweight"] > 0:
                        errs.append("[%d].molarweight = %r is not positive" % (i, rec["molarweight"]))
                    elif rec_ty.startswith("PureRecord<") and isinstance(rec.get("molarweight"), (int, float)) and not (1.0 <= rec["molarweight"] <= 5000.0):
                        errs.append("[%d].molarweight = %r g/mol is outside the physical range [1, 5000] (unit slip: kg/mol?)" % (i, rec["molarweight"]))
                    if rec_ty.startswith("PureRecord<") and isinstance(rec.get("molarweight"), (int, float)):
                        nm_ = ident_name(rec)
                        if nm_:
                            molarweights.setdefault(str(nm_).lower(), []).append((rec["molarweight"], rel))
                    if "molarweight" not in rec and rec_ty.startswith(("PureRecord<PcSaft", "PureRecord<SaftVR", "PureRecord<Electrolyte", "SegmentRecord<")):
                        errs.append("[%d]: molarweight is missing (defaults to 0 for a residual-model record)" % i)
            if errs:
                bad += 1
                first_err = first_err or errs[0]
                name = ident_name(rec)
                for er in errs[:3]:
                    r.fail("record|%s|%s|%s" % (rel, name, re.sub(r"\[\d+\]", "[]", er)[:90]), "%s" % rel, "%s %s (%s): %s" % (rel, er.split(":")[0], name, er))
        # duplicates
        dups = duplicates(js)
        for kind, val in dups:
            bad += 1
            r.fail("duplicate|%s|%s=%s" % (rel, kind, val), rel, "%s: identifier %s = %r occurs more than once (lookup by %s becomes ambiguous)" % (rel, kind, val, kind))
        r.inst("file|%s" % rel, rel, "ok" if bad == 0 else "violation", records=len(js), type=ty)
    # one substance, one molar weight: a name that occurs in several shipped files carries the same molar weight (2 %)
    n_shared = 0
    for nm_, lst in sorted(molarweights.items()):
        ws = [w for w, _ in lst if w > 0]
        if len(ws) < 2:
            continue
        n_shared += 1
        if max(ws) / min(ws) > 1.02:
            lo = min(lst)
            hi = max(lst)
            r.fail("molarweight|%s|%s" % (nm_, lo[1] if lst.count(lo) == 1 else hi[1]), lo[1],
                   "substance `%s` has molar weight %r in %s but %r in %s: the same substance must have the same molar weight in every shipped file "
                   "(SAFT-VRQ Mie uses it as the particle mass of the quantum correction)" % (nm_, lo[0], lo[1], hi[0], hi[1]))
    r.inst("molarweight|cross-file", "-", "ok", names_in_several_files=n_shared, nontrivial=n_shared > 0)
    # cross references
    for e in tab["file"]:
        rel = e["path"]
        if rel not in data:
            continue
        if "accompanies" in e:
            pool = []
            for a in e["accompanies"]:
                pool.extend(data.get(a, []))
            known = set()
            for rec in pool:
                for k, v in ident_key(rec.get("identifier")).items():
                    known.add((k, v))
            missing = 0
            for i, rec in enumerate(data[rel]):
                for side in ("id1", "id2"):
                    ik = ident_key(rec.get(side))
                    if not ik:
                        continue
                    if not any((k, v) in known or ("id", v) in known for k, v in ik.items()):
                        missing += 1
                        nm = ik.get("name") or ik.get("id") or ik.get("cas")
                        r.fail("xref|%s|%s|%s" % (rel, side, nm), rel, "%s[%d].%s = %s does not occur in the collection it accompanies %s" % (rel, i, side, nm, e["accompanies"]))
            r.inst("xref|%s" % rel, rel, "ok" if not missing else "violation", against=e["accompanies"])
        if "segment_tables" in e:
            for tabf in e["segment_tables"]:
                segs = {rec.get("identifier") for rec in data.get(tabf, []) if isinstance(rec, dict)}
                missing = 0
                for i, rec in enumerate(data[rel]):
                    names = rec.get("segments") if "segments" in rec else [rec.get("group")]
                    for s_ in names or []:
                        if s_ not in segs:
                            missing += 1
                            r.fail("xref|%s|segment|%s|%s" % (rel, s_, tabf), rel, "%s[%d]: segment / group `%s` does not exist in %s" % (rel, i, s_, tabf))
                r.inst("xref|%s|%s" % (rel, os.path.basename(tabf)), rel, "ok" if not missing else "violation")
    r.floor("parameter files", n_files, 30)
    r.floor("records validated", n_records, 3000)
    r.exhaustive = True
    return [r]


def ident_name(rec):
    if not isinstance(rec, dict):
        return "?"
    i = rec.get("identifier")
    if isinstance(i, str):
        return i
    if isinstance(i, dict):
        return str(i.get("name") or i.get("cas") or "?")
    a, b = rec.get("id1"), rec.get("id2")
    if a is not None:
        return "%s/%s" % (ident_name({"identifier": a}), ident_name({"identifier": b}))
    return "?"


def duplicates(js):
    out = []
    seen = {}
    for rec in js:
        if not isinstance(rec, dict) or "identifier" not in rec:
            continue
        ik = ident_key(rec["identifier"])
        for k, v in ik.items():
            if k not in UNIQUE_KINDS + ("id",):
                continue
            if (k, v) in seen:
                out.append((k, v))
            seen[(k, v)] = True
    # one CAS number, two substances: records sharing a CAS number are parameter variants of one substance on the shipped data
    # (water models, ortho / para / normal hydrogen) and then agree in molar weight; two different molar weights under one CAS
    # make every lookup by CAS return the wrong substance for one of them
    by_cas = {}
    for rec in js:
        if isinstance(rec, dict) and isinstance(rec.get("identifier"), dict) and rec["identifier"].get("cas") and isinstance(rec.get("molarweight"), (int, float)):
            by_cas.setdefault(rec["identifier"]["cas"], []).append(float(rec["molarweight"]))
    for cas, mws in by_cas.items():
        if len(mws) > 1 and max(mws) - min(mws) > 1e-3 * max(mws):
            out.append(("cas", cas))
    # binary records looked up by CAS: the same unordered CAS pair with different parameters
    cpairs = {}
    for rec in js:
        if isinstance(rec, dict) and isinstance(rec.get("id1"), dict) and isinstance(rec.get("id2"), dict) and rec["id1"].get("cas") and rec["id2"].get("cas"):
            key = tuple(sorted((rec["id1"]["cas"], rec["id2"]["cas"])))
            mr = json.dumps(rec.get("model_record"), sort_keys=True)
            if key in cpairs and cpairs[key] != mr and ("cas-pair", "%s / %s" % key) not in out:
                out.append(("cas-pair", "%s / %s" % key))
            cpairs.setdefault(key, mr)
    # binary records: an unordered pair given twice with *different* parameters is ambiguous
    pairs = {}
    for rec in js:
        if isinstance(rec, dict) and "id1" in rec and "id2" in rec:
            a = json.dumps(ident_key(rec["id1"]), sort_keys=True)
            b = json.dumps(ident_key(rec["id2"]), sort_keys=True)
            key = tuple(sorted((a, b)))
            mr = json.dumps(rec.get("model_record"), sort_keys=True)
            if key in pairs and pairs[key] != mr:
                out.append(("pair", "%s / %s" % (ident_name({"identifier": rec["id1"]}), ident_name({"identifier": rec["id2"]}))))
            pairs.setdefault(key, mr)
    return out
