"""CFG helpers over the MIR facts: reachability with deleted edges, dominators,
definitions per local, simple backward roots."""
from collections import defaultdict


def reachable(body, removed_edges=frozenset(), start=0, removed_blocks=frozenset()):
    """blocks reachable from `start`; removed_edges = set of (from, to) pairs"""
    succs = body.succs()
    seen = set()
    if start in removed_blocks:
        return seen
    stack = [start]
    seen.add(start)
    while stack:
        b = stack.pop()
        for s in succs[b]:
            if (b, s) in removed_edges or s in removed_blocks:
                continue
            if s not in seen:
                seen.add(s)
                stack.append(s)
    return seen


def path_to(body, target, removed_edges=frozenset(), start=0):
    """one block path start -> target avoiding removed edges (BFS), or None"""
    succs = body.succs()
    prev = {start: None}
    q = [start]
    while q:
        nq = []
        for b in q:
            if b == target:
                out = []
                while b is not None:
                    out.append(b)
                    b = prev[b]
                return out[::-1]
            for s in succs[b]:
                if (b, s) in removed_edges or s in prev:
                    continue
                prev[s] = b
                nq.append(s)
        q = nq
    return None


def dominators(body, start=0):
    """iterative dominator sets (small CFGs)"""
    n = len(body.blocks)
    succs = body.succs()
    preds = body.preds()
    reach = reachable(body, start=start)
    full = set(reach)
    dom = {b: set(full) for b in reach}
    dom[start] = {start}
    changed = True
    order = sorted(reach)
    while changed:
        changed = False
        for b in order:
            if b == start:
                continue
            ps = [p for p in preds[b] if p in reach]
            if not ps:
                continue
            new = set.intersection(*(dom[p] for p in ps)) | {b}
            if new != dom[b]:
                dom[b] = new
                changed = True
    return dom


def post_dominators(body):
    """post-dominator sets w.r.t. a virtual exit joined from all return blocks"""
    n = len(body.blocks)
    succs = body.succs()
    exits = [i for i, b in enumerate(body.blocks) if b["term"]["k"] == "return"]
    nodes = set(range(n))
    pdom = {b: set(nodes) for b in nodes}
    for e in exits:
        pdom[e] = {e}
    changed = True
    while changed:
        changed = False
        for b in range(n - 1, -1, -1):
            if b in exits:
                continue
            ss = succs[b]
            if not ss:
                continue
            new = set.intersection(*(pdom[s] for s in ss)) | {b}
            if new != pdom[b]:
                pdom[b] = new
                changed = True
    return pdom


class Defs:
    """all definitions (assign statements and call destinations) of each local"""

    def __init__(self, body):
        self.body = body
        self.by_local = defaultdict(list)   # local -> list of ("stmt", bi, si, place, rv) | ("call", bi, term)
        for bi, blk in enumerate(body.blocks):
            for si, st in enumerate(blk["stmts"]):
                self.by_local[st["place"]["l"]].append(("stmt", bi, si, st["place"], st["rv"]))
            t = blk["term"]
            if t["k"] == "call":
                self.by_local[t["dest"]["l"]].append(("call", bi, t))

    def of(self, local):
        return self.by_local.get(local, [])

    def whole(self, local):
        """definitions that assign the whole local (no projection on the left)"""
        out = []
        for d in self.of(local):
            place = d[3] if d[0] == "stmt" else d[2]["dest"]
            if not place["p"]:
                out.append(d)
        return out


def op_local(op):
    """local of a copy/move operand with no projection (or only derefs), else None"""
    if op is None or op.get("k") not in ("copy", "move"):
        return None
    pl = op["place"]
    if all(p == "*" for p in pl["p"]):
        return pl["l"]
    return None


def strip_place(pl):
    """(local, tuple of non-deref projections as hashable)"""
    out = []
    for p in pl["p"]:
        if p == "*":
            continue
        if isinstance(p, dict):
            if "f" in p:
                out.append(("f", p["f"], p.get("n")))
            elif "dc" in p:
                out.append(("dc", p["v"], p.get("dc")))
            elif "idx" in p:
                out.append(("idx", p["idx"]))
            elif "cidx" in p:
                out.append(("cidx", p["cidx"]))
        else:
            out.append((p,))
    return pl["l"], tuple(out)


def roots(body, defs, local, depth=12, seen=None):
    """backward closure over copies/moves/refs/casts: the set of locals (incl. args) a local's
    value may be an alias/copy of.  Stops at calls and arithmetic."""
    if seen is None:
        seen = set()
    if local in seen or depth < 0:
        return set()
    seen.add(local)
    ds = defs.of(local)
    out = set()
    if not ds:
        out.add(local)
        return out
    for d in ds:
        if d[0] == "call":
            out.add(local)
            continue
        rv = d[4]
        k = rv["k"]
        src = None
        if k == "use":
            op = rv["op"]
            if op["k"] in ("copy", "move"):
                src = op["place"]["l"]
        elif k == "ref":
            src = rv["place"]["l"]
        elif k == "cast":
            op = rv["op"]
            if op["k"] in ("copy", "move"):
                src = op["place"]["l"]
        if src is None:
            out.add(local)
        else:
            out |= roots(body, defs, src, depth - 1, seen)
    return out


def provenance(body, defs, start_locals, call_names=(), all_args_names=(), max_steps=400):
    """backward data provenance over copies / refs / casts / field reads and the calls named in
    `call_names` (following argument 0) or `all_args_names` (following every argument).
    Returns (set of parameter locals reached, set of stop descriptions)."""
    from facts import callee
    nargs = body["arg_count"]
    seen = set()
    params = set()
    stops = set()
    work = list(start_locals)
    steps = 0
    while work and steps < max_steps:
        l = work.pop()
        steps += 1
        if l in seen:
            continue
        seen.add(l)
        ds = defs.of(l)
        if 1 <= l <= nargs:
            params.add(l)
        if not ds:
            if not (1 <= l <= nargs):
                stops.add("undef:_%d" % l)
            continue
        for d in ds:
            if d[0] == "call":
                t = d[2]
                name = callee(t)[2]
                if name in call_names:
                    a = t["args"][0] if t["args"] else None
                    if a is not None and a["k"] in ("copy", "move"):
                        work.append(a["place"]["l"])
                    else:
                        stops.add("const-arg:" + str(name))
                elif name in all_args_names:
                    for a in t["args"]:
                        if a["k"] in ("copy", "move"):
                            work.append(a["place"]["l"])
                else:
                    stops.add("call:" + str(callee(t)[0]))
            else:
                rv = d[4]
                k = rv["k"]
                ops = []
                if k in ("use", "cast", "repeat"):
                    ops = [rv["op"]]
                elif k == "ref":
                    work.append(rv["place"]["l"])
                elif k == "unop":
                    ops = [rv["a"]]
                elif k == "binop":
                    ops = [rv["a"], rv["b"]]
                elif k == "agg":
                    ops = rv["ops"]
                elif k == "discr":
                    work.append(rv["place"]["l"])
                for o in ops:
                    if o.get("k") in ("copy", "move"):
                        work.append(o["place"]["l"])
                    elif o.get("k") == "const":
                        stops.add("const")
    return params, stops


def value_roots(body, defs, place, depth=0, seen=None):
    """field-sensitive backward resolution of a place to the locals that *hold* the value:
    follows copies/moves/refs, selects the matching operand of tuple aggregates, ignores
    downcasts / ADT field reads (they stay inside the same holder).  Stops at call results,
    parameters and locals with several whole definitions."""
    if seen is None:
        seen = set()
    l = place["l"]
    projs = [p for p in place["p"] if p != "*"]
    key = (l, len(projs))
    if depth > 30 or key in seen:
        return {l}
    seen = seen | {key}
    ds = [d for d in defs.of(l) if (d[0] == "call" and not d[2]["dest"]["p"]) or (d[0] == "stmt" and not d[3]["p"])]
    if len(ds) != 1:
        return {l}
    d = ds[0]
    if d[0] == "call":
        return {l}
    rv = d[4]
    k = rv["k"]
    if k == "use" and rv["op"]["k"] in ("copy", "move"):
        src = rv["op"]["place"]
        return value_roots(body, defs, {"l": src["l"], "p": list(src["p"]) + projs}, depth + 1, seen)
    if k == "ref":
        src = rv["place"]
        return value_roots(body, defs, {"l": src["l"], "p": list(src["p"]) + projs}, depth + 1, seen)
    if k == "cast" and rv["op"]["k"] in ("copy", "move"):
        src = rv["op"]["place"]
        return value_roots(body, defs, {"l": src["l"], "p": list(src["p"]) + projs}, depth + 1, seen)
    if k == "agg" and rv["kind"].get("t") == "tuple" and projs and isinstance(projs[0], dict) and "f" in projs[0]:
        op = rv["ops"][projs[0]["f"]]
        if op["k"] in ("copy", "move"):
            src = op["place"]
            return value_roots(body, defs, {"l": src["l"], "p": list(src["p"]) + projs[1:]}, depth + 1, seen)
    return {l}
