"""Summaries of small boolean bodies (predicate closures, thin wrappers).

`truth_table(F, body, atom_names)` interprets an acyclic bool-returning MIR body concretely for every assignment of truth
values to its *atoms* — calls whose callee name is in `atom_names` (e.g. is_finite, is_sign_negative, is_trivial_solution) —
and returns {assignment (tuple of (atom name, value) sorted): returned bool}.  Calls to other summarizable bodies (a closure
calling another closure, `Fn::call`) are evaluated recursively.  Anything the interpreter does not understand makes the
summary None (unknown): callers then treat the call as opaque, never as evidence.

Used to keep rules about *which predicate guards a verdict* independent of whether the predicate is spelled inline, bound
to a closure, or wrapped in a convenience method."""
from itertools import product

from facts import callee

MAX_BLOCKS = 40
MAX_STEPS = 400


class _Unknown(Exception):
    pass


def closure_def_of_type(ty):
    """def path of a closure type as recorded by the driver (`closure:<path>`, possibly behind `ref:`), or None"""
    k = (ty or {}).get("k", "") if isinstance(ty, dict) else ""
    while k.startswith("ref:"):
        k = k[4:]
    return k[8:] if k.startswith("closure:") else None


def _closure_target(F, b, t):
    """body called by `Fn::call(&closure, (args,))` / FnMut / FnOnce, if the closure type is known"""
    p, tr, name = callee(t)
    if name not in ("call", "call_mut", "call_once") or not t["args"]:
        return None
    d = closure_def_of_type(b.opty(t["args"][0]))
    return F.body(d) if d else None


def _eval(F, b, atoms, assign, depth, args=None):
    """returns the bool value of _0, discovering atoms lazily (raises KeyError-like _Need for a new atom)"""
    if len(b.blocks) > MAX_BLOCKS or depth > 3:
        raise _Unknown()
    env = {}
    bi = 0
    steps = 0

    def val(op):
        if op.get("k") == "const":
            txt = str(op.get("text"))
            if txt in ("true", "const true"):
                return True
            if txt in ("false", "const false"):
                return False
            if op.get("bits") in ("0", "1") and "bool" in str(op.get("tys", op.get("text", ""))):
                return op["bits"] == "1"
            return ("const", txt)
        if op.get("k") in ("copy", "move"):
            pl = op["place"]
            if [p for p in pl["p"] if p != "*"]:
                return ("opaque", pl["l"])
            return env.get(pl["l"], ("opaque", pl["l"]))
        return ("opaque", None)

    while True:
        steps += 1
        if steps > MAX_STEPS:
            raise _Unknown()
        blk = b.blocks[bi]
        for st in blk["stmts"]:
            pl = st["place"]
            if pl["p"]:
                continue
            rv = st["rv"]
            k = rv["k"]
            if k in ("use", "cast"):
                env[pl["l"]] = val(rv["op"])
            elif k == "unop" and rv["op"] == "Not":
                v = val(rv["a"])
                if not isinstance(v, bool):
                    raise _Unknown()
                env[pl["l"]] = not v
            elif k == "binop" and rv["op"] in ("BitOr", "BitAnd", "Eq", "Ne", "BitXor"):
                a, c = val(rv["a"]), val(rv["b"])
                if not (isinstance(a, bool) and isinstance(c, bool)):
                    raise _Unknown()
                env[pl["l"]] = {"BitOr": a or c, "BitAnd": a and c, "Eq": a == c, "Ne": a != c, "BitXor": a != c}[rv["op"]]
            elif k == "agg" and rv["kind"].get("variant") in ("Ok", "Err") and str(rv["kind"].get("adt", "")).endswith("Result"):
                env[pl["l"]] = ("variant", rv["kind"]["variant"])
            elif k in ("ref", "agg", "discr", "len", "binop", "unop", "repeat", "nullop", "addr"):
                env[pl["l"]] = ("opaque", pl["l"])
            else:
                env[pl["l"]] = ("opaque", pl["l"])
        t = blk["term"]
        k = t["k"]
        if k == "return":
            v = env.get(0)
            if isinstance(v, tuple) and v and v[0] == "variant":
                return v[1]              # "Ok" / "Err" of a Result-returning gate
            if not isinstance(v, bool):
                raise _Unknown()
            return v
        if k == "goto":
            bi = t["target"]
        elif k in ("drop", "assert", "falseedge", "falseunwind"):
            bi = t["target"]
        elif k == "switch":
            v = val(t["op"])
            if not isinstance(v, bool):
                raise _Unknown()
            tg = dict((x, y) for x, y in t["targets"])
            key = "1" if v else "0"
            bi = tg[key] if key in tg else t["otherwise"]
        elif k == "call":
            p, tr, name = callee(t)
            dest = t["dest"]["l"]
            if name in atoms:
                if name not in assign:
                    raise _Need(name)
                env[dest] = assign[name]
            else:
                cb = _closure_target(F, b, t) or F.callee_body(t)
                if cb is not None and _returns_bool(cb):
                    v = _eval(F, cb, atoms, assign, depth + 1)
                    env[dest] = ("variant", v) if isinstance(v, str) else v
                else:
                    env[dest] = ("opaque", dest)
            if t.get("target") is None:
                raise _Unknown()
            bi = t["target"]
        else:
            raise _Unknown()


class _Need(Exception):
    def __init__(self, name):
        self.name = name


def evaluate(F, body, assign):
    """value returned by a bool body when the atoms named in `assign` take the given values; None if not summarizable
    (or if the body consults a predicate that is not in `assign`)"""
    if body is None or not _returns_bool(body):
        return None
    try:
        return _eval(F, body, set(assign), assign, 0)
    except (_Unknown, _Need, KeyError, IndexError, TypeError):
        return None


def _returns_bool(b):
    """bool, or a `Result` (summarised as the variant returned: a gate `fn check(x) -> Result<(), E>`)"""
    ty = b.lty(0)
    return bool(ty) and (ty.get("s") == "bool" or str(ty.get("s", "")).startswith("std::result::Result<"))


def truth_table(F, body, atom_names):
    """{frozenset((atom, value), ...): bool} over the atoms the body actually consults, or None if not summarizable"""
    if body is None or not _returns_bool(body):
        return None
    used = []
    try:
        while True:
            try:
                table = {}
                for vals in product((False, True), repeat=len(used)):
                    assign = dict(zip(used, vals))
                    table[frozenset(assign.items())] = _eval(F, body, set(atom_names), assign, 0)
                return table if used else None
            except _Need as n:
                if n.name in used or len(used) >= 4:
                    return None
                used.append(n.name)
    except (_Unknown, KeyError, IndexError, TypeError):
        return None


def as_literal(table, atom):
    """if the table is exactly `atom` or `not atom`: +1 / -1, else None"""
    if not table:
        return None
    if set(table) != {frozenset({(atom, False)}), frozenset({(atom, True)})}:
        return None
    t, f = table[frozenset({(atom, True)})], table[frozenset({(atom, False)})]
    if t and not f:
        return 1
    if f and not t:
        return -1
    return None
