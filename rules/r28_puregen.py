"""R28 PURE-GEN — element generators do not carry state from one element to the next.

`Array::from_shape_fn(shape, |idx| ..)`, `mapv`, `map`, `from_fn`, `filter_map` ... build a value per element; every such closure in
the numerical code seeds a fresh dual-number vector, evaluates the model and returns one entry.  Hoisting the seed vector
out of the closure ("allocate once") turns the generator into a stateful one: the closure now captures the vector by
*mutable* reference and the seeds written for entry (0, 0) are still set when entry (0, 1) is evaluated.  The rule reads
the capture modes the compiler computed: a closure literal that is handed to a per-element generator / mapper and captures
a variable by mutable reference is a violation unless the site is reviewed in tables/r28.toml (a map that is drained while
iterating, an iteration vector that is meant to be carried along)."""
import os
import tomllib

from facts import callee
from report import RuleResult

HERE = os.path.dirname(os.path.abspath(__file__))
GENERATORS = {"from_shape_fn", "from_shape_simple_fn", "from_fn", "mapv", "map", "map_collect", "mapv_into", "filter_map", "flat_map",
              "map_axis", "indexed_iter", "from_iter", "build_uninit", "map_while", "outer_iter", "fold_axis", "scan", "filter", "find_map",
              "position", "any", "all", "max_by", "min_by", "sum", "product"}


ACCUMULATE = {"add_assign", "sub_assign", "push", "extend", "push_str", "insert", "add_residual"}


def _accumulator_only(cb, upvar_idx):
    """every use of captured variable #upvar_idx inside the closure body is as the receiver of an accumulate call"""
    holders = set()        # locals holding (a reborrow of) the captured &mut
    used = False
    for _ in range(3):
        for bi, si, st in cb.stmts():
            rv = st["rv"]
            pl = None
            if rv["k"] in ("use", "cast") and rv["op"].get("k") in ("copy", "move"):
                pl = rv["op"]["place"]
            elif rv["k"] == "ref":
                pl = rv["place"]
            if pl is None:
                continue
            fl = [p for p in pl["p"] if isinstance(p, dict) and "f" in p]
            if (pl["l"] == 1 and fl and fl[0]["f"] == upvar_idx) or (pl["l"] in holders):
                # a read of an element / field of the captured value (beyond derefs) is a real read
                extra = [p for p in pl["p"][(pl["p"].index(fl[0]) + 1) if pl["l"] == 1 else 0:] if p != "*"]
                if extra:
                    return False
                if st["place"]["p"]:
                    return False
                holders.add(st["place"]["l"])
    for bi, t in cb.calls():
        for ai, a in enumerate(t["args"]):
            if a.get("k") not in ("copy", "move"):
                continue
            pl = a["place"]
            fl = [p for p in pl["p"] if isinstance(p, dict) and "f" in p]
            direct = pl["l"] == 1 and fl and fl[0]["f"] == upvar_idx
            if direct or pl["l"] in holders:
                used = True
                if ai != 0 or str(callee(t)[2]) not in ACCUMULATE:
                    return False
    # any other statement reading a holder (arithmetic, aggregate, index) is a read
    for bi, si, st in cb.stmts():
        rv = st["rv"]
        ops = []
        if rv["k"] == "binop":
            ops = [rv["a"], rv["b"]]
        elif rv["k"] == "unop":
            ops = [rv["a"]]
        elif rv["k"] == "agg":
            ops = rv["ops"]
        for o in ops:
            if o.get("k") in ("copy", "move") and (o["place"]["l"] in holders):
                return False
    return used


def run(F, scopes=None):
    r = RuleResult("R28", "PURE-GEN: per-element generators / mappers do not capture state by mutable reference")
    with open(os.path.join(HERE, "..", "tables", "r28.toml"), "rb") as f:
        table = tomllib.load(f).get("stateful", [])
    n = 0
    n_gen = 0
    for b in F.bodies:
        if b.get("exp") or "_serde" in b.path:
            continue
        if scopes and not any(s in b.path for s in scopes):
            continue
        for bi, si, st in b.stmts():
            rv = st["rv"]
            if not (rv["k"] == "agg" and rv["kind"].get("t") == "closure"):
                continue
            modes = rv["kind"].get("capmodes")
            if modes is None:
                r.fail("capmodes|missing", "-", "the facts carry no capture modes (driver out of date)")
                return [r]
            l = st["place"]["l"]
            cons = None
            span = st.get("span", b.file_line())
            for bj, t in b.calls():
                for a in t["args"]:
                    if a.get("k") in ("copy", "move") and a["place"]["l"] == l:
                        cons = str(callee(t)[2])
                        span = t["span"]
            if cons not in GENERATORS:
                continue
            n_gen += 1
            muts = [c for c, m in zip(rv["kind"]["caps"], modes) if m == "mut"]
            # a captured variable that the closure only ever *accumulates into* (`acc += x`, `v.push(x)`) and never reads does not
            # make one element depend on another: a `for` loop with a running sum rewritten as `.map(|..| { acc += ..; .. })`
            cb = F.body(rv["kind"].get("def") or "")
            if muts and cb is not None:
                muts = [c for c in muts if not _accumulator_only(cb, rv["kind"]["caps"].index(c))]
            if not muts:
                continue
            n += 1
            fn = b.path.split("::{closure")[0]
            iid = "gen|%s|%s|%s" % (fn, cons, ",".join(muts))
            row = [t for t in table if fn.endswith(t["fn"]) and t["consumer"] == cons and sorted(t["captures"]) == sorted(muts)]
            if row:
                r.inst(iid, span, "exempt", reason=row[0]["why"])
            else:
                r.inst(iid, span, "violation")
                r.fail(iid, span,
                       "%s: the closure handed to `%s` captures %s by mutable reference: what it returns for one element depends on the "
                       "elements evaluated before (e.g. derivative seeds left set in a hoisted dual-number vector) — not a reviewed stateful mapper"
                       % (fn, cons, ", ".join("`%s`" % m for m in muts)))
    r.inst("gen|census", "-", "ok", generator_closures=n_gen, with_mutable_capture=n, nontrivial=n_gen > 0)
    r.floor("closures handed to per-element generators / mappers", n_gen, 1)
    r.exhaustive = True
    return [r]
