"""R57 ROLE-SLOT — which phase of a two-phase result is "vapor" and which "liquid" is decided by role, and by density only where reviewed.

`PhaseEquilibrium<E, 2>` stores [vapor, liquid].  Two ways of filling the slots exist: `PhaseEquilibrium::from_states(a, b)` orders
the two states by density, and the literal `PhaseEquilibrium([x, y])` places them.  For a bubble point the *specified* phase is
the liquid and for a dew point the vapor — by definition of the specification, also when the incipient phase is the denser one
(liquid–liquid equilibria traced with bubble / dew points).  C05: "a bubble (dew) point keeps the specified liquid (vapor)
composition".  Rule:

  (a) `bubble_dew` assembles its result as a literal whose two slots are the specified phase (`state1`) and the incipient phase
      (`state2`), in opposite order on the two arms of a branch on the `bubble` flag: bubble -> [state2, state1];
  (b) density ordering (`from_states`) is used only in the reviewed functions (start values from the stability analysis, pure
      VLE, the critical end points of diagrams, where both states are the same or no role exists)."""
from cfg import Defs, roots
from facts import callee
from report import RuleResult

REVIEWED = {
    "vle_init_stability": (2, "flash start values: two minima of the tangent plane distance carry no role"),
    "binary_vle": (2, "critical end point: both slots hold the same state"),
    "vle_pure_comps": (1, "pure-component VLE re-expressed in the mixture's component space: vapor and liquid of a converged pure VLE, density order = role"),
    "PhaseDiagram::<E, 2>::pure": (1, "critical point appended to the diagram: both slots hold the same state"),
    "PhaseDiagram::<E, 2>::par_pure": (1, "critical point appended to the diagram"),
    "bubble_point_line": (1, "critical point appended to the diagram"),
    "dew_point_line": (1, "critical point appended to the diagram"),
    "spinodal": (1, "critical point appended to the diagram"),
}


def run(F):
    r = RuleResult("R57", "ROLE-SLOT: bubble/dew results are slotted by role; density ordering only at the reviewed sites")
    n = 0
    counts = {}
    where = {}
    for b in F.bodies:
        if not b.path.startswith("feos_core::") or "::tests::" in b.path:
            continue
        root = b.path.split("::{closure")[0]
        for bi, t in b.calls():
            if callee(t)[2] == "from_states" and "PhaseEquilibrium" in str(callee(t)[0]):
                counts[root] = counts.get(root, 0) + 1
                where[root] = t["span"]
    # a private helper without a row of its own is charged to the functions that call it (a duplicated block extracted)
    vis = {b.path: b.get("vis") for b in F.bodies if not b.is_closure()}
    callers = {}
    for b in F.bodies:
        src = b.path.split("::{closure")[0]
        for bi, t in b.calls():
            cb = F.callee_body(t)
            if cb is not None and not cb.is_closure():
                callers.setdefault(cb.path, set()).add(src)
    for root, c in sorted(counts.items()):
        n += c
        row = [v for k, v in REVIEWED.items() if root.endswith(k)]
        if not row and vis.get(root) != "Public":
            row = [v for cl in callers.get(root, ()) for k, v in REVIEWED.items() if cl.endswith(k)]
        iid = "roleslot|from_states|%s" % root
        if row:
            # how often a reviewed function spells the call is not the point (a `match` with three arms instead of nested ifs)
            r.inst(iid, where[root], "ok", calls=c, reviewed=row[0][1])
        else:
            r.inst(iid, where[root], "violation", calls=c)
            r.fail(iid, where[root],
                   "%s orders the two phases of its result by density (`PhaseEquilibrium::from_states`, %d call(s), not a reviewed place): a phase "
                   "that has a role (the specified liquid of a bubble point, the specified vapor of a dew point) ends up in the other slot "
                   "whenever the other phase is the denser one" % (root, c))
    r.floor("density-ordered two-phase results", n, 6)
    # (a)
    bs = [b for b in F.bodies if not b.is_closure() and b.path.endswith("phase_equilibria::bubble_dew::bubble_dew")]
    iid = "roleslot|bubble_dew"
    if not bs:
        r.inst(iid, "-", "violation")
        r.fail(iid + "|missing", "-", "bubble_dew not found")
    else:
        b = bs[0]
        defs = Defs(b)
        states = [l for l in range(1, b["arg_count"] + 1) if "state::State<" in b.lty(l)["s"] and not b.lty(l)["s"].startswith("&")]
        flag = [l for l in range(1, b["arg_count"] + 1) if b.lty(l)["s"] == "bool"]
        ok = False
        sw = None
        for bi, blk in enumerate(b.blocks):
            t = blk["term"]
            if t["k"] == "switch" and t["op"].get("k") in ("copy", "move") and roots(b, defs, t["op"]["place"]["l"]) & set(flag):
                sw = (bi, t)
        if len(states) == 2 and sw:
            from cfg import reachable
            s1, s2 = states
            tg = dict((v, x) for v, x in sw[1]["targets"])
            true_t = sw[1]["otherwise"] if "0" in tg else tg.get("1")
            false_t = tg.get("0", sw[1]["otherwise"])
            arms = {True: reachable(b, start=true_t) - reachable(b, start=false_t), False: reachable(b, start=false_t) - reachable(b, start=true_t)}

            def resolve(op, arm, depth=0):
                """the State parameter an operand holds on the given arm: copies are followed; where a variable has one definition per
                arm (`let (vapor, liquid) = if bubble { (state2, state1) } else { (state1, state2) }`) the arm's definition is taken"""
                if op.get("k") not in ("copy", "move") or depth > 12:
                    return None
                pl = op["place"]
                l = pl["l"]
                fld = [p["f"] for p in pl["p"] if isinstance(p, dict) and "f" in p]
                if l in states and not fld:
                    return l
                ds = defs.of(l)
                cand = [d for d in ds if d[1] in arms[arm]] or ([d for d in ds] if len(ds) == 1 else [])
                for d in cand:
                    if d[0] != "stmt":
                        continue
                    rv = d[4]
                    if rv["k"] in ("use", "cast"):
                        r_ = resolve(rv["op"], arm, depth + 1)
                        if r_ is not None and not fld:
                            return r_
                        if fld and rv["op"].get("k") in ("copy", "move"):
                            inner = dict(rv["op"]["place"])
                            inner = {"l": inner["l"], "p": list(inner["p"]) + [p for p in pl["p"] if isinstance(p, dict)]}
                            return resolve({"k": "copy", "place": inner}, arm, depth + 1)
                    elif rv["k"] == "agg" and rv["kind"].get("t") == "tuple" and fld and fld[0] < len(rv["ops"]):
                        return resolve(rv["ops"][fld[0]], arm, depth + 1)
                return None

            # the slots of the result: an array literal, or the arguments of a slot constructor `fn(vapor, liquid) -> PhaseEquilibrium([vapor, liquid])`
            slot_sites = []
            for bi, si, st in b.stmts():
                rv = st["rv"]
                if rv["k"] == "agg" and rv["kind"].get("t") == "array" and len(rv["ops"]) == 2 and "state::State<" in str((b.opty(rv["ops"][0]) or {}).get("s")):
                    slot_sites.append((bi, rv["ops"]))
            for bi, t in b.calls():
                cb = F.callee_body(t)
                if cb is None or cb.is_closure() or len(t["args"]) != 2 or "PhaseEquilibrium" not in cb.path:
                    continue
                cdefs = Defs(cb)
                for bj, sj, st in cb.stmts():
                    rv = st["rv"]
                    if rv["k"] == "agg" and rv["kind"].get("t") == "array" and len(rv["ops"]) == 2:
                        rr = [roots(cb, cdefs, o["place"]["l"]) & {1, 2} for o in rv["ops"] if o.get("k") in ("copy", "move")]
                        if len(rr) == 2 and rr[0] == {1} and rr[1] == {2} and not any(callee(t2)[2] in ("gt", "lt", "partial_cmp") for _, t2 in cb.calls()):
                            slot_sites.append((bi, t["args"]))
            verdicts = {}
            for arm in (True, False):
                for bi, ops in slot_sites:
                    if bi in arms[arm] or (bi not in arms[True] and bi not in arms[False]):
                        got = (resolve(ops[0], arm), resolve(ops[1], arm))
                        if None not in got:
                            verdicts[arm] = got
            ok = verdicts.get(True) == (s2, s1) and verdicts.get(False) == (s1, s2)
        if ok:
            r.inst(iid, b.file_line(), "ok")
        else:
            r.inst(iid, b.file_line(), "violation")
            r.fail(iid, b.file_line(),
                   "bubble_dew no longer places the specified phase by role (expected the literals [state2, state1] on the bubble arm and "
                   "[state1, state2] on the dew arm): the specified composition is not guaranteed to be the liquid of a bubble point / the vapor of a dew point")
    r.exhaustive = True
    return [r]
