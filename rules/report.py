"""Findings, known-findings file, evidence files, and the per-rule result record."""
import json
import os
import re
import time

VERIF = os.path.dirname(os.path.dirname(os.path.abspath(__file__)))
KNOWN = os.path.join(VERIF, "known_findings.txt")
EVID = os.path.join(VERIF, "evidence")
REPLAY = os.path.join(VERIF, ".cache", "replay")


FLOORS_ENABLED = True     # floors are counted on the full feature set only; the cfg matrix disables them


class Finding:
    """One violated rule instance.  `key` never contains a line number."""

    def __init__(self, rule, key, where, msg, detail=None):
        self.rule = rule
        self.key = "%s|%s" % (rule, key)
        self.where = where          # file:line:col (diagnostic only)
        self.msg = msg
        self.detail = detail or {}

    def to_json(self):
        return {"rule": self.rule, "key": self.key, "where": self.where, "msg": self.msg, "detail": self.detail}


class RuleResult:
    def __init__(self, rule, title):
        self.rule = rule
        self.title = title
        self.instances = []      # dicts: {"id":..., "where":..., "verdict": "ok"|"violation"|"undecided"|"exempt", ...}
        self.findings = []
        self.notes = []
        self.blind = []
        self.exhaustive = False
        self.floors = []         # (name, measured, floor)
        self.nontrivial = set()  # ids of instances that exercised the rule non-vacuously

    def inst(self, id_, where, verdict, nontrivial=True, **kw):
        d = {"rule": self.rule, "id": id_, "where": where, "verdict": verdict}
        d.update(kw)
        self.instances.append(d)
        if nontrivial:
            self.nontrivial.add(id_)
        return d

    def fail(self, key, where, msg, **detail):
        f = Finding(self.rule, key, where, msg, detail)
        self.findings.append(f)
        return f

    def floor(self, name, measured, floor, exact=False):
        """fail closed: an anchor / instance count below what was confirmed by hand.

        `floor` is the number counted on the reviewed tree.  Counts of *sites* shrink under behaviour-preserving clean-ups
        (a duplicated expression extracted into a helper, two loops merged), so unless the count is a count of distinct named
        anchors that must each exist (`exact=True`) the alarm is raised only when fewer than 60 % of the confirmed sites are
        left: the purpose of a floor is to notice a rule that has stopped matching, not to freeze the number of call sites."""
        if not FLOORS_ENABLED:
            return
        counted = floor
        if not exact and floor >= 3:
            floor = -(-floor * 3 // 5)
        self.floors.append((name, measured, counted))
        if measured < floor:
            self.fail("floor|%s" % name, "-", "fail-closed: %s = %d below the hand-confirmed floor %d "
                      "(anchor renamed/removed or the rule no longer matches; re-confirm and update tables/)" % (name, measured, floor),
                      measured=measured, floor=floor)

    def require(self, cond, key, where, msg, **detail):
        if not cond:
            self.fail(key, where, msg, **detail)
        return cond


def load_known():
    known = {}   # key -> (property, text)
    fixed = []
    if not os.path.exists(KNOWN):
        return known, fixed
    for line in open(KNOWN):
        line = line.strip()
        if not line or line.startswith("#"):
            continue
        m = re.match(r"finding:\s+property=(\S+)\s+key=(.+?)\s+::\s+(.*)$", line)
        if m:
            for prop in m.group(1).split(","):
                known[(prop, m.group(2))] = m.group(3)
            continue
        if line.startswith("fixed:"):
            fixed.append(line)
    return known, fixed


def write_evidence(prop, tier, results, wall, violations, extra=None, seed=0):
    os.makedirs(EVID, exist_ok=True)
    insts = [i for r in results for i in r.instances]
    nontrivial = set()
    for r in results:
        for i in r.nontrivial:
            nontrivial.add((r.rule, i))
    samples = []
    per_rule = {}
    for r in results:
        per_rule[r.rule] = {
            "title": r.title,
            "instances": len(r.instances),
            "nontrivial": len(r.nontrivial),
            "ok": sum(1 for i in r.instances if i["verdict"] == "ok"),
            "exempt": sum(1 for i in r.instances if i["verdict"] == "exempt"),
            "undecided": sum(1 for i in r.instances if i["verdict"] == "undecided"),
            "violations": sum(1 for i in r.instances if i["verdict"] == "violation"),
            "findings": [f.to_json() for f in r.findings],
            "floors": [{"name": n, "measured": m, "floor": f} for n, m, f in r.floors],
            "exhaustive": r.exhaustive,
            "notes": r.notes,
            "blind_spots": r.blind,
        }
        # a few instances per rule, violations first
        order = sorted(r.instances, key=lambda i: 0 if i["verdict"] == "violation" else 1)
        samples.extend(order[:6])
    obligations = len(insts)
    discharged = sum(1 for i in insts if i["verdict"] in ("ok", "exempt"))
    cov = {
        "explanation": "static analysis (no feos code is executed): every instance of the repository-specific structural rules "
                       + ", ".join("%s (%s)" % (r.rule, r.title) for r in results)
                       + " was enumerated from the compiler's resolved program (MIR / items of feos, feos-core, feos-dft"
                       + " under the cfg sets listed) and judged; see per_rule for counts, floors and blind spots.",
        "evaluations": len(insts),
        "distinct_nontrivial": len(nontrivial),
        "rule": "an instance is one site matched by a rule template (call site, comparison, insert, impl method, constant group, record ...); "
                "distinct = distinct (rule, instance id); non-trivial = the rule's premise applied at the site (not skipped as irrelevant)",
        "samples": samples[:40],
        "obligations": obligations,
        "discharged": discharged,
        "exhaustive": all(r.exhaustive for r in results) if results else False,
        "per_rule": per_rule,
        "trusted_base": ["rustc MIR construction / type checking (nightly 1.97)", "num-dual part semantics (re/eps/v1..)",
                         "hand-confirmed tables under /verif/tables (re-validated against the facts on every run)"],
    }
    if extra:
        cov.update(extra)
    ev = {
        "property_id": prop,
        "tier": tier,
        "seed": seed,
        "level": "other",
        "coverage": cov,
        "assumptions": ["generic MIR is analysed polymorphically; macro-generated code after expansion",
                        "python bindings (feature `python`) are not analysed"],
        "wall_s": round(wall, 3),
        "violations": violations,
    }
    p = os.path.join(EVID, prop + ".json")
    tmp = p + ".tmp"
    with open(tmp, "w") as fh:
        json.dump(ev, fh, indent=1)
    os.replace(tmp, p)
    return p


def write_replay(prop, finding):
    os.makedirs(REPLAY, exist_ok=True)
    name = re.sub(r"[^A-Za-z0-9_.-]+", "_", finding.key)[:150]
    p = os.path.join(REPLAY, "%s-%s.json" % (prop, name))
    with open(p, "w") as fh:
        json.dump({"property": prop, **finding.to_json()}, fh, indent=1)
    return p
