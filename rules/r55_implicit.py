"""R55 IMPLICIT-DERIVATIVES — dN/dX is the integral of drho/dX, and every drho/dX is one solve of the same linear operator.

C19: the adsorbed amounts change with mu, p, T "as reported by the implicit derivatives dN/dmu, dN/dp, dN/dT".  The three
derivatives are computed by `DFTProfile::{drho_dmu, drho_dp, drho_dt}` — each assembles a right-hand side and solves the
linearised Euler-Lagrange equation with `density_derivative` (GMRES) — and `dn_dmu / dn_dp / dn_dt` integrate them.  Visible
in the shape of the code, and necessary for the reported numbers to be derivatives of one and the same N(mu, p, T):

  (a) each `dn_dX` obtains its integrand from the same-named `drho_dX` and from nothing else, and integrates it with the
      profile's own integration (`integrate_segments` / `integrate_reduced_segments`);
  (b) each `drho_dX` obtains its result from `density_derivative` (the one linear operator) and divides by the temperature of
      the same profile;
  (c) the planar surface tension integrates `grand_potential_density() + p` with the pressure of the coexisting bulk phase
      taken with `Contributions::Total` (R10f) over the same profile;
  (d) `ideal_gas_enthalpy_of_adsorption` differentiates the Henry coefficients by seeding the temperature passed to
      `_henry_coefficients` with `.derivative()` and reads value and derivative parts (`re`, `eps`) of its result (the dual
      flow inside is R1a's obligation)."""
from cfg import Defs
from facts import callee
from report import RuleResult

PAIRS = {"dn_dmu": "drho_dmu", "dn_dp": "drho_dp", "dn_dt": "drho_dt"}
INTEGRATE = ("integrate_segments", "integrate_reduced_segments", "integrate_comp", "integrate_reduced_comp", "integrate")


def _calls(b, F):
    out = []
    for x in [b] + [c for c in F.bodies if c.is_closure() and (c.d.get("parent") or "") == b.path]:
        out += [(x, bi, t) for bi, t in x.calls()]
    return out


def run(F):
    r = RuleResult("R55", "IMPLICIT-DERIVATIVES: dN/dX integrates drho/dX; every drho/dX is one solve of density_derivative; surface tension integrates omega + p")
    n = 0
    prop = "feos_dft::profile::properties::"
    for dn, drho in PAIRS.items():
        bs = [b for b in F.bodies if not b.is_closure() and b.path.startswith(prop) and b.path.endswith("::" + dn)]
        iid = "implicit|%s" % dn
        if not bs:
            r.inst(iid, "-", "violation")
            r.fail(iid + "|missing", "-", "DFTProfile::%s not found" % dn)
            continue
        names = [str(callee(t)[2]) for _, _, t in _calls(bs[0], F)]
        others = [x for x in names if x.startswith(("drho_", "dn_")) and x != drho]
        n += 1
        if drho in names and any(x in INTEGRATE for x in names) and not others:
            r.inst(iid, bs[0].file_line(), "ok", integrand=drho)
        else:
            r.inst(iid, bs[0].file_line(), "violation")
            r.fail(iid, bs[0].file_line(),
                   "DFTProfile::%s no longer integrates DFTProfile::%s (calls: %s): the reported derivative of the adsorbed amount is not the integral "
                   "of the reported derivative of the density" % (dn, drho, sorted(set(x for x in names if x.startswith(("drho_", "dn_", "integrate"))))))
    for drho in PAIRS.values():
        bs = [b for b in F.bodies if not b.is_closure() and b.path.startswith(prop) and b.path.endswith("::" + drho)]
        iid = "implicit|%s" % drho
        if not bs:
            r.inst(iid, "-", "violation")
            r.fail(iid + "|missing", "-", "DFTProfile::%s not found" % drho)
            continue
        names = [str(callee(t)[2]) for _, _, t in _calls(bs[0], F)]
        n += 1
        if "density_derivative" in names:
            r.inst(iid, bs[0].file_line(), "ok")
        else:
            r.inst(iid, bs[0].file_line(), "violation")
            r.fail(iid, bs[0].file_line(), "DFTProfile::%s no longer solves the linearised Euler-Lagrange equation through density_derivative" % drho)
    # (c) surface tension
    bs = [b for b in F.bodies if not b.is_closure() and b.path.endswith("interface::PlanarInterface::<F>::solve_inplace")]
    iid = "implicit|surface_tension"
    if not bs:
        r.inst(iid, "-", "violation")
        r.fail(iid + "|missing", "-", "PlanarInterface::solve_inplace not found")
    else:
        b = bs[0]
        # the post-processing may live in a method of PlanarInterface that solve_inplace delegates to
        if not any(callee(t)[2] == "grand_potential_density" for _, t in b.calls()):
            for bi, t in b.calls():
                cb = F.callee_body(t)
                if cb is not None and "interface::PlanarInterface" in cb.path and any(callee(t2)[2] == "grand_potential_density" for _, t2 in cb.calls()):
                    b = cb
        defs = Defs(b)
        ok = False
        for bi, t in b.calls():
            if callee(t)[2] != "add" or len(t["args"]) != 2:
                continue
            srcs = set()
            for a in t["args"]:
                l = a["place"]["l"] if a.get("k") in ("copy", "move") else None
                for _ in range(8):
                    if l is None:
                        break
                    ds = defs.of(l)
                    if len(ds) != 1:
                        break
                    d = ds[0]
                    if d[0] == "call":
                        nm = str(callee(d[2])[2])
                        if nm in ("branch", "unwrap", "clone", "deref", "into", "from_residual") and d[2]["args"] and d[2]["args"][0].get("k") in ("copy", "move"):
                            l = d[2]["args"][0]["place"]["l"]
                            continue
                        srcs.add(nm)
                        break
                    rv = d[4]
                    if rv["k"] in ("use", "cast") and rv["op"].get("k") in ("copy", "move"):
                        l = rv["op"]["place"]["l"]
                    elif rv["k"] == "ref":
                        l = rv["place"]["l"]
                    else:
                        break
            if srcs == {"grand_potential_density", "pressure"}:
                ok = True
        n += 1
        if ok and any(callee(t)[2] == "integrate" for _, t in b.calls()):
            r.inst(iid, b.file_line(), "ok")
        else:
            r.inst(iid, b.file_line(), "violation")
            r.fail(iid, b.file_line(), "PlanarInterface::solve_inplace: the surface tension is no longer the integral of grand_potential_density() + pressure(..)")
    # (d) ideal-gas enthalpy of adsorption
    bs = [b for b in F.bodies if not b.is_closure() and b.path.endswith("::ideal_gas_enthalpy_of_adsorption") and "adsorption::pore" in b.path]
    iid = "implicit|ideal_gas_enthalpy_of_adsorption"
    if not bs:
        r.inst(iid, "-", "violation")
        r.fail(iid + "|missing", "-", "PoreProfile::ideal_gas_enthalpy_of_adsorption not found")
    else:
        b = bs[0]
        cs = _calls(b, F)
        names = [str(callee(t)[2]) for _, _, t in cs]
        parts = set()
        for x in [b] + [c for c in F.bodies if c.is_closure() and (c.d.get("parent") or "") == b.path]:
            for bi, si, st in x.stmts():
                rv = st["rv"]
                pl = rv.get("place") if rv["k"] in ("ref",) else (rv["op"].get("place") if rv["k"] == "use" and rv["op"].get("k") in ("copy", "move") else None)
                if pl:
                    for p in pl["p"]:
                        if isinstance(p, dict) and str(p.get("o", "")).startswith("num_dual::"):
                            parts.add(p["n"])
        n += 1
        if any("henry_coefficients" in x for x in names) and "derivative" in names and {"re", "eps"} <= parts:
            r.inst(iid, b.file_line(), "ok", parts=sorted(parts))
        else:
            r.inst(iid, b.file_line(), "violation", parts=sorted(parts))
            r.fail(iid, b.file_line(), "ideal_gas_enthalpy_of_adsorption: the temperature is no longer seeded with .derivative() for _henry_coefficients, "
                                       "or value / derivative parts of its result are no longer both read (found calls %s, parts %s)" % (
                                           sorted(set(x for x in names if x in ("_henry_coefficients", "derivative"))), sorted(parts)))
    # (f) drho_dt: the right-hand side is m_i * (d F'/dT part) + v_i dp/dT: the chain-length scaling applies to the functional part
    #     only, so the bulk term (built from partial_molar_volume / dp_dt) is added after the scaling, never before it
    bs = [b for b in F.bodies if not b.is_closure() and b.path.startswith(prop) and b.path.endswith("::drho_dt")]
    if bs:
        from cfg import reachable
        b = bs[0]
        bodies = [b] + [c for c in F.bodies if c.is_closure() and (c.d.get("parent") or "") == b.path]
        scale_blocks, add_blocks = [], []
        for x in bodies:
            if x is not b:
                continue
            defs = Defs(x)
            for bi, t in x.calls():
                nm = str(callee(t)[2])
                if nm not in ("mul_assign", "add_assign") or len(t["args"]) != 2:
                    continue
                srcs = set()
                work, seen = [t["args"][1]["place"]["l"]] if t["args"][1].get("k") in ("copy", "move") else [], set()
                while work and len(seen) < 80:
                    l = work.pop()
                    if l in seen:
                        continue
                    seen.add(l)
                    for d in defs.of(l):
                        if d[0] == "call":
                            srcs.add(str(callee(d[2])[2]))
                            work += [a["place"]["l"] for a in d[2]["args"] if a.get("k") in ("copy", "move")]
                        else:
                            rv = d[4]
                            ops = [rv["op"]] if rv["k"] in ("use", "cast") else [rv["a"], rv["b"]] if rv["k"] == "binop" else []
                            if rv["k"] == "ref":
                                ops = [{"k": "copy", "place": rv["place"]}]
                            work += [o["place"]["l"] for o in ops if o.get("k") in ("copy", "move")]
                if nm == "mul_assign" and "m" in srcs:
                    scale_blocks.append(bi)
                if nm == "add_assign" and ({"partial_molar_volume", "dp_dt"} & srcs):
                    add_blocks.append(bi)
        iid = "implicit|drho_dt|order"
        # the same inside a per-row closure (`for_each(|((((mut lhs, rho), rho_b), &m), x)| { ..; lhs *= m; lhs += x; })`): a scalar
        # factor is applied before a scalar summand is added
        closure_verdict = None
        for x in bodies:
            if x is b:
                continue
            muls = [bi for bi, t in x.calls() if callee(t)[2] == "mul_assign" and len(t["args"]) == 2 and (x.opty(t["args"][1]) or {}).get("s") in ("f64", "&f64")]
            adds = [bi for bi, t in x.calls() if callee(t)[2] == "add_assign" and len(t["args"]) == 2 and (x.opty(t["args"][1]) or {}).get("s") in ("f64", "&f64")]
            if muls and adds:
                closure_verdict = not any(mb in reachable(x, start=ab) for ab in adds for mb in muls)
        if closure_verdict is not None:
            n += 1
            if closure_verdict:
                r.inst(iid, b.file_line(), "ok")
            else:
                r.inst(iid, b.file_line(), "violation")
                r.fail(iid, b.file_line(), "DFTProfile::drho_dt: the bulk term v_i dp/dT is added before the right-hand side is scaled with the chain "
                                           "length m_i, so it is scaled as well: dN/dT of chain molecules (m != 1) is wrong")
        elif scale_blocks and add_blocks:
            n += 1
            bad = any(sb in reachable(b, start=ab) for ab in add_blocks for sb in scale_blocks if sb != ab)
            if bad:
                r.inst(iid, b.file_line(), "violation")
                r.fail(iid, b.file_line(), "DFTProfile::drho_dt: the bulk term v_i dp/dT is added before the right-hand side is scaled with the chain "
                                           "length m_i, so it is scaled as well: dN/dT of chain molecules (m != 1) is wrong")
            else:
                r.inst(iid, b.file_line(), "ok")
        else:
            r.inst(iid, b.file_line(), "undecided", nontrivial=False)
    # (e) segment -> component aggregation of an integral *assigns* one representative segment per component (all segments of a
    #     molecule integrate to the same number of molecules); accumulating them multiplies Henry coefficients and dN/dmu of
    #     heterosegmented molecules by the number of segments
    for nm in ("integrate_segments", "integrate_reduced_segments"):
        bs = [b for b in F.bodies if not b.is_closure() and b.path.startswith("feos_dft::profile::") and b.path.endswith("::" + nm)]
        iid = "implicit|%s" % nm
        if not bs:
            r.inst(iid, "-", "violation")
            r.fail(iid + "|missing", "-", "DFTProfile::%s not found" % nm)
            continue
        names = [str(callee(t)[2]) for _, _, t in _calls(bs[0], F)]
        acc = [x for x in names if x in ("add_assign", "sum", "fold", "scaled_add", "sum_axis")]
        n += 1
        if "component_index" not in names:
            r.inst(iid, bs[0].file_line(), "violation")
            r.fail(iid + "|component_index", bs[0].file_line(),
                   "DFTProfile::%s no longer maps segments to components through `component_index()`: the first axis of a profile counts "
                   "segments, so indexing it with a component number reads another component's segment for heterosegmented mixtures" % nm)
        elif acc:
            r.inst(iid, bs[0].file_line(), "violation")
            r.fail(iid, bs[0].file_line(),
                   "DFTProfile::%s accumulates (%s) the segment integrals of a component instead of assigning one representative: quantities "
                   "of heterosegmented molecules are multiplied by their number of segments" % (nm, ", ".join(sorted(set(acc)))))
        else:
            r.inst(iid, bs[0].file_line(), "ok")
    r.floor("implicit-derivative obligations", n, 10)
    r.exhaustive = True
    return [r]
