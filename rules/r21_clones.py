"""R21 CLONES — sibling copies of one piece of model code keep the same shape.

The groups in tables/r21.toml are functions / closures that are copy-paste clones today (identical sequence of
callee names, floating-point operators and constants, confirmed by reading).  A change applied to one clone but not to its siblings — dropping the sqrt(n_i)
scaling from one of the three criticality objectives, editing one of the two cross-association solvers — makes the
clones disagree, which is exactly the 'independent implementations of the same model agree' property (C08) and, for the
criticality objectives, the defining conditions of C06."""
import os
import tomllib

from facts import callee
from report import RuleResult

TABLE = os.path.join(os.path.dirname(os.path.dirname(os.path.abspath(__file__))), "tables", "r21.toml")
IGN = {"from", "from_re", "into", "clone", "deref", "deref_mut", "borrow", "as_ref", "to_owned", "branch", "from_residual", "into_iter", "next",
       "drop", "unwrap", "expect", "fmt", "new_display", "new_debug", "to_string"}


def _scalar_lookup(b, t):
    """index / index_mut that yields a number (an element of a parameter or density array); looking up a *record* in a list
    (`a.sites_a[0]`) is addressing, and how often it is spelled out is not part of the computation"""
    ty = b.lty(t["dest"]["l"]) or {}
    k = ty.get("k", "")
    while k.startswith("ref:"):
        k = k[4:]
    return not k.startswith("adt:") or bool(ty.get("dual")) or bool(ty.get("f64"))


def _sequence(b, F=None, depth=0, members=frozenset(), keep=frozenset()):
    """sequence of callee names, float-typed MIR operators and float constants (integer arithmetic, conversions,
    iterator plumbing and error plumbing are left out).  Calls of small private helpers of the same crate are replaced by
    the helper's own signature, so that extracting a repeated sub-expression into a helper in one clone only keeps the
    clones in agreement (the computation is compared, not its division into functions)."""
    out = []
    for blk in b.blocks:
        if blk["cleanup"]:
            continue
        for st in blk["stmts"]:
            if st.get("exp"):
                continue
            rv = st["rv"]
            if rv["k"] == "binop":
                ops = [rv["a"], rv["b"]]
                if any(o.get("f") is not None for o in ops) or any((b.opty(o) or {}).get("f64") for o in ops if o.get("k") in ("copy", "move")):
                    out.append("op:" + rv["op"])
                    for o in ops:
                        if o.get("f") is not None:
                            out.append("c:%s" % o["f"])
            elif rv["k"] == "unop" and rv["a"].get("k") in ("copy", "move") and (b.opty(rv["a"]) or {}).get("f64"):
                out.append("un:" + rv["op"])
        t = blk["term"]
        if t["k"] == "call" and not t.get("exp"):
            n = callee(t)[2]
            if n in PLUMBING:
                continue
            if str(callee(t)[0]).endswith(("WeightFunctionInfo::<T>::add", "WeightFunctionInfo::<T>::extend")):
                continue          # registration of weight functions (`extend` is a loop over `add`): the layout is R64's business
            cb = F.callee_body(t) if F is not None and depth < 2 else None
            if cb is not None and not cb.is_closure() and cb.get("vis") != "Public" and len(cb.blocks) <= 400 \
                    and cb.path.split("::")[0] == b.path.split("::")[0] and cb.path not in members and cb.path != b.path and n not in keep:
                out.extend(_sequence(cb, F, depth + 1, members, keep))
                # .. and the closures written in the helper
                for c in F.bodies:
                    if c.is_closure() and c.path.startswith(cb.path + "::{closure#") and c.path not in members:
                        out.extend(_sequence(c, F, depth + 1, members, keep))
                continue
            if n and n not in IGN:
                out.append(n)
                for a in t["args"]:
                    if a.get("f") is not None:
                        out.append("c:%s" % a["f"])
    return tuple(out)


PLUMBING = {"index", "index_mut", "map", "collect", "iter", "iter_mut", "into_iter", "zip", "enumerate", "for_each", "rev", "len", "push",
            "with_capacity", "from_vec", "to_vec", "next", "cloned", "copied", "get", "new", "from_iter", "components", "from_shape_fn",
            "range", "skip", "take", "outer_iter", "call", "call_mut", "call_once", "raw_dim", "dim", "shape", "nrows", "ncols", "is_empty"}


def signature(b, F=None, depth=0, members=frozenset(), keep=frozenset()):
    """multiset (sorted (item, count) pairs) of the arithmetic of a function: its own body, the closures written inside it
    (unless a closure is itself a member of a clone group) and the small private helpers it calls.  Order, the division into
    closures / helpers, array addressing and iterator plumbing are not part of it: `(0..n).map(|i| f(p[i])).collect()[0]`
    and `f(p[0])` carry the same arithmetic."""
    from collections import Counter
    items = list(_sequence(b, F, depth, members, keep))
    if F is not None:
        for c in F.bodies:
            if c.is_closure() and c.path.startswith(b.path + "::{closure#") and c.path not in members:
                items += list(_sequence(c, F, depth, members, keep))
    return tuple(sorted(Counter(items).items()))


def _callee_names(b, F, depth=0):
    """names of the repository functions a member calls — directly or through the private helpers that would be inlined into its
    signature (a helper extracted in one copy only must not change which calls all copies have in common)"""
    out = set()
    for x in [b] + [c for c in F.bodies if c.is_closure() and c.path.startswith(b.path + "::{closure#")]:
        for bi, t in x.calls():
            cb = F.callee_body(t)
            if cb is not None:
                out.add(callee(t)[2])
                if depth < 2 and not cb.is_closure() and cb.get("vis") != "Public" and len(cb.blocks) <= 400 \
                        and cb.path.split("::")[0] == b.path.split("::")[0] and cb.path != b.path:
                    out |= _callee_names(cb, F, depth + 1)
    return out


_signature_all = signature


def run(F, want=None):
    r = RuleResult("R21", "CLONES: copy-paste siblings of one model keep identical call sequences")
    with open(TABLE, "rb") as fh:
        tab = tomllib.load(fh)
    n_groups = 0
    ALL_MEMBERS = frozenset(b.path for g in tab["group"] for suf in g["members"] for b in F.bodies if b.path.endswith(suf))
    for g in tab["group"]:
        if want and not any(w in g["name"] for w in want):
            continue
        members = []
        lost = []
        found = [(suf, [b for b in F.bodies if b.path.endswith(suf)]) for suf in g["members"]]
        # helpers that every member calls under the same name stay calls (their own differences are not this group's business);
        # a helper that only some members call was extracted in those copies only and is replaced by its body
        HOIST = frozenset(g.get("hoistable", ()))      # loop-invariant getters a copy may evaluate outside the member closure

        def signature(b_, F_, depth_, members_, keep_, _sig=_signature_all, _h=HOIST):
            return tuple((k_, c_) for k_, c_ in _sig(b_, F_, depth_, members_, keep_) if k_ not in _h)
        name_sets = [_callee_names(bs[0], F) for suf, bs in found if bs]
        KEEP = frozenset(set.intersection(*name_sets)) if name_sets else frozenset()
        for suf, bs in found:
            if bs:
                members.append((suf, bs[0], signature(bs[0], F, 0, ALL_MEMBERS, KEEP)))
            else:
                lost.append(suf)
        # a closure member is addressed by its index; removing another closure of the parent renumbers it: re-resolve a lost closure
        # member to the closure of the same parent that carries the signature of the members that were found
        for suf in lost:
            if "::{closure#" not in suf or not members:
                continue
            parent_suf = suf.rsplit("::{closure#", 1)[0]
            ref_sig = members[0][2]
            cands = [c for c in F.bodies if c.is_closure() and c.path.rsplit("::{closure#", 1)[0].endswith(parent_suf)]
            exact = [c for c in cands if signature(c, F, 0, ALL_MEMBERS, KEEP) == ref_sig]
            pick = exact[:1]
            if not pick and g.get("diff") is not None and len(g["members"]) == 2:
                d0 = dict(ref_sig)
                for c in cands:
                    d1 = dict(signature(c, F, 0, ALL_MEMBERS, KEEP))
                    now = sorted("%s:%+d" % (k_, d1.get(k_, 0) - d0.get(k_, 0)) for k_ in set(d0) | set(d1) if d0.get(k_, 0) != d1.get(k_, 0))
                    inv = sorted("%s:%+d" % (k_, d0.get(k_, 0) - d1.get(k_, 0)) for k_ in set(d0) | set(d1) if d0.get(k_, 0) != d1.get(k_, 0))
                    if now == sorted(g["diff"]) or inv == sorted(g["diff"]):
                        pick = [c]
            if pick:
                entry = (suf, pick[0], signature(pick[0], F, 0, ALL_MEMBERS, KEEP))
                # keep the table's member order (the reviewed difference is oriented)
                members.insert(g["members"].index(suf) if g["members"].index(suf) <= len(members) else len(members), entry)
        iid = "clones|%s" % g["name"]
        if len(members) < 2 and lost and all("::{closure#" in suf for suf in g["members"]):
            # the members were closures and fewer than two are left (a closure index that still resolves may by now be another closure
            # of the same function), but the functions they were written in still exist: the copies were merged into one shared
            # helper (nothing is left that could disagree)
            parents = [suf.rsplit("::{closure#", 1)[0] for suf in lost]
            if all(any(b.path.endswith(pp) and not b.is_closure() for b in F.bodies) for pp in parents):
                r.inst(iid, "-", "exempt", nontrivial=False, note="the clones no longer exist as separate bodies (merged)")
                n_groups += 1
                continue
        if len(members) < 2:
            if F.config == "full":
                r.inst(iid, "-", "violation")
                r.fail("clones|%s|missing" % g["name"], "-", "clone group `%s`: fewer than two members found (renamed / removed?): re-confirm tables/r21.toml" % g["name"])
            continue
        n_groups += 1
        sigs = {}
        for suf, b, s in members:
            sigs.setdefault(s, []).append((suf, b))
        if len(sigs) > 1:
            # closure members are addressed by index; adding / removing another closure in the parent renumbers them:
            # a deviating closure member is re-resolved to the sibling closure of the same parent that carries the
            # majority signature, if there is one
            for major in [kv[0] for kv in sorted(sigs.items(), key=lambda kv: -len(kv[1]))]:
                fixed = []
                for suf, b, s in members:
                    if s != major and "::{closure#" in suf:
                        parent = b.path.rsplit("::{closure#", 1)[0]
                        alt = [c for c in F.bodies if c.path.startswith(parent + "::{closure#") and signature(c, F, 0, ALL_MEMBERS, KEEP) == major]
                        if alt:
                            b, s = alt[0], major
                    fixed.append((suf, b, s))
                if len({m[2] for m in fixed}) == 1:
                    members = fixed
                    break
            sigs = {}
            for suf, b, s in members:
                sigs.setdefault(s, []).append((suf, b))
        if len(sigs) == 1 and not g.get("diff"):
            r.inst(iid, members[0][1].file_line(), "ok", members=len(members), calls=len(members[0][2]))
            continue
        if g.get("diff") is not None and len(members) == 2:
            # siblings that are clones up to a reviewed difference (a unit conversion spelled differently, another map type):
            # the difference between the two multisets must stay exactly the reviewed one
            d0, d1 = dict(members[0][2]), dict(members[1][2])
            now = sorted("%s:%+d" % (k_, d0.get(k_, 0) - d1.get(k_, 0)) for k_ in set(d0) | set(d1) if d0.get(k_, 0) != d1.get(k_, 0))
            if now == sorted(g["diff"]):
                r.inst(iid, members[0][1].file_line(), "ok", members=2, reviewed_difference=now)
            else:
                r.inst(iid, members[0][1].file_line(), "violation", members=2)
                r.fail("clones|%s|%s" % (g["name"], members[0][0]), members[0][1].file_line(),
                       "clone group `%s`: the difference between %s and %s is now %s (reviewed: %s) — an edit was applied to one copy only" % (
                           g["name"], members[0][0], members[1][0], now, sorted(g["diff"])))
            continue
        # the minority member is the deviant
        groups = sorted(sigs.items(), key=lambda kv: (len(kv[1]), kv[1][0][0]))
        odd_sig, odd = groups[0]
        ref_sig = groups[-1][0]
        do, dr = dict(odd_sig), dict(ref_sig)
        diff = ["%s x%d vs x%d" % (k_, do.get(k_, 0), dr.get(k_, 0)) for k_ in sorted(set(do) | set(dr)) if do.get(k_, 0) != dr.get(k_, 0)]
        r.inst(iid, odd[0][1].file_line(), "violation", members=len(members))
        r.fail("clones|%s|%s" % (g["name"], odd[0][0]), odd[0][1].file_line(),
               "clone group `%s`: %s no longer carries the same arithmetic as its sibling(s) %s (%s) — "
               "an edit was applied to one copy only" % (g["name"], odd[0][0], [m[0] for m in groups[-1][1]], "; ".join(diff[:6])))
    if want is None:
        r.floor("clone groups with >= 2 members", n_groups, len(tab["group"]))
    r.exhaustive = True
    return [r]
