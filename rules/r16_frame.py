"""R16 FRAME — the specified phase keeps its composition; selectors return what they name.

(a) bubble/dew machinery: in adjust_states and both TemperatureOrPressure::newton_step implementations every
    store to the *first* `&mut State` parameter (the phase whose composition is specified) is built from a
    composition operand rooted in that same parameter; adjust_x2 takes the specified phase by shared reference.
(b) DFTSpecifications::calculate_bulk_density returns its bulk_density argument unchanged on the
    ChemicalPotential arm (default specification leaves the bulk state unchanged)."""
from cfg import Defs, reachable, value_roots, provenance, dominators
from facts import callee
from report import RuleResult

COMPOSITION_SETTERS = {"molefracs": 1, "moles": 1, "partial_density": 1}
COMPOSITION_CTORS = {"new_npt": 3, "new_nvt": 3, "new_npvx": 3}
CHAIN = ("branch", "build", "temperature", "density", "pressure", "volume", "total_moles", "molefracs", "moles",
         "partial_density", "initial_density", "vapor", "liquid", "molar_enthalpy", "molar_entropy", "molar_internal_energy",
         "initial_temperature", "check_trivial_solution")


def state_params(b, mutable):
    out = []
    for l in range(1, b["arg_count"] + 1):
        s = b.lty(l)["s"]
        if mutable and s.startswith("&mut ") and "state::State<" in s:
            out.append(l)
        if not mutable and s.startswith("&") and not s.startswith("&mut") and "state::State<" in s:
            out.append(l)
    return out


def composition_sources(b, defs, start_local):
    """walk the builder / constructor chain backwards from a stored value; return list of
    (callee name, span, param roots of the composition operand)"""
    out = []
    seen = set()
    work = [start_local]
    while work:
        l = work.pop()
        if l in seen:
            continue
        seen.add(l)
        for d in defs.of(l):
            if d[0] == "stmt":
                rv = d[4]
                if rv["k"] == "use" and rv["op"]["k"] in ("copy", "move"):
                    work.append(rv["op"]["place"]["l"])
                continue
            t = d[2]
            p, tr, name = callee(t)
            if name in COMPOSITION_CTORS and "State" in p:
                a = t["args"][COMPOSITION_CTORS[name]]
                roots = provenance(b, defs, [a["place"]["l"]], call_names=("unwrap_or", "deref", "clone", "to_owned"))[0] if a["k"] in ("copy", "move") else set()
                out.append((name, t["span"], roots))
                continue
            if name in COMPOSITION_SETTERS and "StateBuilder" in p:
                a = t["args"][COMPOSITION_SETTERS[name]]
                roots = provenance(b, defs, [a["place"]["l"]], call_names=("deref", "clone", "to_owned"))[0] if a["k"] in ("copy", "move") else set()
                out.append((name, t["span"], roots))
            if name in CHAIN and t["args"] and t["args"][0]["k"] in ("copy", "move"):
                work.append(t["args"][0]["place"]["l"])
    return out


def run(F):
    r = RuleResult("R16", "FRAME: the specified phase keeps its composition; default DFT specification returns the bulk density unchanged")
    n_store = 0
    targets = [b for b in F.bodies if not b.is_closure() and "phase_equilibria::bubble_dew" in b.path and
               (b.path.endswith("::adjust_states") or b.path.endswith("::newton_step"))]
    for b in targets:
        if b.get("in_trait"):
            continue   # trait declaration without body
        defs = Defs(b)
        ps = state_params(b, True)
        if len(ps) < 2:
            r.fail("frame|%s|params" % b.path.split("::")[-1], b.file_line(), "%s: expected two &mut State parameters" % b.path)
            continue
        spec = ps[0]
        fn = b.path.split("::")[-1] + ("<T>" if "NInt" not in b.path.split(" as ")[0] and "as phase_equilibria" in b.path else ("<p>" if "as phase_equilibria" in b.path else ""))
        for bi, si, st in b.stmts():
            pl = st["place"]
            if pl["l"] == spec and pl["p"] == ["*"]:
                n_store += 1
                rv = st["rv"]
                srcs = []
                if rv["k"] == "use" and rv["op"]["k"] in ("copy", "move"):
                    srcs = composition_sources(b, defs, rv["op"]["place"]["l"])
                iid = "frame|%s|store" % fn
                bad = [s for s in srcs if s[2] != {spec}]
                if not srcs:
                    r.inst(iid, st["span"], "violation")
                    r.fail("frame|%s|no-composition" % fn, st["span"], "%s: the new value of the specified phase has no recognisable composition operand" % fn)
                elif bad:
                    r.inst(iid, st["span"], "violation")
                    r.fail("frame|%s|foreign-composition" % fn, bad[0][1],
                           "%s: the specified phase (parameter `%s`) is rebuilt from a composition that is not its own (%s rooted in %s): "
                           "a bubble/dew point would no longer keep the specified composition" % (
                               fn, b.lname(spec), bad[0][0], sorted(b.lname(x) or "_%d" % x for x in bad[0][2])))
                else:
                    r.inst(iid, st["span"], "ok", via=[s[0] for s in srcs])
    r.floor("stores to the specified phase", n_store, 3)
    ax = [b for b in F.bodies if b.path.endswith("bubble_dew::adjust_x2")]
    if not ax:
        r.fail("frame|adjust_x2|missing", "-", "adjust_x2 not found")
    else:
        b = ax[0]
        if len(state_params(b, False)) >= 1 and len(state_params(b, True)) == 1:
            r.inst("frame|adjust_x2|shared-ref", b.file_line(), "ok")
        else:
            r.inst("frame|adjust_x2|shared-ref", b.file_line(), "violation")
            r.fail("frame|adjust_x2|shared-ref", b.file_line(), "adjust_x2 must take the specified phase by shared reference and only the incipient phase mutably")

    # ---------------- (b) default DFT specification
    cb = [b for b in F.bodies if b.path.endswith("DFTSpecifications as profile::DFTSpecification<D, F>>::calculate_bulk_density")]
    if not cb:
        r.fail("spec|missing", "-", "DFTSpecifications::calculate_bulk_density not found")
    else:
        b = cb[0]
        defs = Defs(b)
        # first Array1 parameter = bulk_density
        arrs = [l for l in range(2, b["arg_count"] + 1) if "ArrayBase" in b.lty(l)["s"]]
        sw = None
        for bi, blk in enumerate(b.blocks):
            tt = blk["term"]
            if tt["k"] == "switch" and tt["op"]["k"] in ("copy", "move"):
                for d in defs.of(tt["op"]["place"]["l"]):
                    if d[0] == "stmt" and d[4]["k"] == "discr" and d[4]["place"]["l"] == 1:
                        sw = (bi, tt)
        ok = False
        where = b.file_line()
        if sw and arrs:
            bi, tt = sw
            tv = {v: bb for v, bb in tt["targets"]}
            arm = tv.get("0")    # ChemicalPotential is variant 0
            adt = None
            for c, a in F.items("adts"):
                if a["path"].endswith("profile::DFTSpecifications"):
                    adt = a
            if adt and adt["variants"][0]["name"] == "ChemicalPotential" and arm is not None:
                others = set()
                for v, bb in tt["targets"]:
                    if bb != arm:
                        others |= reachable(b, start=bb)
                others |= reachable(b, start=tt["otherwise"]) if tt["otherwise"] != arm else set()
                region = reachable(b, start=arm) - others
                calls = [(x, t) for x, t in b.calls() if x in region]
                if len(calls) == 1 and callee(calls[0][1])[2] == "clone":
                    a0 = calls[0][1]["args"][0]
                    where = calls[0][1]["span"]
                    if a0["k"] in ("copy", "move") and provenance(b, defs, [a0["place"]["l"]])[0] == {arrs[0]}:
                        ok = True
        if ok:
            r.inst("spec|ChemicalPotential-identity", where, "ok")
        else:
            r.inst("spec|ChemicalPotential-identity", where, "violation")
            r.fail("spec|ChemicalPotential-identity", where, "DFTSpecifications::ChemicalPotential no longer returns the bulk density argument unchanged")
    # ---------------- (c) an initial guess never supplies a *specified* temperature / pressure
    n_guess = guess_frame(F, r)
    r.floor("solver entry points with an initial-guess parameter", n_guess, 3)
    r.exhaustive = True
    return [r]


def derived_params(b, defs, local, seen=None):
    """parameters a value is derived from, through copies, refs, field reads and the arguments of *any* call"""
    if seen is None:
        seen = set()
    out = set()
    work = [local]
    while work:
        l = work.pop()
        if l in seen:
            continue
        seen.add(l)
        ds = defs.of(l)
        if 1 <= l <= b["arg_count"]:
            out.add(l)
        for d in ds:
            if d[0] == "call":
                for a in d[2]["args"]:
                    if a.get("k") in ("copy", "move"):
                        work.append(a["place"]["l"])
            else:
                rv = d[4]
                ops = []
                if rv["k"] in ("use", "cast", "repeat"):
                    ops = [rv["op"]]
                elif rv["k"] in ("ref", "discr"):
                    work.append(rv["place"]["l"])
                elif rv["k"] == "binop":
                    ops = [rv["a"], rv["b"]]
                elif rv["k"] == "unop":
                    ops = [rv["a"]]
                elif rv["k"] == "agg":
                    ops = rv["ops"]
                for o in ops:
                    if o.get("k") in ("copy", "move"):
                        work.append(o["place"]["l"])
    return out


def _imposes(F, cb, param, types, memo, depth=0):
    """quantity types (among `types`) that `cb` hands to a state-building call with a value derived from its parameter `param`"""
    key = (cb.path, param)
    if key in memo or depth > 2:
        return memo.get(key, set())
    memo[key] = set()
    out = set()
    defs = Defs(cb)
    for bi, t in cb.calls():
        rty = (cb.pty(t["dest"]) or {}).get("s", "")
        if "state::State<" not in rty and "PhaseEquilibrium<" not in rty and "StateBuilder<" not in rty:
            continue
        for ai, a in enumerate(t["args"]):
            if a.get("k") not in ("copy", "move"):
                continue
            ty = cb.opty(a)
            if ty and ty["s"] in types and param in derived_params(cb, defs, a["place"]["l"]):
                out.add(ty["s"])
        cb2 = F.callee_body(t)
        if cb2 is not None and cb2.crate == "feos_core" and not cb2.is_closure() and cb2["arg_count"] == len(t["args"]) and cb2.path != cb.path:
            for ai, a in enumerate(t["args"]):
                if a.get("k") in ("copy", "move") and param in derived_params(cb, defs, a["place"]["l"]):
                    out |= _imposes(F, cb2, ai + 1, types, memo, depth + 1)
    memo[key] = out
    return out


def guess_frame(F, r):
    """Functions of the phase-equilibrium module that take an initial guess (Option<&PhaseEquilibrium> / &PhaseEquilibrium
    named by type) together with a *specified* temperature and/or pressure (a parameter of that type, or — for methods of
    State — the feed state's own T and p): no argument of the specified quantity's type may be derived from the guess."""
    t_ty = p_ty = None
    for c, a in F.items("adts"):
        if a["path"] == "feos_core::state::State":
            for f in a["variants"][0]["fields"]:
                if f["name"] == "temperature":
                    t_ty = f["ty"]
    for b in F.bodies:
        if b.path.endswith("state::residual_properties::<impl state::State<E>>::pressure") or b.path.endswith("::<impl state::State<E>>::pressure"):
            p_ty = b.lty(0)["s"]
    if not t_ty or not p_ty:
        r.fail("guess|types", "-", "Temperature / Pressure types could not be determined")
        return 0
    n = 0
    n_whole = [0]
    for b in F.bodies:
        if b.is_closure() or b.crate != "feos_core" or "phase_equilibria" not in b.path:
            continue
        nargs = b["arg_count"]
        guess = [l for l in range(1, nargs + 1) if "PhaseEquilibrium<" in b.lty(l)["s"] and b.lty(l)["s"].startswith(("std::option::Option<&", "&")) and l != 1]
        if not guess:
            continue
        spec_types = set()
        for l in range(1, nargs + 1):
            s_ = b.lty(l)["s"]
            if s_ == t_ty:
                spec_types.add(t_ty)
            if s_ == p_ty:
                spec_types.add(p_ty)
        if b.lty(1)["s"].startswith("&") and "state::State<" in b.lty(1)["s"] and b.lname(1) == "self":
            spec_types |= {t_ty, p_ty}      # the feed state fixes both
        if not spec_types:
            continue
        n += 1
        defs = Defs(b)
        bad = []
        for bi, t in b.calls():
            # only calls that build / re-initialise states or equilibria (their result type says so)
            rty = b.pty(t["dest"])["s"]
            if "state::State<" not in rty and "PhaseEquilibrium<" not in rty and "StateBuilder<" not in rty:
                continue
            # a helper that re-initialises the guess *at the guess's own* temperature / pressure (`init.at_pressure(p)`)
            cb = F.callee_body(t)
            if cb is not None and cb.crate == "feos_core" and not cb.is_closure() and cb["arg_count"] == len(t["args"]):
                for ai, a in enumerate(t["args"]):
                    if a.get("k") in ("copy", "move") and derived_params(b, defs, a["place"]["l"]) & set(guess):
                        for ty_ in _imposes(F, cb, ai + 1, spec_types, {}):
                            bad.append((t["span"], "temperature" if ty_ == t_ty else "pressure", callee(t)[2]))
            for a in t["args"]:
                if a.get("k") not in ("copy", "move"):
                    continue
                ty = b.opty(a)
                if not ty or ty["s"] not in spec_types:
                    continue
                dp = derived_params(b, defs, a["place"]["l"])
                if dp & set(guess):
                    bad.append((t["span"], "temperature" if ty["s"] == t_ty else "pressure", callee(t)[2]))
        fn = b.path.split("::")[-1]
        # (c') a guess that is handed on *as a whole* (by value) has been re-evaluated at the specified conditions on every path:
        # each reaching definition of the argument is the result of a call that also receives a specified-typed quantity which is
        # not derived from the guess (`init.clone().update_pressure(self.temperature, p)?`); a bare clone of the guess reaching the
        # solver on some path (a "skip the re-evaluation if the pressure already matches" shortcut) keeps the guess's temperature.
        for bi, t in b.calls():
            if _reinit(b, defs, t, spec_types, guess):
                continue
            for a_ in t["args"]:
                if a_.get("k") != "move" and a_.get("k") != "copy":
                    continue
                ty = b.opty(a_)
                if not ty or not ty["s"].startswith(("phase_equilibria::PhaseEquilibrium<", "feos_core::phase_equilibria::PhaseEquilibrium<")):
                    continue
                raw = _raw_guess_roots(b, defs, a_["place"]["l"], spec_types, guess, bi, len(b.blocks[bi]["stmts"]))
                n_whole[0] += 1
                if raw:
                    r.inst("guess|%s|whole->%s" % (fn, callee(t)[2]), t["span"], "violation")
                    r.fail("guess|%s|whole-guess-not-reinitialised->%s" % (fn, callee(t)[2]), t["span"],
                           "%s: the equilibrium handed to %s() is, on some path, the initial guess itself (cloned, not re-evaluated at the "
                           "specified temperature / pressure): the solver then converges at the guess's conditions" % (fn, callee(t)[2]))
                else:
                    r.inst("guess|%s|whole->%s" % (fn, callee(t)[2]), t["span"], "ok")
        iid = "guess|%s" % fn
        if bad:
            r.inst(iid, bad[0][0], "violation")
            r.fail("guess|%s|%s-from-initial-state" % (fn, bad[0][1]), bad[0][0],
                   "%s: a %s passed to %s() is derived from the initial-guess parameter although the %s is specified — the returned "
                   "equilibrium would sit at the guess's %s instead of the specified one" % (fn, bad[0][1], bad[0][2], bad[0][1], bad[0][1]))
        else:
            r.inst(iid, b.file_line(), "ok", specified=sorted("T" if x == t_ty else "p" for x in spec_types))
    r.floor("whole initial guesses handed on by value (re-initialised on every path)", n_whole[0], 1)
    return n


_PLUMBING = ("clone", "branch", "deref", "unwrap", "expect", "into", "from", "to_owned", "as_ref", "cloned", "copied")


def _reinit(b, defs, t, spec_types, guess):
    """a call that receives a specified-typed quantity not derived from the guess (a re-evaluation at the specified conditions)"""
    for a in t["args"]:
        if a.get("k") in ("copy", "move"):
            ty = b.opty(a)
            if ty and ty["s"] in spec_types and not (derived_params(b, defs, a["place"]["l"]) & set(guess)):
                return True
    return False


def _reaching(b, defs, l, ubi, usi):
    """definitions of local `l` that reach the use at statement `usi` of block `ubi` (len(stmts) = the terminator):
    classic reaching definitions, whole-local assignments kill"""
    nst = [len(blk["stmts"]) for blk in b.blocks]
    alld = defs.of(l)

    def pos(d):
        return (d[1], d[2]) if d[0] == "stmt" else (d[1], nst[d[1]])

    def whole(d):
        return not (d[3] if d[0] == "stmt" else d[2]["dest"])["p"]
    kills = {}
    for d in alld:
        if whole(d):
            kills.setdefault(pos(d)[0], []).append(pos(d)[1])
    succs = b.succs()
    out = []
    for d in alld:
        dbi, dsi = pos(d)
        if dbi == ubi and dsi < usi and not any(dsi < k < usi for k in kills.get(dbi, [])):
            out.append(d)
            continue
        if any(k > dsi for k in kills.get(dbi, [])):
            continue
        seen, work, hit = set(), list(succs[dbi]), False
        while work and not hit:
            x = work.pop()
            if x in seen:
                continue
            seen.add(x)
            if x == ubi:
                if not any(k < usi for k in kills.get(x, [])):
                    hit = True
                    break
                if kills.get(x):
                    continue
            elif kills.get(x):
                continue
            work += succs[x]
        if hit:
            out.append(d)
    return out


def _raw_guess_roots(b, defs, local, spec_types, guess, ubi=None, usi=None):
    """does `local` hold, on some definition reaching the use, the guess itself (through copies, refs, `?` plumbing and clones only)?"""
    nst = [len(blk["stmts"]) for blk in b.blocks]
    seen, work = set(), [(local, ubi, usi)]
    while work:
        l, bi_, si_ = work.pop()
        if (l, bi_, si_) in seen:
            continue
        seen.add((l, bi_, si_))
        if l in guess:
            return True
        ds = defs.of(l) if bi_ is None else _reaching(b, defs, l, bi_, si_)
        for d in ds:
            if d[0] == "call":
                t = d[2]
                if _reinit(b, defs, t, spec_types, guess):
                    continue
                if str(callee(t)[2]) in _PLUMBING:
                    work += [(a["place"]["l"], d[1], nst[d[1]]) for a in t["args"] if a.get("k") in ("copy", "move")]
                continue
            rv = d[4]
            if rv["k"] in ("use", "cast") and rv["op"].get("k") in ("copy", "move"):
                work.append((rv["op"]["place"]["l"], d[1], d[2]))
            elif rv["k"] in ("ref", "discr"):
                work.append((rv["place"]["l"], d[1], d[2]))
            elif rv["k"] == "agg":
                work += [(o["place"]["l"], d[1], d[2]) for o in rv["ops"] if o.get("k") in ("copy", "move")]
    return False
