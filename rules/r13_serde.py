"""R13 SERDE — what is skipped on write can be defaulted on read.

For every type deriving both Serialize and Deserialize (E2 / syn facts):
  * each field with `skip_serializing_if` is `Option<_>` (serde defaults a missing Option to None) or carries
    `#[serde(default)]` (or the container does) — otherwise a record serialised with the field skipped cannot be read back;
  * `#[serde(into = X)]` and `#[serde(from = X)]` come in pairs naming the same X, and X derives both traits;
  * the type of a `flatten`ed field derives both traits;
  * `skip_serializing` / `skip` fields have a default."""
import re

from facts import callee
from report import RuleResult


def sa(item, key):
    for a in item.get("serde", []):
        if a["k"] == key:
            return a
    return None


def base_type(ty):
    """outermost type name and its first generic argument"""
    ty = ty.replace(" ", "")
    m = re.match(r"([A-Za-z_][A-Za-z0-9_:]*)(?:<(.*)>)?$", ty)
    if not m:
        return ty, None
    return m.group(1).split("::")[-1], m.group(2)


def run(F):
    r = RuleResult("R13", "SERDE: every field that may be skipped on write can be defaulted on read")
    items = [it for it in F.syn["items"] if it["item"] in ("struct", "enum")]
    by_name = {}
    for it in items:
        by_name.setdefault(it["name"], []).append(it)
    n_sites = 0
    n_types = 0
    for it in items:
        d = set(it["derives"])
        both = "Serialize" in d and "Deserialize" in d
        if not ("Serialize" in d or "Deserialize" in d):
            continue
        n_types += 1
        where = "%s:%d" % (it["file"], it["line"])
        tname = "%s::%s" % (it["file"], it["name"])
        cont_default = sa(it, "default") is not None
        # from / into pairing
        fr, into = sa(it, "from") or sa(it, "try_from"), sa(it, "into")
        if fr or into:
            n_sites += 1
            iid = "proxy|%s" % tname
            ok = True
            msg = ""
            if both and (not fr or not into or fr["v"] != into["v"]):
                ok = False
                msg = "#[serde(from = %s)] / #[serde(into = %s)] do not name the same proxy type" % (fr and fr["v"], into and into["v"])
            else:
                px = (fr or into)["v"]
                pt = by_name.get(px.split("::")[-1], [])
                if not pt or not ({"Serialize", "Deserialize"} <= set(pt[0]["derives"])):
                    ok = False
                    msg = "proxy type %s does not derive both Serialize and Deserialize" % px
            if ok:
                r.inst(iid, where, "ok")
            else:
                r.inst(iid, where, "violation")
                r.fail("proxy|%s" % tname, where, "%s: %s — writing and re-reading a record is no longer symmetric" % (tname, msg))
            # the conversion that *writes* (T -> proxy) must be a total, unconditional copy of the fields: whatever it leaves out
            # or rewrites conditionally has to be reconstructed by the reader, and the two need not agree
            if ok and into:
                px = into["v"].split("::")[-1]
                tn = it["name"]
                conv = [b for b in F.bodies if b.path.endswith("::%s as std::convert::From<%s>>::from" % (px, "::".join(b.path.split(" as ")[0].split("::")[:-1]).split("<")[-1] + "::" + tn))
                        or (("::%s as std::convert::From<" % px) in b.path and b.path.endswith("::%s>>::from" % tn))]
                iid2 = "proxy-write|%s" % tname
                if not conv:
                    if F.config == "full":
                        r.inst(iid2, where, "violation")
                        r.fail(iid2 + "|missing", where, "%s: conversion into the serde proxy %s not found" % (tname, px))
                else:
                    cb = conv[0]
                    bad = None
                    for blk in cb.blocks:
                        if blk.get("cleanup"):
                            continue
                        t = blk["term"]
                        if t["k"] == "switch":
                            bad = ("a branch", t.get("span", cb.file_line()))
                        elif t["k"] == "call" and callee(t)[2] not in ("clone", "into", "from", "to_owned", "to_string", "to_vec", "into_iter", "collect"):
                            bad = ("a call of `%s`" % callee(t)[2], t["span"])
                    if bad is None:
                        r.inst(iid2, cb.file_line(), "ok")
                    else:
                        r.inst(iid2, bad[1], "violation")
                        r.fail(iid2, bad[1], "%s: the conversion into its serde proxy %s contains %s: what is written is no longer an unconditional copy of "
                               "the record's fields, so the reader has to reconstruct information — serialising and re-reading need not reproduce the record" % (tname, px, bad[0]))
        if not both:
            continue
        field_lists = []
        if it["item"] == "struct":
            field_lists.append(("", it["fields"]))
        else:
            for v in it["variants"]:
                field_lists.append((v["name"] + ".", v["fields"]))
        for prefix, fields in field_lists:
            for f in fields:
                skip_if = sa(f, "skip_serializing_if")
                skip = sa(f, "skip_serializing") or sa(f, "skip")
                flat = sa(f, "flatten")
                has_default = sa(f, "default") is not None or cont_default
                bt, inner = base_type(f["ty"])
                fid = "%s.%s%s" % (tname, prefix, f["name"])
                fwhere = "%s:%d" % (it["file"], f.get("line") or it["line"])
                if skip_if or skip:
                    n_sites += 1
                    if bt == "Option" or has_default:
                        r.inst("skip|%s" % fid, fwhere, "ok", ty=f["ty"], default=has_default)
                    else:
                        r.inst("skip|%s" % fid, fwhere, "violation", ty=f["ty"])
                        r.fail("skip|%s" % fid, fwhere,
                               "field %s: %s is skipped on serialisation (%s) but is neither Option<_> nor #[serde(default)]: "
                               "a serialised record with the field omitted fails to deserialise" % (fid, f["ty"], (skip_if or skip)["k"]))
                if flat:
                    n_sites += 1
                    target = inner if bt == "Option" else f["ty"]
                    tn, _ = base_type(target or "")
                    cands = by_name.get(tn, [])
                    generic_param = tn in re.findall(r"[A-Za-z_][A-Za-z0-9_]*", it.get("generics", ""))
                    if generic_param:
                        r.inst("flatten|%s" % fid, fwhere, "ok", note="generic parameter", nontrivial=False)
                    elif cands and all({"Serialize", "Deserialize"} <= set(c["derives"]) for c in cands):
                        r.inst("flatten|%s" % fid, fwhere, "ok")
                    else:
                        r.inst("flatten|%s" % fid, fwhere, "violation")
                        r.fail("flatten|%s" % fid, fwhere, "flattened field %s: type %s does not derive both Serialize and Deserialize" % (fid, tn))
    r.floor("serde attribute sites examined", n_sites, 55)
    r.floor("types deriving Serialize/Deserialize", n_types, 34)
    r.exhaustive = True
    return [r]
