"""R9 SHARED-STATE — the derivative cache is the only mutable state a State or a model can carry.

(a) deep interior-mutability census (driver walks field types through generic arguments and foreign ADTs):
    State<E> has exactly one cell, `cache: Mutex<Cache>`; every local type implementing a model trait has none
(b) no `static mut`, no static with interior mutability other than init-once (LazyLock / OnceLock),
    no thread_local, no user `unsafe`
(c) who-may-touch: `State.cache` is read only by get_or_compute_derivative_residual, Clone and Debug;
    `Cache::get_or_insert_with_*` is called only by get_or_compute_derivative_residual with a receiver
    obtained from `self.cache.lock()`; Clone builds a *new* Mutex
(d) parallel adaptors: every callee from rayon / ndarray::parallel is on the order-preserving allow-list and
    par_pure appends the critical point after the ordered collect"""
from cfg import Defs, provenance, dominators
from facts import callee
from report import RuleResult

MODEL_TRAITS = {"Residual", "IdealGas", "Components", "EntropyScaling", "Molarweight", "HelmholtzEnergyFunctional",
                "FunctionalContribution", "HardSphereProperties", "AssociationStrength", "Parameter", "FluidParameters", "PairPotential"}
CACHE_TOUCH_OK = ("::get_or_compute_derivative_residual", "<state::State<E> as std::clone::Clone>::clone",
                  "<state::State<E> as std::fmt::Debug>::fmt", "State::<E>::new_nvt_unchecked")
PAR_ALLOW = {
    "rayon::iter::IntoParallelIterator::into_par_iter": "indexed source keeps order",
    "rayon::iter::ParallelIterator::filter_map": "order preserving adaptor",
    "rayon::iter::ParallelIterator::map": "order preserving adaptor",
    "rayon::iter::ParallelIterator::flatten": "order preserving adaptor",
    "rayon::iter::ParallelIterator::flat_map": "order preserving adaptor",
    "rayon::iter::ParallelIterator::flat_map_iter": "order preserving adaptor (sequential inner iterator)",
    "rayon::iter::ParallelIterator::flatten_iter": "order preserving adaptor (sequential inner iterator)",
    "rayon::iter::ParallelIterator::map_with": "order preserving adaptor",
    "rayon::iter::ParallelIterator::map_init": "order preserving adaptor",
    "rayon::iter::ParallelIterator::filter": "order preserving adaptor",
    "rayon::iter::ParallelIterator::collect": "collect into Vec keeps the source order (rayon docs)",
    "rayon::iter::IndexedParallelIterator::collect_into_vec": "ordered",
    "rayon::ThreadPool::install": "runs the closure inside the pool",
    "par_for_each": "ndarray Zip::par_for_each: element-wise, each closure call writes its own cell",
}


def run(F):
    r = RuleResult("R9", "SHARED-STATE: mutability census, cache ownership, order-preserving parallel adaptors")
    # ---------------- (a) census
    adts = {}
    for c, a in F.items("adts"):
        adts[a["path"]] = a
    impl_types = {}
    for c, i in F.items("impls"):
        tr = i.get("trait")
        if not tr:
            continue
        if tr.split("::")[-1] in MODEL_TRAITS and tr.split("::")[0] in ("feos", "feos_core", "feos_dft"):
            k = i["self_k"]
            if k.startswith("adt:"):
                impl_types.setdefault(k[4:], set()).add(tr.split("::")[-1])
    n_types = 0
    for path, traits in sorted(impl_types.items()):
        a = adts.get(path)
        if a is None:
            continue    # foreign type (e.g. Arc<T> blanket impls)
        n_types += 1
        iid = "census|%s" % path
        if a["cells"]:
            r.inst(iid, a["span"], "violation", traits=sorted(traits), cells=a["cells"])
            r.fail("census|%s" % path, a["span"],
                   "model type %s (implements %s) contains interior mutability: %s — evaluating the model could then depend on history / thread schedule"
                   % (path, ",".join(sorted(traits)), a["cells"][:2]), cells=a["cells"])
        else:
            r.inst(iid, a["span"], "ok", traits=sorted(traits), opaque=a["opaque"][:2])
    r.floor("model types in the census", n_types, 50)
    st = adts.get("feos_core::state::State")
    if st is None:
        r.fail("census|State|missing", "-", "feos_core::state::State not found")
    else:
        cells = st["cells"]
        ok = len(cells) == 1 and cells[0].endswith("std::sync::Mutex<state::cache::Cache>") and cells[0].count("->") == 1
        if ok:
            r.inst("census|State", st["span"], "ok", cells=cells)
        else:
            r.inst("census|State", st["span"], "violation", cells=cells)
            r.fail("census|State", st["span"], "State<E> must contain exactly one cell (cache: Mutex<Cache>); found %s" % cells)
    # Cache itself must be plain data
    ca = adts.get("feos_core::state::cache::Cache")
    if ca is not None:
        if ca["cells"]:
            r.inst("census|Cache", ca["span"], "violation")
            r.fail("census|Cache", ca["span"], "Cache contains interior mutability: %s" % ca["cells"])
        else:
            r.inst("census|Cache", ca["span"], "ok")

    # ---------------- (b) statics / unsafe
    n_static = 0
    for c, s in F.items("statics"):
        n_static += 1
        iid = "static|%s" % s["path"]
        ty = s["ty"]
        init_once = ty.startswith("std::sync::LazyLock<") or ty.startswith("std::sync::OnceLock<")
        if s["mut"] or s["thread_local"] or (not s["freeze"] and not init_once):
            r.inst(iid, s["span"], "violation")
            r.fail("static|%s" % s["path"], s["span"], "static %s: %s is mutable / thread-local / has interior mutability that is not init-once" % (s["path"], ty))
        else:
            r.inst(iid, s["span"], "ok", ty=ty[:80])
    n_unsafe = 0
    for c, u in F.items("unsafe"):
        n_unsafe += 1
        r.inst("unsafe|%s" % u["span"].rsplit(":", 2)[0], u["span"], "violation")
        r.fail("unsafe|%s|%s" % (u["kind"], u["span"].rsplit(":", 2)[0]), u["span"], "user-written `unsafe` (%s): aliasing guarantees behind C11 no longer follow from the type system" % u["kind"])
    r.inst("unsafe|census", "-", "ok" if n_unsafe == 0 else "violation", count=n_unsafe, nontrivial=True)

    # ---------------- (c) who may touch the cache
    n_touch = 0
    for b in F.bodies:
        touches = False
        for bi, blk in enumerate(b.blocks):
            places = []
            for st_ in blk["stmts"]:
                places.append(st_["place"])
                rv = st_["rv"]
                for k in ("op", "a", "b"):
                    o = rv.get(k)
                    if isinstance(o, dict) and o.get("k") in ("copy", "move"):
                        places.append(o["place"])
                if rv["k"] in ("ref", "discr", "rawptr") and "place" in rv:
                    places.append(rv["place"])
                for o in rv.get("ops", []):
                    if o.get("k") in ("copy", "move"):
                        places.append(o["place"])
            t = blk["term"]
            if t["k"] == "call":
                for o in t["args"]:
                    if o.get("k") in ("copy", "move"):
                        places.append(o["place"])
            for pl in places:
                for p in pl["p"]:
                    if isinstance(p, dict) and p.get("n") == "cache" and p.get("o") == "feos_core::state::State":
                        touches = True
        if touches:
            n_touch += 1
            ok = any(b.path.endswith(s) or s in b.path for s in CACHE_TOUCH_OK)
            iid = "cache-field|%s" % b.path
            if ok:
                r.inst(iid, b.file_line(), "ok")
            else:
                r.inst(iid, b.file_line(), "violation")
                r.fail("cache-field|%s" % b.path, b.file_line(), "%s accesses State.cache; only get_or_compute_derivative_residual, Clone, Debug and the constructor may" % b.path)
    r.floor("functions touching State.cache", n_touch, 3)
    n_ccall = 0
    for b in F.bodies:
        defs = None
        for bi, t in b.calls():
            p, tr, name = callee(t)
            if name and name.startswith("get_or_insert_with_") and "cache::Cache" in p:
                n_ccall += 1
                defs = defs or Defs(b)
                iid = "cache-call|%s|%s" % (b.path.split("::")[-1], name)
                ok = b.path.endswith("::get_or_compute_derivative_residual")
                why = ""
                if ok:
                    # receiver must come from self.cache.lock()
                    a0 = t["args"][0]
                    params, stops = provenance(b, defs, [a0["place"]["l"]], call_names=("deref_mut", "deref", "unwrap", "expect", "lock"))
                    has_lock = any(callee(tt)[0].endswith("Mutex::<T>::lock") for _, tt in b.calls())
                    if params != {1} or not has_lock:
                        ok = False
                        why = "receiver is not derived from self.cache.lock() (params %s, stops %s)" % (params, sorted(stops)[:3])
                    else:
                        dom = dominators(b)
                        lock_blocks = [lb for lb, tt in b.calls() if callee(tt)[0].endswith("Mutex::<T>::lock")]
                        if not any(lb in dom.get(bi, ()) for lb in lock_blocks):
                            ok = False
                            why = "not dominated by the lock() call"
                else:
                    why = "called outside get_or_compute_derivative_residual"
                if ok:
                    r.inst(iid, t["span"], "ok")
                else:
                    r.inst(iid, t["span"], "violation")
                    r.fail("cache-call|%s|%s" % (b.path, name), t["span"], "Cache::%s: %s" % (name, why))
    r.floor("cache accessor call sites", n_ccall, 5)
    # Clone builds a new Mutex
    cb = [b for b in F.bodies if b.path.endswith("<state::State<E> as std::clone::Clone>::clone")]
    if not cb:
        r.fail("clone|missing", "-", "Clone for State not found")
    else:
        b = cb[0]
        defs = Defs(b)
        ok = False
        where = b.file_line()
        for bi, si, st_ in b.stmts():
            rv = st_["rv"]
            if rv["k"] == "agg" and rv["kind"].get("adt") == "feos_core::state::State":
                where = st_["span"]
                op = rv["ops"][rv["kind"]["fields"].index("cache")]
                if op["k"] in ("copy", "move"):
                    for d in defs.of(op["place"]["l"]):
                        if d[0] == "call" and callee(d[2])[0].endswith("Mutex::<T>::new"):
                            ok = True
        if ok:
            r.inst("clone|new-mutex", where, "ok")
        else:
            r.inst("clone|new-mutex", where, "violation")
            r.fail("clone|new-mutex", where, "Clone for State does not build a fresh Mutex for the clone's cache (shared cache => cross-state history dependence)")

    # ---------------- (d) parallel adaptors
    n_par = 0
    for b in F.bodies:
        for bi, t in b.calls():
            p, tr, name = callee(t)
            f = t["fn"]
            is_par = f.get("crate") in ("rayon", "rayon_core") or "ndarray::parallel" in p
            if not is_par:
                continue
            n_par += 1
            key = p if p in PAR_ALLOW else (name if name in PAR_ALLOW and "ndarray::parallel" in p else None)
            iid = "par|%s|%s" % (b.path.split("::{closure")[0].split("::")[-1], name)
            if key is None:
                r.inst(iid, t["span"], "violation")
                r.fail("par|%s|%s" % (b.path.split("::{closure")[0], p), t["span"],
                       "parallel adaptor %s is not on the order-preserving allow-list (par_bridge, for_each into a shared collection, reduce, find_any ... "
                       "make the result depend on the thread schedule)" % p)
            else:
                extra = {}
                if name == "collect":
                    # must collect into Vec
                    tyd = b.pty(t["dest"])["s"]
                    if not tyd.startswith("std::vec::Vec<"):
                        r.inst(iid, t["span"], "violation")
                        r.fail("par|%s|collect-into|%s" % (b.path.split("::{closure")[0], tyd[:40]), t["span"], "parallel collect into %s is not order preserving" % tyd[:80])
                        continue
                r.inst(iid, t["span"], "ok", reason=PAR_ALLOW[key], **extra)
    if "rayon" in (F.meta.get("features") or []):
        r.floor("parallel adaptor call sites", n_par, 8)
        # critical point appended after the collect in par_pure (mirrors pure)
        for fn in ("PhaseDiagram::<E, 2>::par_pure", "PhaseDiagram::<E, 2>::pure"):
            pb = [b for b in F.bodies if b.path.endswith(fn)]
            if not pb:
                r.fail("par_pure|missing|%s" % fn, "-", "%s not found" % fn)
                continue
            b = pb[0]
            dom = dominators(b)
            pushes = [(bi, t) for bi, t in b.calls() if callee(t)[2] == "push" and "Vec" in callee(t)[0]]
            news = [(bi, t) for bi, t in b.calls() if callee(t)[0].endswith("PhaseDiagram::<E, N>::new")]
            fs = [(bi, t) for bi, t in b.calls() if callee(t)[2] == "from_states"]
            ok = False
            where = b.file_line()
            # the last push before `new` takes the value produced by from_states
            for nb, nt in news:
                for pbi, pt in pushes:
                    if pbi in dom.get(nb, ()):
                        a1 = pt["args"][1]
                        if a1["k"] in ("copy", "move") and any(ft["dest"]["l"] == a1["place"]["l"] for _, ft in fs):
                            # no other push is dominated by this one and dominates new
                            later = [q for q, _ in pushes if q != pbi and pbi in dom.get(q, ()) and q in dom.get(nb, ())]
                            if not later:
                                ok = True
                                where = pt["span"]
            iid = "critical-point-last|%s" % fn.split("::")[-1]
            if ok:
                r.inst(iid, where, "ok")
            else:
                r.inst(iid, where, "violation")
                r.fail("critical-point-last|%s" % fn.split("::")[-1], where, "%s: the critical point is not the last state pushed before PhaseDiagram::new" % fn)
    r.exhaustive = True
    r.blind.append("trait objects (dyn Convolver, dyn DataSet ...) are opaque to the census and listed, not judged")
    return [r]
