"""R27 LINEAR-KIJ — a binary interaction correction `1 - k_ij` enters the combined parameter as a plain factor.

All parameter builders of the library (PC-SAFT, ePC-SAFT, gc-PC-SAFT EoS *and* functional, PeTS, SAFT-VR Mie, SAFT-VRQ Mie,
uv-theory) apply the documented combining rules  eps_ij = sqrt(eps_i eps_j) (1 - k_ij),  sigma_ij = (1 - l_ij)(sigma_i +
sigma_j)/2,  lambda_ij = 3 + (1 - gamma_ij) sqrt(..):  the correction factor multiplies the combined value (possibly followed
by an addition).  The sibling implementations must agree on that (C08: functional = EoS for gc-PC-SAFT; C14: documented
combining rules): the rule follows every value `1.0 - x`, where x is (an element of) a two-dimensional f64 array, forward
through the MIR of the builder and requires that it reaches its store only through multiplications, additions / subtractions
with other values, copies and borrows — never through `sqrt`, `powf`, `powi`, `recip`, a division, `exp`, `ln` ... (which
would change the degree of the correction: sqrt(eps_i eps_j (1 - k_ij)) is a different model than its twin)."""
from cfg import Defs
from facts import callee
from report import RuleResult

LINEAR_CALLS = {"mul", "mul_assign", "add", "sub", "add_assign", "sub_assign", "neg", "clone", "to_owned", "deref", "borrow", "as_ref", "into",
                "from", "index_mut", "index"}
SCOPES = ("parameter", "epcsaft::eos::dispersion")


def _is_pair_matrix(tys):
    s = (tys or {}).get("s", "")
    return "ndarray::ArrayBase<" in s and "f64" in s and "[usize; 2]" in s


def _elem_of_pair_matrix(b, defs, op, depth=0):
    """operand is an f64 read from (or a reference to) a 2-D f64 array"""
    if op.get("k") not in ("copy", "move") or depth > 8:
        return False
    ty = b.opty(op)
    if _is_pair_matrix(ty):
        return True
    l = op["place"]["l"]
    for d in defs.of(l):
        if d[0] == "call":
            t = d[2]
            nm = callee(t)[2]
            if nm in ("index", "deref", "clone", "borrow", "as_ref", "unwrap", "map_or", "map_or_else") and t["args"]:
                if any(_is_pair_matrix(b.opty(a)) or _elem_of_pair_matrix(b, defs, a, depth + 1) for a in t["args"] if a.get("k") in ("copy", "move")):
                    return True
        else:
            rv = d[4]
            if rv["k"] in ("use", "cast") and _elem_of_pair_matrix(b, defs, rv["op"], depth + 1):
                return True
            if rv["k"] == "ref":
                if _elem_of_pair_matrix(b, defs, {"k": "copy", "place": rv["place"]}, depth + 1):
                    return True
    # `*index(&k_ij, (i, j))`: place with deref projection of a reference local
    if "*" in op["place"]["p"]:
        return _elem_of_pair_matrix(b, defs, {"k": "copy", "place": {"l": l, "p": [], "t": None}}, depth + 1) if False else any(
            d[0] == "call" and callee(d[2])[2] == "index" and any(_is_pair_matrix(b.opty(a)) for a in d[2]["args"]) for d in defs.of(l))
    return False


def run(F):
    r = RuleResult("R27", "LINEAR-KIJ: binary interaction corrections (1 - k_ij) enter the combined parameters linearly")
    n = 0
    for b in F.bodies:
        if b.get("exp") or not any(s in b.path for s in SCOPES) or "_serde" in b.path or "::tests::" in b.path:
            continue
        defs = None
        starts = []
        for bi, si, st in b.stmts():
            rv = st["rv"]
            if rv["k"] == "binop" and rv["op"] == "Sub" and rv["a"].get("f") == "1e0":
                defs = defs or Defs(b)
                if _elem_of_pair_matrix(b, defs, rv["b"]):
                    starts.append((st["place"]["l"], st.get("span", b.file_line())))
        for bi, t in b.calls():
            if callee(t)[2] == "sub" and len(t["args"]) == 2 and t["args"][0].get("f") == "1e0":
                defs = defs or Defs(b)
                if _elem_of_pair_matrix(b, defs, t["args"][1]):
                    starts.append((t["dest"]["l"], t["span"]))
        for l0, span in starts:
            n += 1
            bad = _nonlinear_use(b, defs, l0)
            fn = b.path.split("::{closure")[0]
            iid = "linear|%s|%s" % (fn, span.rsplit(":", 2)[0].split("/")[-1] + "#" + str(sum(1 for x in r.instances if x["id"].startswith("linear|%s|" % fn))))
            if bad is None:
                r.inst(iid, span, "ok")
            else:
                r.inst(iid, span, "violation", through=bad[0])
                r.fail("linear|%s|through-%s" % (fn, bad[0]), bad[1],
                       "%s: the correction `1 - k` built from a binary interaction matrix is passed through `%s` before it is stored: it no "
                       "longer scales the combined parameter linearly, unlike in every sibling builder (eps_ij = sqrt(eps_i eps_j) * (1 - k_ij))" % (fn, bad[0]))
    r.floor("binary interaction corrections examined", n, 10)
    r.exhaustive = True
    return [r]


def _nonlinear_use(b, defs, l0):
    lin = {l0}
    changed = True
    steps = 0
    while changed and steps < 50:
        steps += 1
        changed = False
        for bi, si, st in b.stmts():
            rv = st["rv"]
            k = rv["k"]
            ops = []
            if k in ("use", "cast"):
                ops = [rv["op"]]
            elif k == "binop":
                ops = [rv["a"], rv["b"]]
            elif k == "unop":
                ops = [rv["a"]]
            elif k == "ref":
                if rv["place"]["l"] in lin and st["place"]["l"] not in lin and not st["place"]["p"]:
                    lin.add(st["place"]["l"])
                    changed = True
                continue
            elif k == "agg":
                ops = rv["ops"]
            hit = [o for o in ops if o.get("k") in ("copy", "move") and o["place"]["l"] in lin]
            if not hit:
                continue
            if k == "binop" and rv["op"] in ("Div", "Rem") and rv["b"].get("k") in ("copy", "move") and rv["b"]["place"]["l"] in lin:
                return ("division by it", st.get("span", b.file_line()))
            if k == "binop" and rv["op"] not in ("Mul", "Add", "Sub", "Div"):
                return (rv["op"], st.get("span", b.file_line()))
            if k == "binop" and rv["op"] == "Mul" and all(o.get("k") in ("copy", "move") and o["place"]["l"] in lin for o in ops):
                return ("a product with itself", st.get("span", b.file_line()))
            if not st["place"]["p"] and st["place"]["l"] not in lin:
                lin.add(st["place"]["l"])
                changed = True
        for bi, t in b.calls():
            hit = [a for a in t["args"] if a.get("k") in ("copy", "move") and a["place"]["l"] in lin]
            if not hit:
                continue
            nm = callee(t)[2]
            if nm in LINEAR_CALLS:
                if nm in ("mul_assign", "add_assign", "sub_assign", "index_mut", "index"):
                    continue
                if t["dest"]["l"] not in lin:
                    lin.add(t["dest"]["l"])
                    changed = True
                continue
            if nm in ("from_shape_fn", "from_elem", "push", "insert", "Some", "Ok"):
                continue
            return (str(nm), t["span"])
    return None
