"""R53 EXCESS — an excess quantity subtracts the bulk value times the volume of the *same* profile, with the matching integral.

C16: for a uniform fluid without external potential the excess grand potential, interfacial tension, solvation free energy
and excess adsorption vanish.  They are all written as  X[profile] -/+ x_bulk * profile.volume():

    Omega + p * V          (pore interfacial tension, solvation free energy)
    N - rho * V            (structure factor)
    N_i - rho_i * V        (excess adsorption of micelles)

For the difference to vanish identically the integral and the bulk density must be the matching pair, combined with the
right sign, and both taken from the same profile.  Rule, for every product `x * <profile>.volume()` in library code:

    x = <profile>.bulk.pressure(..)         must be added to       <profile>.grand_potential()
    x = <profile>.bulk.density              must be subtracted from <profile>.total_moles()
    x = <profile>.bulk.partial_density      must be subtracted from <profile>.moles()

(`Contributions::Total` of the pressure is R10f's obligation.)  Products with another factor (a user-supplied reference
density) are listed but not judged."""
from cfg import Defs
from facts import callee
from report import RuleResult

TRANSPARENT = ("branch", "unwrap", "expect", "clone", "deref", "to_owned", "borrow", "as_ref", "into", "from_residual", "neg")
EXPECT = {"pressure": ("add", "grand_potential"), "density": ("sub", "total_moles"), "partial_density": ("sub", "moles")}


def _src(b, defs, op, depth=0):
    """(kind, detail): the call or field a value comes from, through copies, refs, `?` and clones"""
    if op.get("k") not in ("copy", "move") or depth > 25:
        return ("const", None)
    pl = op["place"]
    if any(isinstance(p, dict) and "dc" in p for p in pl["p"]):
        # payload of `x?` / `if let Some(v)`: the value inside the enum the local holds
        return _src(b, defs, {"k": "copy", "place": {"l": pl["l"], "p": []}}, depth + 1)
    names = [p.get("n") for p in pl["p"] if isinstance(p, dict) and "f" in p and p.get("n")]
    if names:
        return ("field", names)
    ds = defs.of(pl["l"])
    if len(ds) != 1:
        return ("join", None)
    d = ds[0]
    if d[0] == "call":
        t = d[2]
        name = callee(t)[2]
        if name in TRANSPARENT and t["args"]:
            return _src(b, defs, t["args"][0], depth + 1)
        return ("call", (name, t))
    rv = d[4]
    if rv["k"] in ("use", "cast"):
        return _src(b, defs, rv["op"], depth + 1)
    if rv["k"] == "ref":
        return _src(b, defs, {"k": "copy", "place": rv["place"]}, depth + 1)
    return ("expr", rv["k"])


def _recv_fields(b, defs, t):
    """field names on the path of a method call's receiver (`self.profile.bulk.pressure(..)` -> [profile, bulk])"""
    if not t["args"]:
        return []
    k, d = _src(b, defs, t["args"][0])
    return d if k == "field" else []


def run(F):
    r = RuleResult("R53", "EXCESS: bulk value x profile volume is combined with the matching integral of the same profile")
    n = 0
    for b in F.bodies:
        if "::tests::" in b.path or not b.path.startswith(("feos_dft::", "feos::")) or "::python::" in b.path:
            continue
        vols = [(bi, t) for bi, t in b.calls() if callee(t)[2] == "volume" and "DFTProfile" in str(callee(t)[0])]
        if not vols:
            continue
        defs = Defs(b)
        fn = b.path.split("::{closure")[0]
        for bi, vt in vols:
            v = vt["dest"]["l"]
            prof = _recv_fields(b, defs, vt)
            for bj, mt in b.calls():
                if callee(mt)[2] != "mul" or len(mt["args"]) != 2:
                    continue
                which = [i for i, a in enumerate(mt["args"]) if a.get("k") in ("copy", "move") and a["place"]["l"] == v and not a["place"]["p"]]
                if not which:
                    continue
                other = mt["args"][1 - which[0]]
                k, d = _src(b, defs, other)
                kind = None
                src_prof = None
                if k == "call" and d[0] == "pressure":
                    kind = "pressure"
                    src_prof = _recv_fields(b, defs, d[1])
                elif k == "field" and d and d[-1] in ("density", "partial_density") and "bulk" in d:
                    kind = d[-1]
                    src_prof = d[:-1]
                n += 1
                iid = "excess|%s|%s*volume" % (fn, kind or "other")
                if kind is None:
                    r.inst(iid, mt["span"], "exempt", nontrivial=False, note="factor is not a bulk property of the profile")
                    continue
                want_op, want_int = EXPECT[kind]
                m = mt["dest"]["l"]
                found = None
                for bk, ct in b.calls():
                    nm = callee(ct)[2]
                    if nm not in ("add", "sub") or len(ct["args"]) != 2:
                        continue
                    pos = [i for i, a in enumerate(ct["args"]) if a.get("k") in ("copy", "move") and a["place"]["l"] == m and not a["place"]["p"]]
                    if not pos:
                        continue
                    k2, d2 = _src(b, defs, ct["args"][1 - pos[0]])
                    found = (nm, pos[0], d2[0] if k2 == "call" else k2, _recv_fields(b, defs, d2[1]) if k2 == "call" else [])
                if found is None:
                    r.inst(iid, mt["span"], "undecided", nontrivial=False)
                    continue
                op, pos, integral, int_prof = found
                bad = []
                if op != want_op or (op == "sub" and pos != 1):
                    bad.append("combined by `%s`%s, expected `%s` with the bulk term as the subtrahend" % (op, " (bulk term first)" if op == "sub" and pos != 1 else "", want_op)
                               if want_op == "sub" else "combined by `%s`, expected `%s`" % (op, want_op))
                if integral != want_int:
                    bad.append("paired with `%s()`, expected `%s()`" % (integral, want_int))
                p1 = [x for x in prof if x != "bulk"]
                p2 = [x for x in (src_prof or []) if x != "bulk"]
                p3 = [x for x in int_prof if x != "bulk"]
                if not (p1 == p2 == p3):
                    bad.append("volume, bulk value and integral are not taken from the same profile (%s / %s / %s)" % (".".join(p1), ".".join(p2), ".".join(p3)))
                if bad:
                    r.inst(iid, mt["span"], "violation")
                    r.fail("excess|%s|%s" % (fn, kind), mt["span"],
                           "%s: bulk %s x volume is %s — the excess quantity no longer vanishes for a uniform profile" % (fn, kind, "; ".join(bad)))
                else:
                    r.inst(iid, mt["span"], "ok", pairing="%s %s %s*V" % (want_int, want_op, kind))
    r.floor("bulk-value x profile-volume products", n, 4)
    r.exhaustive = True
    return [r]
