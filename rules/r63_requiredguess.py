"""R63 REQUIRED-GUESS — code that is generic over the specification never hands "no initial value" to a solver that needs one.

C12: "each point of a phase diagram equals the stand-alone calculation at that point regardless of .. failures at earlier points".
Bubble / dew points are generic over `TP: TemperatureOrPressure`.  For a temperature specification the initial pressure is
optional (the solver has its own initialisation); for a *pressure* specification `bubble_dew_point` does
`t_init.expect("An initial temperature is required ..")`.  A routine written for every TP (`iterate_vle`, `heteroazeotrope`, the
generic `bubble_point` / `dew_point` front ends) therefore has to pass `Some(..)` or its caller's value: a literal `None` — e.g.
"restart the next point from scratch" after a failed grid point — compiles, works for pxy diagrams and panics for Txy diagrams as
soon as one point fails, taking all later points with it.

Rule: (1) some implementation of `TemperatureOrPressure::bubble_dew_point` consumes its `Option` parameter with `expect` /
`unwrap` (otherwise the rule reports itself exempt); (2) at every call in the phase-equilibrium module whose argument has the
generic type `Option<<TP as TemperatureOrPressure>::Other>`, no definition reaching the argument is the literal `None`.  What is
decided is this typestate clause only — that a continuation after a failure equals the stand-alone calculation numerically is not."""
from cfg import Defs
from facts import callee
from report import RuleResult

GENERIC = "std::option::Option<<TP as phase_equilibria::bubble_dew::TemperatureOrPressure>::Other>"


def _requires(F):
    out = []
    for b in F.bodies:
        if b.is_closure() or not b.path.startswith("feos_core::") or not b.path.endswith("TemperatureOrPressure>::bubble_dew_point"):
            continue
        opts = {l for l in range(1, b["arg_count"] + 1) if (b.lty(l) or {}).get("s", "").startswith("std::option::Option<quantity::Quantity<")}
        defs = Defs(b)
        for bi, t in b.calls():
            if str(callee(t)[2]) in ("expect", "unwrap") and t["args"] and t["args"][0].get("k") in ("copy", "move"):
                l = t["args"][0]["place"]["l"]
                for _ in range(4):
                    if l in opts:
                        out.append((b, t["span"]))
                        break
                    ds = defs.of(l)
                    if len(ds) == 1 and ds[0][0] == "stmt" and ds[0][4]["k"] == "use" and ds[0][4]["op"].get("k") in ("copy", "move"):
                        l = ds[0][4]["op"]["place"]["l"]
                    else:
                        break
    return out


def _none_defs(b, defs, l, seen):
    """spans of literal-None definitions that reach local l through copies"""
    if l in seen:
        return []
    seen.add(l)
    out = []
    for d in defs.of(l):
        if d[0] != "stmt":
            continue
        rv = d[4]
        if rv["k"] == "agg" and rv["kind"].get("variant") == "None":
            out.append(b.blocks[d[1]]["stmts"][d[2]].get("span") or b.file_line())
        elif rv["k"] == "use" and rv["op"].get("k") in ("copy", "move") and not rv["op"]["place"]["p"]:
            out += _none_defs(b, defs, rv["op"]["place"]["l"], seen)
        elif rv["k"] == "use" and rv["op"].get("k") == "const" and "None" in str(rv["op"].get("text", "")):
            out.append(b.file_line())
    return out


def run(F):
    r = RuleResult("R63", "REQUIRED-GUESS: TP-generic phase-equilibrium code never passes a literal None where a pressure specification needs an initial temperature")
    req = _requires(F)
    impls = [b for b in F.bodies if not b.is_closure() and b.path.startswith("feos_core::") and b.path.endswith("TemperatureOrPressure>::bubble_dew_point")]
    if len(impls) < 2:
        r.inst("requiredguess|premise", "-", "violation")
        r.fail("requiredguess|anchor", "-", "the implementations of TemperatureOrPressure::bubble_dew_point were not found (renamed?): re-confirm R63")
        return [r]
    if not req:
        r.inst("requiredguess|premise", "-", "exempt", note="no implementation of bubble_dew_point consumes its initial value with expect/unwrap: nothing to require")
        r.exhaustive = True
        return [r]
    r.inst("requiredguess|premise", req[0][1], "ok", impl=req[0][0].path)
    n = 0
    for b in F.bodies:
        if not b.path.startswith("feos_core::phase_equilibria::") or "::tests::" in b.path:
            continue
        defs = None
        for bi, t in b.calls():
            for i, a in enumerate(t["args"]):
                if a.get("k") == "const":
                    bad_const = (b.opty(a) or {}).get("s", "") == GENERIC
                    if not bad_const:
                        continue
                elif a.get("k") not in ("copy", "move") or (b.opty(a) or {}).get("s", "") != GENERIC:
                    continue
                nm = str(callee(t)[2])
                if nm in ("map", "and_then", "is_some", "is_none", "unwrap", "expect", "clone", "as_ref", "unwrap_or", "or", "or_else", "zip", "take"):
                    continue          # the Option is inspected / transformed here, not handed to a solver
                n += 1
                fn = b.path.split("::{closure")[0].split("::")[-1]
                iid = "requiredguess|%s>%s" % (fn, nm)
                if a.get("k") == "const":
                    nones = [t["span"]]
                else:
                    defs = defs or Defs(b)
                    nones = _none_defs(b, defs, a["place"]["l"], set()) if not a["place"]["p"] else []
                if nones:
                    r.inst(iid, t["span"], "violation")
                    r.fail(iid, t["span"],
                           "%s hands `None` (set at %s) as the initial temperature / pressure to %s although it is generic over the specification: "
                           "for a pressure specification the solver requires an initial temperature (%s) and panics — a failure at one point takes "
                           "all later points of the diagram with it" % (fn, nones[0], nm, req[0][1]))
                else:
                    r.inst(iid, t["span"], "ok")
    r.floor("TP-generic hand-ons of an initial temperature / pressure", n, 5)
    r.exhaustive = True
    return [r]
