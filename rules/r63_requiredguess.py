"""R63 REQUIRED-GUESS — code that is generic over the specification never hands "no initial value" to a solver that needs one.

C12: "each point of a phase diagram equals the stand-alone calculation at that point regardless of .. failures at earlier points".
Bubble / dew points are generic over `TP: TemperatureOrPressure`.  For a temperature specification the initial pressure is
optional (the solver has its own initialisation); for a *pressure* specification `bubble_dew_point` does
`t_init.expect("An initial temperature is required ..")`.  A routine written for every TP (`iterate_vle`, `heteroazeotrope`, the
generic `bubble_point` / `dew_point` front ends) therefore has to pass `Some(..)` or its caller's value: a literal `None` — e.g.
"restart the next point from scratch" after a failed grid point — compiles, works for pxy diagrams and panics for Txy diagrams as
soon as one point fails, taking all later points with it.

Rule: (1) some implementation of `TemperatureOrPressure::bubble_dew_point` consumes its `Option` parameter with `expect` /
`unwrap` (otherwise the rule reports itself exempt); (2) at every call in the phase-equilibrium module whose argument has the
generic type `Option<<TP as TemperatureOrPressure>::Other>`, no definition reaching the argument is the literal `None`.  What is
decided is this typestate clause only — that a continuation after a failure equals the stand-alone calculation numerically is not."""
from cfg import Defs
from facts import callee
from report import RuleResult

GENERIC = "std::option::Option<<TP as phase_equilibria::bubble_dew::TemperatureOrPressure>::Other>"


def _requires(F):
    out = []
    for b in F.bodies:
        if b.is_closure() or not b.path.startswith("feos_core::") or not b.path.endswith("TemperatureOrPressure>::bubble_dew_point"):
            continue
        opts = {l for l in range(1, b["arg_count"] + 1) if (b.lty(l) or {}).get("s", "").startswith("std::option::Option<quantity::Quantity<")}
        defs = Defs(b)
        for bi, t in b.calls():
            if str(callee(t)[2]) in ("expect", "unwrap") and t["args"] and t["args"][0].get("k") in ("copy", "move"):
                l = t["args"][0]["place"]["l"]
                for _ in range(4):
                    if l in opts:
                        out.append((b, t["span"]))
                        break
                    ds = defs.of(l)
                    if len(ds) == 1 and ds[0][0] == "stmt" and ds[0][4]["k"] == "use" and ds[0][4]["op"].get("k") in ("copy", "move"):
                        l = ds[0][4]["op"]["place"]["l"]
                    else:
                        break
    return out


def _none_defs(b, defs, l, seen):
    """spans of literal-None definitions that reach local l through copies"""
    if l in seen:
        return []
    seen.add(l)
    out = []
    for d in defs.of(l):
        if d[0] != "stmt":
            continue
        rv = d[4]
        if rv["k"] == "agg" and rv["kind"].get("variant") == "None":
            out.append(b.blocks[d[1]]["stmts"][d[2]].get("span") or b.file_line())
        elif rv["k"] == "use" and rv["op"].get("k") in ("copy", "move") and not rv["op"]["place"]["p"]:
            out += _none_defs(b, defs, rv["op"]["place"]["l"], seen)
        elif rv["k"] == "use" and rv["op"].get("k") == "const" and "None" in str(rv["op"].get("text", "")):
            out.append(b.file_line())
    return out


class Nullable:
    """may an Option-typed local be None when a block is reached?  Definitions: `None` literal, `.ok()` / `.take()` / `.pop()` .. results
    (may be None), `Some(..)` (is not), `x.as_ref().map(..)` and copies (as their source at the point of definition), parameters and
    unknown calls (not judged).  A definition counts only if a path from it to the use exists that neither passes another whole
    definition of the variable nor an edge that proves it Some (`is_none()` false / `is_some()` true / discriminant Some)."""
    MAYBE = ("ok", "take", "pop", "last", "first", "get", "next", "err", "find", "position", "checked_sub", "checked_div")
    SAME = ("map", "as_ref", "as_mut", "cloned", "copied", "as_deref", "clone", "and_then", "filter", "inspect", "zip")

    def __init__(self, b):
        self.b = b
        self.defs = Defs(b)
        self.succs = b.succs()

    def _root(self, op):
        """named Option local behind a receiver operand (through borrows / copies)"""
        l = op["place"]["l"] if op.get("k") in ("copy", "move") else None
        for _ in range(8):
            if l is None:
                return None
            if self.b.lname(l) or 1 <= l <= self.b["arg_count"]:
                return l
            ds = self.defs.of(l)
            if len(ds) != 1 or ds[0][0] != "stmt":
                return l if ds else None
            rv = ds[0][4]
            if rv["k"] == "ref":
                l = rv["place"]["l"]
            elif rv["k"] in ("use", "cast") and rv["op"].get("k") in ("copy", "move"):
                l = rv["op"]["place"]["l"]
            else:
                return l
        return l

    def _proving_edges(self, l):
        """(block, successor) edges on which local l is known to be Some"""
        out = set()
        for bi, blk in enumerate(self.b.blocks):
            t = blk["term"]
            if t["k"] != "switch" or t["op"].get("k") not in ("copy", "move"):
                continue
            ds = self.defs.of(t["op"]["place"]["l"])
            if len(ds) != 1:
                continue
            d = ds[0]
            listed = {v for v, _ in t["targets"]}
            if d[0] == "call" and str(callee(d[2])[2]) in ("is_none", "is_some") and d[2]["args"] and self._root(d[2]["args"][0]) == l:
                want = "0" if str(callee(d[2])[2]) == "is_none" else "1"
                for v, tgt in t["targets"]:
                    if v == want:
                        out.add((bi, tgt))
                if want not in listed and len(listed) == 1:
                    out.add((bi, t["otherwise"]))
            elif d[0] == "stmt" and d[4]["k"] == "discr" and self._root({"k": "copy", "place": d[4]["place"]}) == l:
                for v, tgt in t["targets"]:
                    if v == "1":
                        out.add((bi, tgt))
                if listed == {"0"}:
                    out.add((bi, t["otherwise"]))
        return out

    def _reaches(self, src, dst, kill_blocks, proving):
        """is there a path from the end of block src to the start of block dst avoiding kill blocks and proving edges?"""
        work, seen = [src], set()
        while work:
            x = work.pop()
            for y in self.succs[x]:
                if (x, y) in proving:
                    continue
                if y == dst:
                    return True
                if y in seen or y in kill_blocks:
                    continue
                seen.add(y)
                work.append(y)
        return False

    def at(self, l, use_bi, depth=0):
        """None, or a description of a maybe-None definition of local l that reaches block use_bi"""
        if depth > 6:
            return None
        ds = self.defs.whole(l)
        proving = self._proving_edges(l)
        for d in ds:
            others = {x[1] for x in ds if x is not d}
            if d[1] == use_bi:
                # defined in the block of the use: a statement reaches the block's terminator directly; the destination of the
                # block's own call reaches it only around a loop
                reaches = d[0] == "stmt" or self._reaches(d[1], use_bi, others, proving)
            else:
                reaches = self._reaches(d[1], use_bi, others - {use_bi}, proving)
            if not reaches:
                continue
            if d[0] == "stmt":
                rv = d[4]
                span = self.b.blocks[d[1]]["stmts"][d[2]].get("span") or self.b.file_line()
                if rv["k"] == "agg" and rv["kind"].get("variant") == "None":
                    return "`None` assigned at %s" % span
                if rv["k"] in ("use", "cast") and rv["op"].get("k") in ("copy", "move") and not rv["op"]["place"]["p"]:
                    w = self.at(rv["op"]["place"]["l"], d[1], depth + 1)
                    if w:
                        return w
                continue
            t = d[2]
            nm = str(callee(t)[2])
            if nm in self.MAYBE:
                return "the result of `.%s()` at %s" % (nm, t["span"])
            if nm in self.SAME and t["args"]:
                root = self._root(t["args"][0])
                if root is not None and root != l and not (1 <= root <= self.b["arg_count"]):
                    w = self.at(root, d[1], depth + 1)
                    if w:
                        return w
        return None


def run(F):
    r = RuleResult("R63", "REQUIRED-GUESS: TP-generic phase-equilibrium code never passes a literal None where a pressure specification needs an initial temperature")
    req = _requires(F)
    impls = [b for b in F.bodies if not b.is_closure() and b.path.startswith("feos_core::") and b.path.endswith("TemperatureOrPressure>::bubble_dew_point")]
    if len(impls) < 2:
        r.inst("requiredguess|premise", "-", "violation")
        r.fail("requiredguess|anchor", "-", "the implementations of TemperatureOrPressure::bubble_dew_point were not found (renamed?): re-confirm R63")
        return [r]
    if not req:
        r.inst("requiredguess|premise", "-", "exempt", note="no implementation of bubble_dew_point consumes its initial value with expect/unwrap: nothing to require")
        r.exhaustive = True
        return [r]
    r.inst("requiredguess|premise", req[0][1], "ok", impl=req[0][0].path)
    n = 0
    for b in F.bodies:
        if not b.path.startswith("feos_core::phase_equilibria::") or "::tests::" in b.path:
            continue
        defs = None
        for bi, t in b.calls():
            for i, a in enumerate(t["args"]):
                if a.get("k") == "const":
                    bad_const = (b.opty(a) or {}).get("s", "") == GENERIC
                    if not bad_const:
                        continue
                elif a.get("k") not in ("copy", "move") or (b.opty(a) or {}).get("s", "") != GENERIC:
                    continue
                nm = str(callee(t)[2])
                if nm in ("map", "and_then", "is_some", "is_none", "unwrap", "expect", "clone", "as_ref", "unwrap_or", "or", "or_else", "zip", "take"):
                    continue          # the Option is inspected / transformed here, not handed to a solver
                n += 1
                fn = b.path.split("::{closure")[0].split("::")[-1]
                iid = "requiredguess|%s>%s" % (fn, nm)
                if a.get("k") == "const":
                    nones = [t["span"]]
                else:
                    defs = defs or Defs(b)
                    nones = _none_defs(b, defs, a["place"]["l"], set()) if not a["place"]["p"] else []
                    if not nones and not a["place"]["p"]:
                        # .. or a value that may be None here (`vle.as_ref().map(..)` with `vle = solve(..).ok()` from the last iteration)
                        w = Nullable(b).at(a["place"]["l"], bi)
                        if w:
                            nones = [w]
                if nones:
                    r.inst(iid, t["span"], "violation")
                    r.fail(iid, t["span"],
                           "%s hands `None` (set at %s) as the initial temperature / pressure to %s although it is generic over the specification: "
                           "for a pressure specification the solver requires an initial temperature (%s) and panics — a failure at one point takes "
                           "all later points of the diagram with it" % (fn, nones[0], nm, req[0][1]))
                else:
                    r.inst(iid, t["span"], "ok")
    # (3) concrete pressure specifications: a call whose specification argument has the type of the implementation that requires an
    #     initial value, and whose initial-value argument may be `None` when the call is reached: some definition of the Option it is
    #     computed from (`vle.as_ref().map(|vle| vle.vapor().temperature)` with `vle = solve(..).ok()` in the previous iteration) can be
    #     None and reaches the call without passing a test that proves it Some
    spec_ty, init_ty = req[0][0].lty(2)["s"], req[0][0].lty(3)["s"]
    n3 = 0
    for b in F.bodies:
        if not b.path.startswith(("feos_core::", "feos::", "feos_dft::")) or "::tests::" in b.path or "::python::" in b.path:
            continue
        if b.path == req[0][0].path:
            continue
        nul = None
        for bi, t in b.calls():
            if str(callee(t)[2]) not in ("bubble_point", "dew_point", "bubble_dew_point"):
                continue
            tys = [(b.opty(a) or {}).get("s", "") if a.get("k") in ("copy", "move", "const") else "" for a in t["args"]]
            if spec_ty not in tys or init_ty not in tys:
                continue
            a = t["args"][tys.index(init_ty)]
            n3 += 1
            fn = b.path.split("::{closure")[0].split("::")[-1]
            iid = "requiredguess|pressure|%s>%s" % (fn, callee(t)[2])
            why = None
            if a.get("k") == "const":
                why = "the literal None"
            elif a.get("k") in ("copy", "move") and not a["place"]["p"]:
                nul = nul or Nullable(b)
                why = nul.at(a["place"]["l"], bi)
            if why:
                r.inst(iid, t["span"], "violation")
                r.fail(iid, t["span"],
                       "%s calls %s at given pressure with an initial temperature that can be None here (%s): the solver requires one (%s) and "
                       "panics — one point that does not converge takes the rest of the calculation with it" % (fn, callee(t)[2], why, req[0][1]))
            else:
                r.inst(iid, t["span"], "ok")
    r.floor("bubble / dew point calls at given pressure with an initial temperature", n3, 1)
    r.floor("TP-generic hand-ons of an initial temperature / pressure", n, 5)
    r.exhaustive = True
    return [r]
