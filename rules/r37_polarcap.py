"""R37 POLAR-CAP — every implementation of the polar PC-SAFT terms caps the segment number at 2.

The pair and triplet correlation integrals of the polar terms (Gross & Vrabec) take m_ij = min(m, 2)-based coefficients
(m-1)/m, (m-1)(m-2)/m^2.  The library has five implementations (PC-SAFT EoS, gc-PC-SAFT EoS, PC-SAFT functional for
mixtures, the pure-component functional, dipole-quadrupole cross terms); functional = EoS (C08) needs all of them to apply
the same cap.  Rule: for every call of `pair_integral_ij` / `triplet_integral_ijk` the two segment-number arguments derive
(through locals, array elements, closures) from a `min(.., 2.0)` call in the same function, or are read from a field of a
helper struct (`MeanSegmentNumbers`, gc `Dipole`) whose constructor applies `min(.., 2.0)`."""
import json
import re

from cfg import Defs
from facts import callee
from report import RuleResult

INTEGRALS = ("pair_integral_ij", "triplet_integral_ijk")


def _has_min2(F, root):
    for b in F.bodies:
        if b.path == root or b.path.startswith(root + "::{closure"):
            for bi, t in b.calls():
                if callee(t)[2] == "min" and any(a.get("f") == "2e0" for a in t["args"]):
                    return True
    return False


def _trace(F, b, defs, op, found, owners, depth=0, seen=None, flags=None):
    seen = seen if seen is not None else set()
    if op.get("k") not in ("copy", "move") or depth > 25:
        return
    pl = op["place"]
    for p in pl["p"]:
        if isinstance(p, dict) and "f" in p and p.get("o") and not str(p["o"]).startswith("closure:"):
            owners.add(p["o"])
        if isinstance(p, dict) and "idx" in p:
            pass
    l = pl["l"]
    # closure upvar: continue in the parent at the closure literal
    if b.is_closure() and l == 1:
        fld = [p for p in pl["p"] if isinstance(p, dict) and "f" in p]
        if fld:
            parent = F.body(b.d.get("parent")) if b.d.get("parent") else None
            # the literal may live in an enclosing closure: search all bodies of the root
            root = b.path.split("::{closure")[0]
            for pb in F.bodies:
                if not (pb.path == root or pb.path.startswith(root + "::{closure")):
                    continue
                for bi, si, st in pb.stmts():
                    rv = st["rv"]
                    if rv["k"] == "agg" and rv["kind"].get("t") == "closure" and rv["kind"].get("def") == b.path:
                        i = fld[0]["f"]
                        if i < len(rv["ops"]):
                            _trace(F, pb, Defs(pb), rv["ops"][i], found, owners, depth + 1, set(), flags)
        return
    if (b.path, l) in seen:
        return
    seen.add((b.path, l))
    for d in defs.of(l):
        if d[0] == "call":
            t = d[2]
            if callee(t)[2] == "min" and any(a.get("f") == "2e0" for a in t["args"]):
                found.append(t["span"])
            if callee(t)[2] in ("index", "index_mut") and flags is not None:
                flags.add("array-element")
            for a in t["args"]:
                _trace(F, b, defs, a, found, owners, depth + 1, seen, flags)
        else:
            rv = d[4]
            k = rv["k"]
            ops = []
            if k in ("use", "cast", "repeat"):
                ops = [rv["op"]]
            elif k in ("ref", "discr"):
                ops = [{"k": "copy", "place": rv["place"]}]
            elif k == "unop":
                ops = [rv["a"]]
            elif k == "binop":
                ops = [rv["a"], rv["b"]]
            elif k == "agg":
                ops = rv["ops"]
            for o in ops:
                _trace(F, b, defs, o, found, owners, depth + 1, seen, flags)


def run(F):
    r = RuleResult("R37", "POLAR-CAP: every polar correlation integral is evaluated with segment numbers capped at 2")
    n = 0
    for b in F.bodies:
        defs = None
        for bi, t in b.calls():
            if callee(t)[2] not in INTEGRALS or len(t["args"]) < 2:
                continue
            defs = defs or Defs(b)
            n += 1
            root = b.path.split("::{closure")[0]
            ok_all = True
            why = ""
            for a in t["args"][:2]:
                found, owners, flags = [], set(), set()
                _trace(F, b, defs, a, found, owners, flags=flags)
                ok = bool(found)
                if not ok:
                    for o in owners:
                        if _has_min2(F, o + "::new"):
                            ok = True
                if not ok and "array-element" in flags and _has_min2(F, root):
                    ok = True       # coefficients tabulated in a local array that is filled (with the cap) earlier in the same function
                if not ok:
                    ok_all = False
                    why = "owners %s" % sorted(owners) if owners else "no min(.., 2.0) behind the argument"
            iid = "cap|%s|%s@%s" % (root, callee(t)[2], t["span"].rsplit(":", 2)[-2])
            if ok_all:
                r.inst(iid, t["span"], "ok")
            else:
                r.inst(iid, t["span"], "violation")
                r.fail("cap|%s|%s" % (root, callee(t)[2]), t["span"],
                       "%s: the segment-number coefficients handed to `%s` do not derive from min(m, 2) (%s): this implementation of the polar term "
                       "uses the uncapped chain length, unlike its siblings — functional and equation of state disagree for m > 2" % (root, callee(t)[2], why))
    r.floor("polar correlation integral calls", n, 28)
    r.exhaustive = True
    return [r]
