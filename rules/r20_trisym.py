"""R20 TRI-SYMMETRY — a double sum written over the upper triangle (`for i in 0..n { for j in i..n { .. } }`, usually with
a symmetry factor 1 / 2) must have a summand that is symmetric under i <-> j: the set of array accesses whose indices are
derived from the two loop variables has to be invariant under swapping them (2-D accesses up to transposition).
`sigma_ij[[di, di]]` without a matching `[[dj, dj]]` makes the result depend on which component comes first —
a violation of permutation equivariance (C09) and of EoS = functional agreement (C08)."""
from cfg import Defs, dominators, reachable, strip_place
from facts import callee
from report import RuleResult


class Loops:
    def __init__(self, b):
        self.b = b
        self.defs = Defs(b)
        self.dom = dominators(b)
        self.loops = []        # dicts: var, start_op, header_block, body blocks
        self.find()

    def single(self, l):
        ds = self.defs.of(l)
        return ds[0] if len(ds) == 1 else None

    def find(self):
        b, defs = self.b, self.defs
        for bi, si, st in b.stmts():
            rv = st["rv"]
            if not (rv["k"] == "agg" and rv["kind"].get("t") == "adt" and rv["kind"].get("adt", "").endswith("ops::Range") and len(rv["ops"]) == 2):
                continue
            rng = st["place"]["l"]
            # range -> into_iter -> iter local -> next -> option -> loop var
            it = None
            for bj, t in b.calls():
                if callee(t)[2] == "into_iter" and t["args"] and t["args"][0].get("k") in ("copy", "move") and t["args"][0]["place"]["l"] == rng:
                    it = t["dest"]["l"]
            if it is None:
                continue
            iters = {it}
            for bj, sj, st2 in b.stmts():
                r2 = st2["rv"]
                if r2["k"] == "use" and r2["op"].get("k") in ("copy", "move") and r2["op"]["place"]["l"] in iters and not st2["place"]["p"]:
                    iters.add(st2["place"]["l"])
            for bj, t in b.calls():
                if callee(t)[2] != "next" or not t["args"] or t["args"][0].get("k") not in ("copy", "move"):
                    continue
                # &mut iter through reborrows
                l = t["args"][0]["place"]["l"]
                base = None
                for _ in range(4):
                    d = self.single(l)
                    if d and d[0] == "stmt" and d[4]["k"] == "ref":
                        if "*" in d[4]["place"]["p"]:
                            l = d[4]["place"]["l"]
                            continue
                        base = d[4]["place"]["l"]
                    break
                if base not in iters:
                    continue
                opt = t["dest"]["l"]
                var = None
                some_bb = None
                for bk, sk, st3 in b.stmts():
                    r3 = st3["rv"]
                    if r3["k"] == "use" and r3["op"].get("k") in ("copy", "move") and r3["op"]["place"]["l"] == opt and \
                            any(isinstance(p, dict) and "dc" in p for p in r3["op"]["place"]["p"]) and not st3["place"]["p"]:
                        var = st3["place"]["l"]
                        some_bb = bk
                if var is None:
                    continue
                body = {x for x in range(len(b.blocks)) if some_bb in self.dom.get(x, ())}
                self.loops.append({"var": var, "start": rv["ops"][0], "end": rv["ops"][1], "header": bj, "some": some_bb, "body": body,
                                   "span": st["span"]})

    def derives_from(self, l, var, depth=0, seen=None):
        """does integer local l derive from loop variable `var` (copy, +const, or lookup comp[var'])?"""
        if seen is None:
            seen = set()
        if l == var:
            return True
        if l in seen or depth > 10:
            return False
        seen.add(l)
        for d in self.defs.of(l):
            if d[0] == "stmt":
                rv = d[4]
                if rv["k"] in ("use", "cast") and rv["op"].get("k") in ("copy", "move"):
                    pl = rv["op"]["place"]
                    if self.derives_from(pl["l"], var, depth + 1, seen):
                        return True
                elif rv["k"] == "binop" and rv["op"].startswith(("Add", "Sub")):
                    for o in (rv["a"], rv["b"]):
                        if o.get("k") in ("copy", "move") and self.derives_from(o["place"]["l"], var, depth + 1, seen):
                            return True
            else:
                t = d[2]
                if callee(t)[2] in ("index", "index_mut") and len(t["args"]) == 2 and t["args"][1].get("k") in ("copy", "move"):
                    if self.derives_from(t["args"][1]["place"]["l"], var, depth + 1, seen):
                        return True
        return False


def is_strict(L, l, var, depth=0):
    """is local l == var + positive constant (range start of a strict upper triangle)?"""
    if depth > 6:
        return False
    for d in L.defs.of(l):
        if d[0] == "stmt":
            rv = d[4]
            if rv["k"] == "binop" and rv["op"].startswith("Add"):
                a, c = rv["a"], rv["b"]
                if c.get("k") == "const" and a.get("k") in ("copy", "move") and L.derives_from(a["place"]["l"], var):
                    return True
            if rv["k"] in ("use", "cast") and rv["op"].get("k") in ("copy", "move"):
                # (tmp.0) of an overflow-checked add
                if is_strict(L, rv["op"]["place"]["l"], var, depth + 1):
                    return True
    return False


def mult_constants(b, defs, op, seen, depth):
    """f64 constants that multiply the value of an operand (through Mul calls, refs, copies)"""
    out = set()
    if depth > 40:
        return out
    if op.get("k") == "const":
        if "f" in op:
            try:
                out.add(abs(float(op["f"])))
            except ValueError:
                pass
        return out
    if op.get("k") not in ("copy", "move"):
        return out
    l = op["place"]["l"]
    if l in seen:
        return out
    seen.add(l)
    for d in defs.of(l):
        if d[0] == "stmt":
            rv = d[4]
            if rv["k"] in ("use", "cast"):
                out |= mult_constants(b, defs, rv["op"], seen, depth + 1)
            elif rv["k"] == "ref":
                out |= mult_constants(b, defs, {"k": "copy", "place": rv["place"]}, seen, depth + 1)
            elif rv["k"] == "binop" and rv["op"] in ("Mul", "Div"):
                out |= mult_constants(b, defs, rv["a"], seen, depth + 1)
                if rv["op"] == "Mul":
                    out |= mult_constants(b, defs, rv["b"], seen, depth + 1)
        else:
            t = d[2]
            nm = callee(t)[2]
            if nm == "mul":
                for a in t["args"]:
                    out |= mult_constants(b, defs, a, seen, depth + 1)
            elif nm in ("div", "neg", "clone", "deref") and t["args"]:
                out |= mult_constants(b, defs, t["args"][0], seen, depth + 1)
    return out


def acc_name(b, defs, op):
    if op.get("k") not in ("copy", "move"):
        return "?"
    l = op["place"]["l"]
    for _ in range(5):
        ds = defs.of(l)
        if len(ds) == 1 and ds[0][0] == "stmt" and ds[0][4]["k"] == "ref":
            l = ds[0][4]["place"]["l"]
            continue
        break
    return b.lname(l) or "_%d" % l


def array_name(b, defs, op):
    """readable identity of the indexed array: struct field path or local name"""
    if op.get("k") not in ("copy", "move"):
        return "?"
    pl = op["place"]
    for _ in range(8):
        fields = [p for p in pl["p"] if isinstance(p, dict) and "f" in p and p.get("n")]
        if fields:
            return ".".join(f["n"] for f in fields)
        ds = defs.of(pl["l"])
        if len(ds) == 1 and ds[0][0] == "stmt" and ds[0][4]["k"] in ("ref", "use", "cast"):
            rv = ds[0][4]
            src = rv["place"] if rv["k"] == "ref" else (rv["op"].get("place") if rv["op"].get("k") in ("copy", "move") else None)
            if src is None:
                break
            pl = src
            continue
        if len(ds) == 1 and ds[0][0] == "call" and callee(ds[0][2])[2] in ("deref", "view", "borrow", "as_ref") and ds[0][2]["args"] and \
                ds[0][2]["args"][0].get("k") in ("copy", "move"):
            pl = ds[0][2]["args"][0]["place"]
            continue
        break
    return b.lname(pl["l"]) or "_%d" % pl["l"]


def run(F):
    r = RuleResult("R20", "TRI-SYMMETRY: summands of upper-triangle double sums are symmetric in the two loop indices")
    n_nests = 0
    n_mult = [0]
    for b in F.bodies:
        if b.get("exp"):
            continue
        has_range = any(st["rv"]["k"] == "agg" and st["rv"]["kind"].get("adt", "").endswith("ops::Range") for _, _, st in b.stmts())
        if not has_range:
            continue
        L = Loops(b)
        if len(L.loops) < 2:
            continue
        for inner in L.loops:
            st_op = inner["start"]
            if st_op.get("k") not in ("copy", "move"):
                continue
            for outer in L.loops:
                if outer is inner or inner["header"] not in outer["body"]:
                    continue
                if not L.derives_from(st_op["place"]["l"], outer["var"]):
                    continue
                # triangular nest (outer i, inner j starting at i or i+1)
                n_nests += 1
                I, J = outer["var"], inner["var"]
                # deeper loops inside the inner body are excluded
                deeper = set()
                for l3 in L.loops:
                    if l3 is not inner and l3 is not outer and l3["header"] in inner["body"]:
                        deeper |= l3["body"]
                recs = set()
                support = set()      # hoisted i-only accesses: may satisfy a counterpart, create no obligation
                sites = {}
                # blocks of the outer body that are not inside any loop nested in it (hoisted i-only lookups such as di = comp[i])
                nested_in_outer = set()
                for l3 in L.loops:
                    if l3 is not outer and l3["header"] in outer["body"]:
                        nested_in_outer |= l3["body"]
                hoisted = outer["body"] - nested_in_outer
                for bi, t in b.calls():
                    in_inner = bi in inner["body"] and bi not in deeper
                    if not in_inner and bi not in hoisted:
                        continue
                    if callee(t)[2] not in ("index", "index_mut") or len(t["args"]) != 2:
                        continue
                    key = t["args"][1]
                    comps = []
                    if key.get("k") in ("copy", "move"):
                        kty = b.pty(key["place"])
                        if kty["k"] == "int":
                            comps = [key["place"]["l"]]
                        else:
                            d = L.single(key["place"]["l"])
                            if d and d[0] == "stmt" and d[4]["k"] == "agg" and d[4]["kind"].get("t") in ("array", "tuple"):
                                comps = [o["place"]["l"] if o.get("k") in ("copy", "move") else None for o in d[4]["ops"]]
                    if not comps:
                        continue
                    orig = []
                    for c in comps:
                        if c is None:
                            orig.append("const")
                        elif L.derives_from(c, J):
                            orig.append("J")
                        elif L.derives_from(c, I):
                            orig.append("I")
                        else:
                            orig.append("other")
                    if "other" in orig or not any(o in ("I", "J") for o in orig):
                        continue
                    if not in_inner and "J" in orig:
                        continue
                    name = array_name(b, L.defs, t["args"][0])
                    rec = (name, tuple(sorted(orig)))      # multi-index arrays of pair / triplet quantities are symmetric
                    if in_inner:
                        recs.add(rec)
                        sites.setdefault(rec, t["span"])
                    else:
                        support.add(rec)
                swap = {"I": "J", "J": "I", "const": "const"}
                missing = []
                for name, orig in sorted(recs):
                    sw = tuple(sorted(swap[o] for o in orig))
                    if (name, sw) not in recs and (name, sw) not in support:
                        missing.append(((name, orig), (name, sw)))
                fn = b.path.split("::{closure")[0]
                # ---- multiplicity: in a *strict* upper-triangle nest (inner starts at outer + 1, diagonal handled separately)
                #      every accumulated pair / triplet summand carries its symmetry multiplicity (a constant factor >= 2)
                strict = is_strict(L, st_op["place"]["l"], outer["var"])
                if strict:
                    for bi, t in b.calls():
                        if bi not in inner["body"] or bi in deeper:
                            continue
                        p_, tr_, nm_ = callee(t)
                        if nm_ not in ("sub_assign", "add_assign") or not b.opty(t["args"][1]):
                            continue
                        aty = b.opty(t["args"][1])
                        if aty["k"] in ("int",) or not (aty["dual"] or aty["f64"]):
                            continue
                        consts = mult_constants(b, L.defs, t["args"][1], set(), 0)
                        n_mult[0] += 1
                        mid = "mult|%s|%s" % (fn, t["span"].rsplit(":", 2)[0].split("/")[-1] + ":" + acc_name(b, L.defs, t["args"][0]))
                        if any(c >= 2.0 for c in consts):
                            r.inst(mid + "@" + t["span"].split(":")[-2], t["span"], "ok", factors=sorted(consts))
                        else:
                            r.inst(mid + "@" + t["span"].split(":")[-2], t["span"], "violation", factors=sorted(consts))
                            r.fail("mult|%s|%s" % (fn, acc_name(b, L.defs, t["args"][0])), t["span"],
                                   "%s: the strict upper-triangle loop (j > i, diagonal handled separately) accumulates a cross term into `%s` without a symmetry "
                                   "multiplicity (constant factor 2 / 3 / 6): every unordered pair is counted once instead of twice" % (fn, acc_name(b, L.defs, t["args"][0])))
                iid = "tri|%s|%s" % (fn, inner["span"].rsplit(":", 2)[0].split("/")[-1] + ":" + "/".join(sorted({x[0] for x in recs}))[:60])
                if missing:
                    (nm, og), (_, sw) = missing[0]
                    r.inst(iid, sites[(nm, og)], "violation", accesses=sorted(recs))
                    r.fail("tri|%s|%s%s" % (fn, nm, list(og)), sites[(nm, og)],
                           "%s: in the upper-triangle double loop (inner loop starts at the outer index) the array `%s` is accessed with indices derived from %s "
                           "but never with %s: the summand is not symmetric in the two components, so the result depends on the order of the components"
                           % (fn, nm, list(og), list(sw)))
                elif recs:
                    r.inst(iid, inner["span"], "ok", accesses=len(recs))
    r.floor("triangular loop nests examined", n_nests, 20)
    r.floor("strict-triangle accumulations examined", n_mult[0], 10)
    r.exhaustive = True
    r.blind.append("only index accesses through Index/IndexMut are compared; factors such as the symmetry constant 1/2 and calls like index_axis are not judged")
    return [r]
