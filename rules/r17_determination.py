"""R17 DETERMINATION — State::_new turns an input set into a state iff the set is exactly determined.

A finite abstract interpretation of the MIR of `State::_new` (and the closures it passes to Option combinators) over the
presence bits of its eight optional inputs x {one component, several components}: Option values are abstracted to
None / Some, booleans to true / false, `eos.components()` to 1 / many; `and`, `or_else`, `map`, `and_then`, `is_some`,
discriminant switches and tuple matches are interpreted exactly on that domain; everything else is opaque.  For each of
the 2 x 256 presence patterns all feasible paths are explored and classified as
    reject  (returns Err(..))      |  missing (returns Ok(Err(..)))      |  state (calls new_nvt / new_npt / new_npvx).

Oracle (degrees of freedom, independent of the code's structure): a thermodynamic state has T, (V, N) and a composition.
  * over-determined  <=>  density & partial_density, or total_moles & moles, or all three of {volume, amount, density}
                          are given, or more than one composition source {partial_density, moles, molefracs};
                          ==> no path may construct a state;
  * well-determined  <=>  not over-determined, composition known (a source, or one component), T given and the size is fixed
                          (two of {V, N, rho}; or rho alone / p alone / p with one of V, N: amount defaults to the reference);
                          ==> every non-error path constructs a state;
  * otherwise under-determined ==> no path constructs a state.
A pressure given in addition to a fully determined (T, V, N) is documented to be ignored (hierarchy), not an over-determination."""
import itertools

from cfg import Defs
from facts import callee
from report import RuleResult

INPUTS = ["temperature", "volume", "density", "partial_density", "total_moles", "moles", "molefracs", "pressure"]
CONSTRUCTORS = ("new_nvt", "new_npt", "new_npvx", "new_nvt_unchecked")
S, N, U = "S", "N", "?"


class Fork(Exception):
    pass


class Interp:
    def __init__(self, F, ncomp):
        self.F = F
        self.ncomp = ncomp
        self.budget = 0

    def run(self, body, args, upvars=None):
        """returns list of (events tuple, return value)"""
        env = {}
        for i, a in enumerate(args, start=1):
            env[i] = a
        self.upvars = upvars or {}
        out = []
        self._exec(body, 0, env, (), out, upvars or {}, 0)
        return out

    # ---- values
    def read_place(self, body, env, pl, upvars):
        l = pl["l"]
        v = env.get(l, U)
        projs = list(pl["p"])
        if body.is_closure() and l == 1:
            # upvar
            first = True
            v = U
            for p in projs:
                if isinstance(p, dict) and "f" in p and first:
                    v = upvars.get(p["f"], U)
                    first = False
                    continue
                v = self.proj(v, p)
            return v
        for p in projs:
            v = self.proj(v, p)
        return v

    def proj(self, v, p):
        if p == "*":
            return v
        if isinstance(p, dict) and "f" in p:
            if isinstance(v, tuple) and v and v[0] == "tuple":
                return v[1][p["f"]] if p["f"] < len(v[1]) else U
            if isinstance(v, tuple) and v and v[0] in ("Ok", "Err", "Continue", "Break", "SomeV"):
                return v[1]
            return U
        if isinstance(p, dict) and "dc" in p:
            return v
        return U

    def op(self, body, env, o, upvars):
        k = o.get("k")
        if k == "const":
            if "bits" in o and body.ty(o["ty"])["k"] == "bool":
                return o["bits"] == "1"
            if "i" in o:
                return int(o["i"])
            if "bits" in o and body.ty(o["ty"])["k"] == "int":
                return int(o["bits"])
            t = o.get("text", "")
            if "None" in t and "Option" in body.ty(o["ty"])["s"]:
                return N
            return U
        if k in ("copy", "move"):
            return self.read_place(body, env, o["place"], upvars)
        return U

    def presence(self, v):
        if v in (S, N):
            return v
        if isinstance(v, tuple) and v and v[0] == "SomeV":
            return S
        return U

    # ---- execution
    def _exec(self, body, bi, env, events, out, upvars, depth):
        self.budget += 1
        if self.budget > 200000 or depth > 400:
            out.append((events + ("budget",), U))
            return
        while True:
            blk = body.blocks[bi]
            for st in blk["stmts"]:
                self.assign(body, env, st["place"], self.rvalue(body, env, st["rv"], upvars))
            t = blk["term"]
            k = t["k"]
            if k in ("goto", "drop", "assert"):
                bi = t["target"]
                continue
            if k == "return":
                out.append((events, env.get(0, U)))
                return
            if k == "switch":
                v = self.op(body, env, t["op"], upvars)
                tv = {int(a): b for a, b in t["targets"]}
                if isinstance(v, bool):
                    v = 1 if v else 0
                if isinstance(v, int):
                    bi = tv.get(v, t["otherwise"])
                    continue
                # unknown: fork over all successors
                succs = sorted(set(list(tv.values()) + [t["otherwise"]]))
                for s_ in succs:
                    if body.blocks[s_]["term"]["k"] == "unreachable":
                        continue
                    self._exec(body, s_, dict(env), events, out, upvars, depth + 1)
                return
            if k == "call":
                res, ev = self.call(body, env, t, upvars)
                if ev:
                    events = events + (ev,)
                self.assign(body, env, t["dest"], res)
                if t["target"] is None:
                    out.append((events + ("diverges",), U))
                    return
                bi = t["target"]
                continue
            if k == "unreachable":
                return
            out.append((events + ("term:" + k,), U))
            return

    def assign(self, body, env, pl, v):
        if not pl["p"]:
            env[pl["l"]] = v
            return
        fields = [p for p in pl["p"] if isinstance(p, dict) and "f" in p]
        if len(fields) == 1 and isinstance(env.get(pl["l"]), tuple) and env[pl["l"]][0] == "tuple":
            t = list(env[pl["l"]][1])
            if fields[0]["f"] < len(t):
                t[fields[0]["f"]] = v
                env[pl["l"]] = ("tuple", tuple(t))
            return
        # store through pointer etc.: ignore (presence bits are never mutated through references in _new)

    def rvalue(self, body, env, rv, upvars):
        k = rv["k"]
        if k in ("use", "cast"):
            return self.op(body, env, rv["op"], upvars)
        if k == "ref":
            return self.read_place(body, env, rv["place"], upvars)
        if k == "discr":
            v = self.read_place(body, env, rv["place"], upvars)
            p = self.presence(v)
            if p == S:
                return 1
            if p == N:
                return 0
            if isinstance(v, tuple) and v and v[0] in ("Ok", "Continue"):
                return 0
            if isinstance(v, tuple) and v and v[0] in ("Err", "Break"):
                return 1
            return U
        if k == "agg":
            kind = rv["kind"]
            ops = [self.op(body, env, o, upvars) for o in rv["ops"]]
            if kind.get("t") == "tuple":
                return ("tuple", tuple(ops))
            if kind.get("t") == "adt":
                a, v = kind["adt"], kind["variant"]
                if a == "std::option::Option":
                    return S if v == "Some" else N
                if a == "std::result::Result":
                    return (v, ops[0] if ops else U)
            if kind.get("t") == "closure":
                return ("closure", kind["def"], tuple(ops))
            return U
        if k == "binop":
            a, b = self.op(body, env, rv["a"], upvars), self.op(body, env, rv["b"], upvars)
            if isinstance(a, int) and isinstance(b, int) and not isinstance(a, bool) and not isinstance(b, bool):
                if rv["op"] == "Eq":
                    return a == b
                if rv["op"] == "Ne":
                    return a != b
            return U
        if k == "unop" and rv["op"] == "Not":
            a = self.op(body, env, rv["a"], upvars)
            return (not a) if isinstance(a, bool) else U
        return U

    def call_closure(self, clo, params):
        if not (isinstance(clo, tuple) and clo and clo[0] == "closure"):
            return U
        cb = self.F.body(clo[1])
        if cb is None:
            return U
        ups = {i: v for i, v in enumerate(clo[2])}
        args = [clo] + list(params)
        sub = []
        env = {i: a for i, a in enumerate(args, start=1)}
        self._exec(cb, 0, env, (), sub, ups, 0)
        vals = {self.presence(v) if self.presence(v) != U else (v if isinstance(v, (bool, int)) else U) for _, v in sub}
        if len(vals) == 1:
            return vals.pop()
        return U

    def call(self, body, env, t, upvars):
        p, tr, name = callee(t)
        args = [self.op(body, env, a, upvars) for a in t["args"]]
        if p.startswith("std::option::Option"):
            a = self.presence(args[0]) if args else U
            if name == "and":
                b = self.presence(args[1])
                if a == N or b == N:
                    return N, None
                if a == S and b == S:
                    return S, None
                return U, None
            if name == "or":
                b = self.presence(args[1])
                if a == S or b == S:
                    return S, None
                if a == N and b == N:
                    return N, None
                return U, None
            if name == "or_else":
                if a == S:
                    return S, None
                if a == N:
                    return self.presence(self.call_closure(args[1], [])), None
                return U, None
            if name in ("map", "cloned", "copied", "as_ref", "as_mut", "take", "inspect", "as_deref"):
                return a, None
            if name == "and_then":
                if a == N:
                    return N, None
                if a == S:
                    return self.presence(self.call_closure(args[1], [U])), None
                return U, None
            if name == "is_some":
                return (True if a == S else False if a == N else U), None
            if name == "is_none":
                return (True if a == N else False if a == S else U), None
            if name in ("ok_or", "ok_or_else"):
                return (("Ok", U) if a == S else ("Err", U) if a == N else U), None
            if name in ("unwrap_or", "unwrap_or_else", "unwrap_or_default", "unwrap", "expect"):
                return U, None
            if name in ("zip",):
                b = self.presence(args[1])
                return (S if a == S and b == S else N if N in (a, b) else U), None
            if name in ("filter", "xor"):
                return (N if a == N else U), None
            return U, None
        if name == "components" and tr and tr.endswith("Components"):
            return self.ncomp, None
        if name == "branch" and tr == "std::ops::Try":
            v = args[0]
            if isinstance(v, tuple) and v and v[0] == "Ok":
                return ("Continue", v[1]), None
            if isinstance(v, tuple) and v and v[0] == "Err":
                return ("Break", v[1]), None
            return U, None
        if name == "from_residual":
            return ("Err", U), None
        if name in CONSTRUCTORS and "State" in p:
            return U, "constructs:" + name
        if name in ("deref", "clone", "borrow", "as_ref", "to_owned", "from", "into") and args:
            return args[0], None
        return U, None


def classify(ret):
    if isinstance(ret, tuple) and ret and ret[0] == "Err":
        return "reject"
    if isinstance(ret, tuple) and ret and ret[0] == "Ok":
        inner = ret[1]
        if isinstance(inner, tuple) and inner and inner[0] == "Err":
            return "missing"
        if isinstance(inner, tuple) and inner and inner[0] == "Ok":
            return "state"
        return "ok?"
    return "?"


def oracle(pres, ncomp):
    T, V, rho, rho_i, Nt, N_i, x, p = (pres[k] for k in INPUTS)
    over = (rho and rho_i) or (Nt and N_i) or ((rho or rho_i) and (Nt or N_i) and V) or (sum([rho_i, N_i, x]) > 1)
    if over:
        return "over"
    comp = rho_i or N_i or x or ncomp == 1
    if not comp:
        return "under"
    k = int(V) + int(Nt or N_i) + int(rho or rho_i)
    has_rho = rho or rho_i
    sized = (k == 2) or (k == 1 and has_rho) or (p and k <= 1)
    if T and sized:
        return "well"
    return "under"


def run(F):
    r = RuleResult("R17", "DETERMINATION: State::_new builds a state iff the input set is exactly determined (abstract interpretation over presence bits)")
    bs = [b for b in F.bodies if b.path.endswith("state::State::<E>::_new")]
    if not bs:
        r.fail("missing|_new", "-", "State::_new not found")
        return [r]
    b = bs[0]
    # parameters by name
    idx = {}
    for l in range(1, b["arg_count"] + 1):
        nm = b.lname(l)
        if nm in INPUTS:
            idx[nm] = l
    if sorted(idx) != sorted(INPUTS):
        r.fail("_new|signature", b.file_line(), "State::_new: optional inputs %s not found among the parameters (found %s)" % (INPUTS, sorted(idx)))
        return [r]
    n_pat = 0
    bad = {}
    undecided = 0
    for ncomp in (1, 2):
        for bits in itertools.product([False, True], repeat=len(INPUTS)):
            pres = dict(zip(INPUTS, bits))
            args = [U] * b["arg_count"]
            for nm, l in idx.items():
                args[l - 1] = S if pres[nm] else N
            it = Interp(F, ncomp)
            paths = it.run(b, args)
            n_pat += 1
            verdict = oracle(pres, ncomp)
            constructs = [ev for ev, ret in paths if any(e.startswith("constructs:") for e in ev)]
            classes = {classify(ret) for ev, ret in paths}
            unknown = any("budget" in ev or any(e.startswith("term:") for e in ev) for ev, ret in paths)
            given = "+".join(k for k in INPUTS if pres[k]) or "(nothing)"
            key = "%s|c=%s" % (given, "1" if ncomp == 1 else "n")
            if unknown:
                undecided += 1
                continue
            if verdict in ("over", "under") and constructs:
                bad[key] = "%s-determined input set {%s} (components: %s) reaches %s: it is turned into a state instead of being rejected" % (
                    verdict, given, "1" if ncomp == 1 else ">1", sorted({e for ev in constructs for e in ev if e.startswith("constructs:")}))
            elif verdict == "over" and classes - {"reject"}:
                bad[key] = "over-determined input set {%s} is not rejected with an error on every path (outcomes %s)" % (given, sorted(classes))
            elif verdict == "well":
                # every path that is not an error of the constructor itself must construct
                nocons = [(ev, ret) for ev, ret in paths if not any(e.startswith("constructs:") for e in ev)]
                if nocons:
                    bad[key] = "well-determined input set {%s} (components: %s) is not turned into a state (outcomes %s)" % (
                        given, "1" if ncomp == 1 else ">1", sorted({classify(ret) for ev, ret in nocons}))
    for key, msg in sorted(bad.items()):
        r.fail("_new|%s" % key, b.file_line(), "State::_new: " + msg)
    r.inst("_new|presence-patterns", b.file_line(), "violation" if bad else "ok", patterns=n_pat, undecided=undecided, violations=len(bad))
    # a few written-out cases for the evidence
    for given in (["temperature", "volume", "moles"], ["temperature", "density", "partial_density"], ["temperature", "pressure", "molefracs"],
                  ["temperature", "partial_density", "total_moles", "volume"], ["volume", "moles"]):
        pres = {k: (k in given) for k in INPUTS}
        r.inst("_new|{%s}" % "+".join(given), b.file_line(), "ok" if not any(k.startswith("+".join(k2 for k2 in INPUTS if pres[k2]) + "|") for k in bad) else "violation",
               oracle=oracle(pres, 2))
    r.floor("presence patterns interpreted", n_pat, 512)
    if undecided > 16:
        r.fail("_new|undecided", b.file_line(), "State::_new: %d of %d presence patterns could not be interpreted (unmodelled control flow)" % (undecided, n_pat))
    r.exhaustive = True
    r.notes.append("abstract domain: Option -> None/Some, bool, components() -> 1/many; %d patterns undecided" % undecided)
    return [r]
