"""R19 PAIRED-ARGS — deviant-call rule (Engler-style belief inference made exact).

Where one local closure is called three or more times in a function with two or more arguments, and at all call sites
but one a later argument is computed from the same source element as an earlier argument (`fun(*c, ct)` with
`ct = t_inv * *c`), the remaining call site is a deviation: one of the repeated terms is evaluated with another
term's parameter.  Instances today: the Einstein terms of DIPPR equation 127 in c_p_integral / c_p_t_integral
(each term must be evaluated at its own characteristic temperature, otherwise the integrated heat capacity no longer
differentiates back to the correlation — C10)."""
from cfg import Defs, strip_place
from facts import callee
from report import RuleResult


def elem_roots(b, defs, op, depth=0, seen=None):
    """set of source elements an operand is computed from: (local, tuple of projections) of places that carry a
    constant-index / field projection (pattern-bound array elements, struct fields); follows every data dependence"""
    if seen is None:
        seen = set()
    out = set()
    if op.get("k") not in ("copy", "move") or depth > 14:
        return out
    pl = op["place"]
    l, projs = strip_place(pl)
    if projs and any(p[0] in ("cidx", "f") for p in projs):
        # resolve the base through copies of references
        base = l
        for _ in range(6):
            ds = defs.of(base)
            if len(ds) == 1 and ds[0][0] == "stmt" and ds[0][4]["k"] in ("ref", "use", "cast"):
                src = ds[0][4]["place"] if ds[0][4]["k"] == "ref" else (ds[0][4]["op"].get("place") if ds[0][4]["op"].get("k") in ("copy", "move") else None)
                if src is None:
                    break
                sl, sp = strip_place(src)
                if sp:
                    projs = tuple(sp) + tuple(projs)
                base = sl
            else:
                break
        out.add((base, tuple(p for p in projs if p[0] in ("cidx", "f", "dc"))))
        return out
    if l in seen:
        return out
    seen.add(l)
    for d in defs.of(l):
        if d[0] == "call":
            for a in d[2]["args"]:
                out |= elem_roots(b, defs, a, depth + 1, seen)
        else:
            rv = d[4]
            ops = []
            if rv["k"] in ("use", "cast", "repeat"):
                ops = [rv["op"]]
            elif rv["k"] in ("ref",):
                ops = [{"k": "copy", "place": rv["place"]}]
            elif rv["k"] == "binop":
                ops = [rv["a"], rv["b"]]
            elif rv["k"] == "unop":
                ops = [rv["a"]]
            elif rv["k"] == "agg":
                ops = rv["ops"]
            for o in ops:
                out |= elem_roots(b, defs, o, depth + 1, seen)
    return out


def run(F):
    r = RuleResult("R19", "PAIRED-ARGS: repeated calls of one local closure pair each argument with its own parameter")
    n_groups = 0
    for b in F.bodies:
        if b.is_closure():
            continue
        defs = None
        groups = {}
        for bi, t in b.calls():
            p, tr, name = callee(t)
            if not (tr and tr.startswith("std::ops::Fn") and name in ("call", "call_mut", "call_once")):
                continue
            if len(t["args"]) != 2:
                continue
            cty = b.opty(t["args"][0])
            if not cty or "closure:" not in cty["k"]:
                continue
            cpath = cty["k"].split("closure:")[-1]
            defs = defs or Defs(b)
            # packed arguments
            tup = t["args"][1]
            ops = None
            if tup.get("k") in ("copy", "move"):
                for d in defs.of(tup["place"]["l"]):
                    if d[0] == "stmt" and d[4]["k"] == "agg" and d[4]["kind"].get("t") == "tuple":
                        ops = d[4]["ops"]
            if not ops or len(ops) < 2:
                continue
            groups.setdefault(cpath, []).append((t, ops))
        for cpath, sites in groups.items():
            if len(sites) < 3:
                continue
            # pairing pattern: for argument positions (i, j), roots(arg j) contains roots(arg i)
            nargs = min(len(o) for _, o in sites)
            for i in range(nargs):
                for j in range(nargs):
                    if i == j:
                        continue
                    flags = []
                    for t, ops in sites:
                        ri = elem_roots(b, defs, ops[i])
                        rj = elem_roots(b, defs, ops[j])
                        flags.append(bool(ri) and ri <= rj)
                    if sum(flags) >= len(flags) - 1 and sum(flags) >= 2:
                        n_groups += 1
                        fn = b.path.split("::")[-1]
                        iid = "paired|%s|%s|arg%d~arg%d" % (b.path, cpath.split("::")[-1], i, j)
                        if all(flags):
                            r.inst(iid, sites[0][0]["span"], "ok", calls=len(sites))
                        else:
                            k = flags.index(False)
                            t_bad = sites[k][0]
                            r.inst(iid, t_bad["span"], "violation", calls=len(sites))
                            r.fail("paired|%s|%s|deviant-call" % (b.path, cpath.split("::")[-1]), t_bad["span"],
                                   "%s: %d of %d calls of the local closure pass, as argument %d, a value computed from the same parameter as argument %d; "
                                   "the call at %s does not — one repeated term is evaluated with another term's parameter" % (
                                       fn, sum(flags), len(flags), j, i, t_bad["span"]))
    r.floor("closure call groups with a pairing pattern", n_groups, 2)
    r.exhaustive = True
    return [r]
