"""R60 EVEN-GUARD — a robust loss decides "inlier or outlier" from the magnitude of the residual, not from its sign.

C20: "each robust loss equals its closed form sqrt(f^2 rho(r^2 / f^2))" — rho is a function of z = r^2/f^2, so whatever branch a
loss takes (Huber: z <= 1) may depend on the residual only through an even function of it (r*r, |r|, r^2).  A guard written on
the signed residual (`ri <= s`) treats every negative residual as an inlier: under-predictions are no longer damped.
Rule: in the element closures of `Loss::apply`, the operand of every branch is connected to the closure's element parameter
only through `x * x`, `abs()`, `powi(2)` / `powi(even)`."""
from cfg import Defs
from facts import callee
from report import RuleResult


def _signed_in(F, b, param, depth):
    """does the value returned by `b` depend on its parameter `param` through an odd path? (conservative: True when unsure)"""
    if depth > 2 or len(b.blocks) > 60:
        return True
    defs = Defs(b)

    def direct(op):
        l = op["place"]["l"] if op.get("k") in ("copy", "move") else None
        for _ in range(6):
            if l is None:
                return False
            if l == param:
                return True
            ds = defs.of(l)
            if len(ds) != 1 or ds[0][0] != "stmt":
                return False
            rv = ds[0][4]
            if rv["k"] in ("use", "cast") and rv["op"].get("k") in ("copy", "move"):
                l = rv["op"]["place"]["l"]
            else:
                return False
        return False

    def reach(l, seen):
        if l in seen:
            return False
        seen.add(l)
        if l == param:
            return True
        for d in defs.of(l):
            if d[0] == "call":
                t = d[2]
                nm = str(callee(t)[2])
                if nm == "abs" or (nm == "powi" and len(t["args"]) == 2 and t["args"][1].get("i") is not None and int(t["args"][1]["i"]) % 2 == 0):
                    continue
                cb = F.callee_body(t)
                for ai, a in enumerate(t["args"]):
                    if a.get("k") in ("copy", "move") and reach(a["place"]["l"], seen):
                        if cb is not None and not cb.is_closure() and cb["arg_count"] == len(t["args"]) and not _signed_in(F, cb, ai + 1, depth + 1):
                            continue
                        return True
            else:
                rv = d[4]
                k = rv["k"]
                if k == "binop" and rv["op"] == "Mul" and direct(rv["a"]) and direct(rv["b"]):
                    continue
                ops = [rv["op"]] if k in ("use", "cast") else [rv["a"], rv["b"]] if k == "binop" else [rv["a"]] if k == "unop" else []
                if k == "ref":
                    ops = [{"k": "copy", "place": rv["place"]}]
                for o in ops:
                    if o.get("k") in ("copy", "move") and reach(o["place"]["l"], seen):
                        return True
        return False

    return reach(0, set())


def run(F):
    r = RuleResult("R60", "EVEN-GUARD: branches of a robust loss depend on the residual only through an even function of it")
    n = 0
    for b in F.bodies:
        # the element closures of Loss::apply, or a per-residual method of Loss (`fn apply_scalar(&self, ri: f64) -> f64`)
        in_loss = "estimator::loss::Loss::" in b.path and "::tests::" not in b.path
        if not in_loss:
            continue
        if b.is_closure():
            params = set(range(2, b["arg_count"] + 1))
        else:
            params = {l for l in range(1, b["arg_count"] + 1) if (b.lty(l) or {}).get("s") == "f64" and (b.lname(l) or "").startswith(("r", "x", "z"))}
            if (b.lty(0) or {}).get("s") != "f64" or not params:
                continue
        defs = Defs(b)

        def direct(op):
            """operand is (a copy of) the element parameter"""
            l = op["place"]["l"] if op.get("k") in ("copy", "move") else None
            for _ in range(6):
                if l is None:
                    return False
                if l in params:
                    return True
                ds = defs.of(l)
                if len(ds) != 1 or ds[0][0] != "stmt":
                    return False
                rv = ds[0][4]
                if rv["k"] in ("use", "cast") and rv["op"].get("k") in ("copy", "move"):
                    l = rv["op"]["place"]["l"]
                elif rv["k"] == "ref":
                    l = rv["place"]["l"]
                else:
                    return False
            return False

        def signed_reach(l, seen):
            """does the value of local l depend on the element parameter through an odd path?"""
            if l in seen:
                return False
            seen.add(l)
            if l in params:
                return True
            for d in defs.of(l):
                if d[0] == "call":
                    t = d[2]
                    nm = str(callee(t)[2])
                    if nm == "abs":
                        continue
                    if nm == "powi" and len(t["args"]) == 2 and t["args"][1].get("i") is not None and int(t["args"][1]["i"]) % 2 == 0:
                        continue
                    cb = F.callee_body(t)
                    for ai, a in enumerate(t["args"]):
                        if a.get("k") in ("copy", "move") and signed_reach(a["place"]["l"], seen):
                            # a helper that itself depends on this argument only through an even function (`scale.z(ri)` = ri*ri/f^2)
                            if cb is not None and not cb.is_closure() and cb["arg_count"] == len(t["args"]) and cb.path.startswith("feos") \
                                    and not _signed_in(F, cb, ai + 1, 0):
                                continue
                            return True
                else:
                    rv = d[4]
                    k = rv["k"]
                    if k == "binop" and rv["op"] == "Mul" and direct(rv["a"]) and direct(rv["b"]):
                        continue          # r * r
                    ops = [rv["op"]] if k in ("use", "cast") else [rv["a"], rv["b"]] if k == "binop" else [rv["a"]] if k == "unop" else []
                    if k == "ref":
                        ops = [{"k": "copy", "place": rv["place"]}]
                    for o in ops:
                        if o.get("k") in ("copy", "move") and signed_reach(o["place"]["l"], seen):
                            return True
            return False

        for bi, blk in enumerate(b.blocks):
            t = blk["term"]
            if t["k"] != "switch" or t["op"].get("k") not in ("copy", "move"):
                continue
            n += 1
            iid = "evenguard|%s@%s" % (b.path.split("::")[-1], t["span"].rsplit(":", 2)[-2])
            if signed_reach(t["op"]["place"]["l"], set()):
                r.inst(iid, t["span"], "violation")
                r.fail("evenguard|%s" % b.path.split("::")[-1], t["span"],
                       "Loss::apply: a branch of a robust loss is taken on the *signed* residual (not on r*r or |r|): negative residuals beyond "
                       "the scaling factor are treated as inliers and are no longer damped — the loss differs from sqrt(f^2 rho(r^2/f^2))")
            else:
                r.inst(iid, t["span"], "ok")
    # (b) the loss is applied to the relative differences themselves; averaging over the data points comes afterwards
    #     (rho is non-linear: loss(r / N) is not loss(r) / N — the scaling factor of the robust loss would grow with N)
    nb = 0
    ARITH = ("div", "mul", "add", "sub", "neg", "mapv", "map", "mapv_inplace", "div_assign", "mul_assign", "powi", "sqrt", "abs")
    for b in F.bodies:
        if b.is_closure() or "estimator::" not in b.path or "::tests::" in b.path:
            continue
        apps = [(bi, t) for bi, t in b.calls() if str(callee(t)[2]) == "apply" and "loss::Loss" in str(callee(t)[0]) and len(t["args"]) == 2]
        if not apps:
            continue
        defs = Defs(b)
        for bi, t in apps:
            nb += 1
            fn = b.path.split("::")[-1]
            iid = "lossorder|%s" % fn
            # the array handed to `apply` (through `&mut`)
            l = t["args"][1]["place"]["l"] if t["args"][1].get("k") in ("copy", "move") else None
            arr = None
            for _ in range(6):
                ds = defs.of(l) if l is not None else []
                if len(ds) == 1 and ds[0][0] == "stmt" and ds[0][4]["k"] == "ref":
                    arr = l = ds[0][4]["place"]["l"]          # `&mut *&mut cost`: keep following reborrows
                elif len(ds) == 1 and ds[0][0] == "stmt" and ds[0][4]["k"] == "use" and ds[0][4]["op"].get("k") in ("copy", "move") and arr is None:
                    l = ds[0][4]["op"]["place"]["l"]
                else:
                    break
            bad = None
            if arr is None:
                bad = "the argument of Loss::apply is not a mutable borrow of a local array"
            else:
                # what the array was computed from before the call: only the residual producer and `?` plumbing
                work, seen = [arr], set()
                while work and not bad:
                    x = work.pop()
                    if x in seen:
                        continue
                    seen.add(x)
                    for d in defs.whole(x):
                        if d[0] == "call":
                            nm = str(callee(d[2])[2])
                            if nm in ARITH:
                                bad = "the array handed to Loss::apply has already been through `%s`" % nm
                            elif nm in ("branch", "from_residual", "unwrap", "clone", "to_owned", "into", "from"):
                                work += [a["place"]["l"] for a in d[2]["args"] if a.get("k") in ("copy", "move")]
                        else:
                            rv = d[4]
                            if rv["k"] == "binop":
                                bad = "the array handed to Loss::apply has already been through arithmetic"
                            elif rv["k"] in ("use", "cast") and rv["op"].get("k") in ("copy", "move"):
                                work.append(rv["op"]["place"]["l"])
            if bad:
                r.inst(iid, t["span"], "violation")
                r.fail(iid, t["span"], "%s: %s — the loss has to see the relative differences themselves; the average over the data points is "
                                       "taken of the loss values (rho is not linear)" % (fn, bad))
            else:
                r.inst(iid, t["span"], "ok")
    if "estimator" in (F.meta.get("features") or []) or "all_models" in (F.meta.get("features") or []):
        r.floor("applications of the loss function to residuals", nb, 1)
        r.floor("branches in robust-loss closures", n, 1)
    r.exhaustive = True
    return [r]
