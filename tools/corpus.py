#!/usr/bin/env python3
"""Self-test corpus runner.  Each entry of mutants/corpus.toml is a small edit of /repo (exact string
replacements) that either breaks a property (must make the named rule fire with a key containing
`expect`) or is behaviour-neutral (must leave the listed properties' checks silent).

Every mutant is applied to a scratch copy under $TMPDIR (outside /repo and /verif), the facts are
re-extracted from that copy with the real driver, the property's rules are run, and the copy is removed.

usage: tools/corpus.py [-j N] [--only name,name] [--kind break|neutral] [--json out]"""
import argparse
import json
import os
import shutil
import subprocess
import sys
import tempfile
import time
import tomllib
from concurrent.futures import ThreadPoolExecutor

HERE = os.path.dirname(os.path.abspath(__file__))
VERIF = os.path.dirname(HERE)
REPO = "/repo"
CORPUS = os.path.join(VERIF, "mutants", "corpus.toml")

WORKER = r'''
import sys, json, os
sys.path.insert(0, os.path.join(%(verif)r, "rules"))
import facts, report, registry
props = %(props)r
out = {}
try:
    ctx = registry.Context("quick")
    for p in props:
        res = []
        for rule in registry.PROPERTY_RULES[p]:
            res.extend(rule(ctx, p))
        out[p] = [f.key for r in res for f in r.findings]
    print("RESULT " + json.dumps(out))
except facts.ExtractionError as e:
    print("RESULT " + json.dumps({"__error__": str(e)[-3000:]}))
'''


def apply_edits(root, edits):
    for e in edits:
        p = os.path.join(root, e["file"])
        s = open(p).read()
        n = s.count(e["old"])
        if n != e.get("count", 1):
            raise RuntimeError("%s: pattern occurs %d times (expected %d): %r" % (e["file"], n, e.get("count", 1), e["old"][:80]))
        s = s.replace(e["old"], e["new"])
        open(p, "w").write(s)


def run_one(m, keep=False):
    """one retry for infrastructure errors (rsync / cargo under heavy load); rule outcomes are never retried"""
    r = _run_one(m, keep)
    if r["status"] == "error" and "pattern occurs" not in r.get("detail", ""):
        r = _run_one(m, keep)
    return r


def _run_one(m, keep=False):
    t0 = time.time()
    tmp = tempfile.mkdtemp(prefix="feos-mut-")
    root = os.path.join(tmp, "repo")
    try:
        subprocess.check_call(["rsync", "-a", "--exclude", "target", "--exclude", ".git", REPO + "/", root + "/"])
        if m.get("edit"):
            apply_edits(root, m["edit"])
        if m.get("patch"):
            pf = m["patch"] if os.path.isabs(m["patch"]) else os.path.join(VERIF, m["patch"])
            subprocess.check_call(["patch", "-p1", "-s", "-i", pf], cwd=root)
        if m.get("patch_out"):
            pass
        env = dict(os.environ, FEOS_REPO=root)
        code = WORKER % {"verif": VERIF, "props": m["props"]}
        r = subprocess.run([sys.executable, "-c", code], env=env, stdout=subprocess.PIPE, stderr=subprocess.PIPE, text=True)
        res = None
        for line in r.stdout.splitlines():
            if line.startswith("RESULT "):
                res = json.loads(line[7:])
        if res is None:
            return {"name": m["name"], "status": "error", "detail": (r.stdout + r.stderr)[-2000:], "wall": time.time() - t0}
        if "__error__" in res:
            return {"name": m["name"], "status": "nocompile", "detail": res["__error__"], "wall": time.time() - t0}
        known = load_known()
        allkeys = [(p, k) for p, ks in res.items() for k in ks if (p, k) not in known]
        if m["kind"] == "break":
            hit = [k for p, k in allkeys if m["expect"] in k]
            status = "caught" if hit else "MISSED"
            return {"name": m["name"], "status": status, "keys": [k for _, k in allkeys], "wall": time.time() - t0}
        else:
            status = "silent" if not allkeys else "FALSE-ALARM"
            return {"name": m["name"], "status": status, "keys": [k for _, k in allkeys], "wall": time.time() - t0}
    except Exception as e:   # noqa
        return {"name": m["name"], "status": "error", "detail": repr(e), "wall": time.time() - t0}
    finally:
        if not keep:
            shutil.rmtree(tmp, ignore_errors=True)


def load_known():
    sys.path.insert(0, os.path.join(VERIF, "rules"))
    import report
    known, _ = report.load_known()
    return known


def load_corpus():
    with open(CORPUS, "rb") as fh:
        return tomllib.load(fh)["mutant"]


def main():
    ap = argparse.ArgumentParser()
    ap.add_argument("-j", type=int, default=4)
    ap.add_argument("--only")
    ap.add_argument("--kind")
    ap.add_argument("--props")
    ap.add_argument("--json")
    ap.add_argument("--patch", help="ad-hoc: apply this patch file instead of the corpus (use with --props)")
    a = ap.parse_args()
    ms = load_corpus()
    if a.patch:
        ms = [{"name": os.path.basename(os.path.dirname(a.patch)) or "adhoc", "kind": "break", "props": a.props.split(","), "expect": "|", "patch": a.patch}]
        a.props = None
    if a.only:
        want = set(a.only.split(","))
        ms = [m for m in ms if m["name"] in want]
    if a.kind:
        ms = [m for m in ms if m["kind"] == a.kind]
    if a.props:
        want = set(a.props.split(","))
        ms = [m for m in ms if want & set(m["props"])]
    with ThreadPoolExecutor(max_workers=a.j) as ex:
        results = list(ex.map(run_one, ms))
    bad = 0
    for r in results:
        flag = r["status"] in ("caught", "silent")
        if not flag:
            bad += 1
        print("%-12s %-40s %5.1fs %s" % (r["status"], r["name"], r["wall"], "" if flag else json.dumps(r.get("keys") or (r.get("detail") or "")[-1200:])))
    if a.json:
        json.dump(results, open(a.json, "w"), indent=1)
    sys.exit(1 if bad else 0)


if __name__ == "__main__":
    main()
