#!/usr/bin/env python3
"""tools/seeds_regress.py [-j N] — re-runs every stored seed (seeded/<ID>/patch.diff) against the rules of its property and
every stored neutral refactor (mutants/patches/neutral/N<prop>-n*.diff) and prints the outcome:
seeds are expected to be caught (except the ones documented as still missed), neutral patches to be silent."""
import glob, json, os, subprocess, sys, tempfile
from concurrent.futures import ThreadPoolExecutor
HERE = os.path.dirname(os.path.dirname(os.path.abspath(__file__)))
EXPECTED_MISSED = {"C08", "C04c", "C04d", "C10e", "C06f", "C08f", "C14f", "C15f"}
# deep restructurings of round 2 that still raise an alarm (documented limits, DESIGN App. C)
EXPECTED_ALARM = {"MC04-n1", "MC07-n3", "MC11-n1", "MC11-n3", "MC18-n1"}

def one(job):
    kind, name, patch, prop = job
    out = tempfile.NamedTemporaryFile(suffix=".json", delete=False); out.close()
    subprocess.run([sys.executable, os.path.join(HERE, "tools", "corpus.py"), "--patch", patch, "--props", prop, "--json", out.name],
                   stdout=subprocess.DEVNULL, stderr=subprocess.DEVNULL)
    try:
        r = json.load(open(out.name))[0]
    except Exception:
        r = {"status": "error", "keys": []}
    os.unlink(out.name)
    return kind, name, prop, r

def main():
    j = int(sys.argv[sys.argv.index("-j") + 1]) if "-j" in sys.argv else 6
    jobs = []
    for m in sorted(glob.glob(os.path.join(HERE, "seeded", "*", "meta.json"))):
        d = json.load(open(m))
        jobs.append(("seed", d["id"], os.path.join(os.path.dirname(m), "patch.diff"), d["property"]))
    for p in sorted(glob.glob(os.path.join(HERE, "mutants", "patches", "neutral", "N*-n*.diff"))) + \
            sorted(glob.glob(os.path.join(HERE, "mutants", "patches", "neutral2", "M*-n*.diff"))) + \
            sorted(glob.glob(os.path.join(HERE, "mutants", "patches", "neutral3", "T*-n*.diff"))) + \
            sorted(glob.glob(os.path.join(HERE, "mutants", "patches", "neutral4", "U*-n*.diff"))) + \
            sorted(glob.glob(os.path.join(HERE, "mutants", "patches", "neutral5", "V*-n*.diff"))) + \
            sorted(glob.glob(os.path.join(HERE, "mutants", "patches", "neutral6", "W*-n*.diff"))) + \
            sorted(glob.glob(os.path.join(HERE, "mutants", "patches", "neutral7", "X*-n*.diff"))):
        b = os.path.basename(p)
        jobs.append(("neutral", b[:-5], p, b[1:4]))
    bad = 0
    with ThreadPoolExecutor(max_workers=j) as ex:
        for kind, name, prop, r in ex.map(one, jobs):
            st = r["status"]
            if kind == "seed":
                ok = (st == "caught") != (name in EXPECTED_MISSED)
                label = "caught" if st == "caught" else ("missed" if st == "MISSED" else st)
            else:
                ok = (st == "MISSED") != (name in EXPECTED_ALARM)
                label = "silent" if st == "MISSED" else ("ALARM" if st == "caught" else st)
            bad += 0 if ok else 1
            print("%-8s %-10s %-4s %-7s %s %s" % (kind, name, prop, label, "" if ok else "<== UNEXPECTED", "; ".join(k[:110] for k in r.get("keys", [])[:3])))
    print("unexpected:", bad)
    sys.exit(1 if bad else 0)

main()
