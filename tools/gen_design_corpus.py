#!/usr/bin/env python3
"""tools/gen_design_corpus.py — regenerates the block between <!-- CORPUS-BEGIN --> and <!-- CORPUS-END --> of DESIGN.md
(Appendix A) from mutants/corpus.toml."""
import os, re, tomllib
HERE = os.path.dirname(os.path.dirname(os.path.abspath(__file__)))
with open(os.path.join(HERE, "mutants", "corpus.toml"), "rb") as fh:
    ms = tomllib.load(fh)["mutant"]
brk = [m for m in ms if m["kind"] == "break"]
neu = [m for m in ms if m["kind"] == "neutral" and not m["name"].startswith("agent_")]
agent = [m for m in ms if m["kind"] == "neutral" and m["name"].startswith("agent_")]
seeds = [m for m in brk if str(m.get("patch", "")).startswith("seeded/")]
short = lambda n: n.split("_")[0]
lines = ["Current state: %d breaking mutants (each must be caught with its expected key; %d of them are stored seeds of Appendix B), "
         "%d hand-written neutral refactors and %d behaviour-preserving patches written by sub-agents (each must stay silent). "
         "Mutants per property (a mutant may serve several properties):" % (len(brk), len(seeds), len(neu), len(agent)), ""]
for p in ["C%02d" % i for i in range(1, 21)]:
    b = [short(m["name"]) for m in brk if p in m["props"]]
    n = [short(m["name"]) for m in neu if p in m["props"]]
    a = sum(1 for m in agent if p in m["props"])
    s = "* %s — break: %s" % (p, ", ".join(b) or "-")
    if n:
        s += "; neutral: %s" % ", ".join(n)
    s += "; + %d behaviour-preserving patches by sub-agents (App. C)" % a
    lines.append(s)
path = os.path.join(HERE, "DESIGN.md")
txt = open(path).read()
new = re.sub(r"<!-- CORPUS-BEGIN -->.*?<!-- CORPUS-END -->", lambda m: "<!-- CORPUS-BEGIN -->\n" + "\n".join(lines) + "\n<!-- CORPUS-END -->", txt, flags=re.S)
open(path, "w").write(new)
print(lines[0])
