#!/usr/bin/env python3
"""Freeze the partition of struct-field index spaces of the *reviewed* tree (R18b reference).
Run only after reviewing the printed classes; the result is committed as tables/r18_reference.json."""
import json, os, sys
HERE = os.path.dirname(os.path.abspath(__file__))
sys.path.insert(0, os.path.join(os.path.dirname(HERE), "rules"))
import facts, r18_indexspace
F = facts.load()
inf = r18_indexspace.Inference(F).run()
classes = {}
for x in list(inf.uf.p):
    if x == "COMP" or x.startswith(("FS:", "FE:", "FK:")):
        classes.setdefault(inf.uf.find(x), []).append(x)
out = sorted(sorted(v) for v in classes.values())
json.dump({"treehash": F.treehash, "classes": out}, open(os.path.join(os.path.dirname(HERE), "tables", "r18_reference.json"), "w"), indent=1)
for c in out:
    if len(c) > 1:
        print(len(c), c[:8], "..." if len(c) > 8 else "")
print("classes:", len(out), "nodes:", sum(len(c) for c in out))
