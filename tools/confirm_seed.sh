#!/bin/bash
# usage: tools/confirm_seed.sh <ID> <demo-dest-relative-path> <demo cargo command...>
# Independently confirms a seeded change in its scratch worktree: (1) the patch applies to /repo's HEAD and the tree
# compiles, (2) the 104 baseline tests still pass with the patch and without the demo, (3) the demo fails with the patch,
# (4) the demo passes without it.  Log: /tmp/seedwork/out-<ID>/confirm.log
ID=$1; DEST=$2; shift 2
WT=/tmp/seedwork/wt-$ID; OUT=/tmp/seedwork/out-$ID; LOG=$OUT/confirm.log
export CARGO_NET_OFFLINE=true
cd $WT || exit 9
exec > $LOG 2>&1
echo "== reset worktree to HEAD and apply patch"
git checkout -q . ; git clean -fdq -e target
git apply $OUT/patch.diff || { echo "PATCH-DOES-NOT-APPLY"; exit 1; }
echo "== baseline suite with patch (no demo)"
cargo test --workspace --no-fail-fast --offline 2>&1 | grep -E "^test result|FAILED|failed|error(\[|:)" | tee $OUT/suite_summary.txt
PASSED=$(grep -E "^test result: ok" $OUT/suite_summary.txt | sed -E 's/.* ([0-9]+) passed.*/\1/' | paste -sd+ | bc)
FAILED=$(grep -cE "FAILED|error" $OUT/suite_summary.txt)
echo "SUITE passed=$PASSED failed_lines=$FAILED"
echo "== demo WITH patch (must fail)"
mkdir -p $(dirname $DEST); cp $OUT/demo.rs $DEST
"$@" 2>&1 | grep -E "^test |test result|panicked|error" | tail -15
"$@" >/dev/null 2>&1; echo "DEMO_WITH_PATCH_EXIT=$?"
echo "== demo WITHOUT patch (must pass)"
git apply -R $OUT/patch.diff
"$@" 2>&1 | grep -E "^test |test result|panicked|error" | tail -15
"$@" >/dev/null 2>&1; echo "DEMO_WITHOUT_PATCH_EXIT=$?"
git apply $OUT/patch.diff
echo "== done"
