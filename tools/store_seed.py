#!/usr/bin/env python3
"""tools/store_seed.py <ID> <property> '<summary>' '<breaks_clause>' '<needs>' '<demo_cmd>' '<before>' '<after>'
copies a confirmed seed from /tmp/seedwork/out-<ID> into /verif/seeded/<ID>/ and writes meta.json"""
import json, os, re, shutil, sys
ID, prop, summary, clause, needs, demo_cmd, before, after = sys.argv[1:9]
src = "/tmp/seedwork/out-%s" % ID
dst = os.path.join(os.path.dirname(os.path.dirname(os.path.abspath(__file__))), "seeded", ID)
os.makedirs(dst, exist_ok=True)
for f, t in (("patch.diff", "patch.diff"), ("demo.rs", "demo.rs"), ("notes.md", "agent_notes.md"), ("confirm.log", "confirm.log")):
    shutil.copy(os.path.join(src, f), os.path.join(dst, t))
log = open(os.path.join(src, "confirm.log")).read()
suite = re.search(r"SUITE passed=(\d+) failed_lines=(\d+)", log)
w = re.search(r"DEMO_WITH_PATCH_EXIT=(\d+)", log)
wo = re.search(r"DEMO_WITHOUT_PATCH_EXIT=(\d+)", log)
meta = {
    "id": ID, "property": prop,
    "origin": "independent sub-agent (given only the property text and a scratch worktree of /repo)",
    "summary": summary, "breaks_clause": clause, "needs_to_manifest": needs,
    "demo": "demo.rs -> tests/seed_%s.rs; `%s`" % (ID.lower(), demo_cmd),
    "confirmed_by_me": {
        "command": "tools/confirm_seed.sh %s tests/seed_%s.rs %s" % (ID, ID.lower(), demo_cmd),
        "suite_with_patch": "%s passed (104 tests + 3 doctests), %s failing lines" % (suite.group(1), suite.group(2)) if suite else "?",
        "demo_with_patch_exit": int(w.group(1)) if w else None,
        "demo_without_patch_exit": int(wo.group(1)) if wo else None,
    },
    "detected_by": {"before_strengthening": before, "after_strengthening": after,
                    "check_command": "tools/corpus.py --patch seeded/%s/patch.diff --props %s" % (ID, prop)},
}
ok = suite and suite.group(2) == "0" and w and w.group(1) != "0" and wo and wo.group(1) == "0"
meta["confirmed"] = bool(ok)
json.dump(meta, open(os.path.join(dst, "meta.json"), "w"), indent=1)
print(ID, "confirmed" if ok else "NOT CONFIRMED")
