#!/bin/bash
# usage: tools/neutral_batch.sh <outdir> <props>   — runs every n*.diff in <outdir> as an ad-hoc patch; prints status + keys
OUT=$1; PROPS=$2
for f in $OUT/n*.diff; do
  python3 /verif/tools/corpus.py --patch $f --props $PROPS --json /tmp/nb-$$.json >/dev/null 2>&1
  python3 - "$f" /tmp/nb-$$.json <<'PY'
import json,sys
r=json.load(open(sys.argv[2]))[0]
st=r['status']
print(sys.argv[1].split('/')[-2]+'/'+sys.argv[1].split('/')[-1], 'SILENT' if st=='MISSED' else ('ALARM' if st=='caught' else st))
for k in r.get('keys',[])[:12]: print('    ',k[:260])
if st not in('MISSED','caught'): print('    ',r.get('detail','')[-800:])
PY
done
rm -f /tmp/nb-$$.json
