#!/usr/bin/env python3
"""writes tables/r20b_reference.json: per function the number of (i, j)-generator closures with symmetric access sets (review before committing)"""
import json, os, sys
HERE = os.path.dirname(os.path.dirname(os.path.abspath(__file__)))
sys.path.insert(0, os.path.join(HERE, "rules"))
import facts, r20b_gensym
F = facts.load("full")
cur = r20b_gensym.classify(F)
ref = {fn: sum(1 for s, _, _ in v if s) for fn, v in cur.items() if any(s for s, _, _ in v)}
json.dump({"symmetric_generators": dict(sorted(ref.items()))}, open(os.path.join(HERE, "tables", "r20b_reference.json"), "w"), indent=1)
print(len(ref), "functions,", sum(ref.values()), "symmetric generators")
