#!/usr/bin/env python3
"""Generate /verif/MANIFEST.json from the registry and the claim texts in tables/claims.toml."""
import json
import os
import sys
import tomllib

HERE = os.path.dirname(os.path.abspath(__file__))
VERIF = os.path.dirname(HERE)
sys.path.insert(0, os.path.join(VERIF, "rules"))
import registry  # noqa: E402

claims = tomllib.load(open(os.path.join(VERIF, "tables", "claims.toml"), "rb"))
checks = []
na = []
all_ids = [json.loads(l)["id"] for l in open(os.path.join(VERIF, "properties.jsonl"))]
for pid in all_ids:
    c = claims.get(pid, {})
    if pid in registry.PROPERTY_RULES and c.get("claim", True) and "text" in c:
        checks.append({
            "property_id": pid,
            "quick_cmd": "./check %s --tier quick" % pid,
            "thorough_cmd": "./check %s --tier thorough" % pid,
            "evidence_file": "/verif/evidence/%s.json" % pid,
            "replay_cmd_template": "./check %s --replay {path}" % pid,
            "engine": "feoslint",
            "level_claimed": {"category": "other", "text": c["text"], "design_ref": c.get("design_ref", "DESIGN.md §4 " + pid)},
            "level_note": c.get("note", "trusted: rustc MIR construction and type checking; num-dual part semantics; hand-confirmed tables under /verif/tables"),
            "technique": c["technique"],
        })
    else:
        na.append({"property_id": pid, "reason": c.get("na_reason", "check under construction (see DESIGN.md)")})

m = {
    "version": 1,
    "setup_cmd": "cd /verif && ./setup.sh",
    "hooks": {
        "guard": "feos_verif",
        "enable": "none needed: the analysis reads /repo's source as it is; no instrumentation is compiled into feos",
        "baseline_off_cmd": "cd /repo && cargo test --workspace --no-fail-fast --offline",
        "source_commits": [],
        "add_only": True,
    },
    "engines": [
        {"name": "feoslint", "path": "engines/feoslint", "serves_properties": [c["property_id"] for c in checks],
         "kind_free_text": "rustc_private driver (nightly) injected with RUSTC_WORKSPACE_WRAPPER under cargo check; dumps MIR, resolved callees, items, "
                           "evaluated constants and a deep interior-mutability census as JSON facts; Python rules (dataflow, cut-set, dominance, who-may-call, table agreement) decide"},
    ],
    "checks": checks,
    "not_applicable": na,
    "notes": "Technique family: static analysis only (no feos code is executed by any check). See DESIGN.md. "
             "Repairs of genuine defects are `fix:` commits in /repo recorded in known_findings.txt.",
}
json.dump(m, open(os.path.join(VERIF, "MANIFEST.json"), "w"), indent=1)
print("checks:", [c["property_id"] for c in checks])
print("not_applicable:", [n["property_id"] for n in na])
